"""Regenerates /verif/MANIFEST.json from the table below:  /venv/bin/python -m sa.manifest"""
from __future__ import annotations

import importlib
import json
import os

VERIF = os.path.dirname(os.path.dirname(os.path.abspath(__file__)))

NOTE = ("Decides the named structural clauses (necessary conditions of the property), not the behaviour. "
        "Trusted base: CPython's ast/tokenize/token/re._parser as grammar and token oracle, the oracle tables in "
        "sa/grammar.py (facts about Python from the language reference), the anchor resolution of sa/core.py. "
        "rope is never imported or executed by the check.")

# property -> (engine, technique, level text, design ref)
TABLE = {
    "C01": ("vgc+ecg", "AST rule checks: scope-lookup chain resolution through the MRO, visitor-vs-grammar coverage for global/nonlocal, CFG guard domination in the local-only shortcut",
            "Three structural necessary conditions of rename's binding preservation: enclosing-scope lookup skips class scopes; scope-redirecting declarations have binding handlers; the single-file shortcut is guarded by 'function-local assigned name'. Alpha-equivalence of the output is not decided."),
    "C02": ("ecg+rca", "AST symmetry check of the binding-identity relation, regex-AST analysis of the candidate pattern, CFG guard domination over the filter chain",
            "Binding identity is a symmetric relation; the textual candidate pattern has string/comment alternatives that are skipped; occurrences are yielded only through a filter accept. Exactness of the occurrence set is not decided."),
    "C03": ("vgc", "visitor x grammar coverage: handler tables and per-handler field/flow summaries compared with the interpreter's ASDL grammar and binding/conditional/loop/generator oracle tables",
            "The extract flow summary covers every binding, conditional, loop and generator construct of the running interpreter's grammar; suite walker covers every compound statement. Behaviour preservation is not decided."),
    "C04": ("ecg", "ownership/alias analysis of the definition generator's state; dominating closed-table test on every non-None return of the assignment classifier",
            "Per-call-site independence of the inline definition generator (no __init__ state mutated from get_definition); the write/read classifier validates the operator against a closed table. Text of the inlined code is not decided."),
    "C05": ("ecg-cfg", "change-set typestate (no contents change after the move of a resource), placeholder must-replace path rule, per-module-loop coverage, import-list provenance, must-pass-through the relative-import absolutiser, splice integrity",
            "Seven structural necessary conditions of the move machinery: announcement order of contents changes / folder creation / move; placeholders are replaced wherever something was renamed; every module of the loop is rewritten or skipped on an occurrence test; moved code carries the origin's imports and the back-import; everything that changes package is absolutised first; the move is announced on every path; spliced text keeps the destination whole. The text of the rewritten imports and references (which importer style is rewritten how) is not decided."),
    "C06": ("vgc", "def-use 'derives-from' analysis on every destructuring of ast.arguments / ast.Call against the grammar's alignment rule",
            "Every reader of ast.arguments uses all parameter-bearing fields and pairs defaults with the right parameter lists; no assert on the analysed program's call shape. Call rewriting arithmetic is not decided."),
    "C07": ("vgc+ecg", "scope-attribution check of the unbound-name visitors, CFG domination for __future__ filtering, def-use must-flow for __all__, dispatch exhaustiveness",
            "Used-name computation evaluates enclosing-scope fields in the enclosing scope; __future__ imports are never filtered; __all__ names protect imports; import-info dispatch is exhaustive. Idempotence and emitted text are not decided."),
    "C08": ("vgc+rca", "handler and child-field exhaustiveness of the patched-AST walker against the ASDL grammar; regular-language inclusion tokenizer-literal-pattern in rope-pattern by DFA product",
            "Every grammar constructor has a handler and every node-typed field is placed among the children; operator table complete; number/string-prefix languages of the tokenizer are included in rope's literal patterns. Region exactness and write-back equality are not decided."),
    "C09": ("ecg", "whole-program call graph reachability to effect sinks, who-may-call table for FS primitives, provenance lattice for Change targets, announce-vs-effect attribute comparison, typed-raise check",
            "No call path from change computation to a disk mutator; FS primitives confined to an explicit owner table; change targets have project provenance; announced resources cover operated resources; explicit refusals are RopeError subclasses. Implicit internal exceptions are not decided."),
    "C10": ("ecg-cfg", "statement-CFG path rules (ordering parity, must-re-raise, adjacency, no raising call after effect, mutate-after-success, reset on every exit)",
            "Rollback order, re-raise, bookkeeping adjacency, job-wrapper raise-after-effect, history-list mutation only after the fallible call, current_change reset on all exits. Tree equality after a fault is not decided."),
    "C11": ("ecg-cfg", "inverse-operation table check of do/undo per Change kind, iteration-order inversion, history stack discipline via CFG domination",
            "do/undo are inverse operation sequences per change kind; composite undo order is the reverse of do; history stack discipline (guards, one pop per append, redo cleared). Content equality is not decided."),
    "C12": ("ecg", "writer/reader table agreement (arity, attribute flow, tag sets, version constants, data-file names)",
            "ChangeToData/DataToChange agree per kind in arity and attribute flow; serializer encoder/decoder tag sets agree; state pair and data-file names agree. Value-level round-trip equality is not decided."),
    "C13": ("ecg-cfg", "must-notify-after-mutate CFG rule, observer registration table check, invalidation completeness",
            "Every resource mutation notifies observers on all normal paths; each cache registers for the events that can invalidate it; invalidation performs all required steps; file-keyed raw observers handle folder events. Sufficiency of invalidation is not decided."),
    "C14": ("rca", "symbolic length of replacement texts; finite-language membership and regular-language inclusion against tokenize's own patterns; sibling table agreement",
            "Blanking preserves length; every tokenizer string prefix is in rope's string pattern; comment pattern equals the tokenizer's; bracket tables agree across the three scanners. Line arithmetic and scanners are not decided."),
    "C15": ("vgc", "visitor x grammar coverage of the scope visitors: binding constructs, parameter kinds, redirects, reachability of scope-creating expressions, scope attribution",
            "Every binding, scope-creating and scope-redirecting construct of the interpreter's grammar is handled by the scope visitors in the right scope. Scope extents and inferred objects are not decided."),
    "C16": ("ecg-cfg", "codec-symmetry check, newline def-use chain, read-before-write CFG rule, replacement-order rule",
            "Encoder and decoder choose the encoding by the same function and default; the detected newline convention flows to the writer; every write_file of text is preceded by a read of the same resource; CRLF is normalised before CR. Byte equality is not decided."),
    "C17": ("ecg+vgc", "closed operator-table domination, refusal-dominates-emission CFG rule, keyword dataflow into the finder, generator-refusal visitor coverage",
            "Write classifier uses a closed operator table; tuple-assignment refusal dominates setter emission; factory rewrite is restricted to calls; generator functions are refused via a yield finder that covers every generator construct. Emitted text is not decided."),
    "C18": ("ecg-cfg", "call-graph from the open path to every deserialisation; handler-coverage (exception class subsumption) or atomic-writer disjunct; None-guard domination in consumers",
            "Every unpickling on the open path tolerates a truncated file (handlers cover EOFError and UnpicklingError) or every writer is atomic; consumers test for None; nothing else written at close is read at open. Which version survives is not decided."),
    "C19": ("ecg-cfg", "CFG guard domination of every yielded match by the region test; wildcard rebinding compares structurally; field-enumeration completeness of the matcher",
            "Matches are yielded only inside the requested region; a bound wildcard is compared with the earlier binding; the matcher enumerates all fields and has a rejecting exit per comparison dimension; overlapping replacements are skipped. Completeness and meaning-preserving substitution are not decided."),
    "C20": ("ecg-cfg", "CFG guard domination of every proposal construction by startswith(prefix); dataflow of the recursion's scope-name source",
            "Every completion proposal is constructed under a startswith test on the typed prefix; enclosing scopes contribute propagated names only. Absence of internal errors at every position is not decided."),
}

NOT_APPLICABLE = {}


def build() -> dict:
    checks = []
    na = [{"property_id": k, "reason": v} for k, v in NOT_APPLICABLE.items()]
    for pid, (engine, tech, text) in sorted(TABLE.items()):
        try:
            mod = importlib.import_module(f"sa.rules.{pid.lower()}")
        except ModuleNotFoundError:
            na.append({"property_id": pid, "reason": "static rules designed (DESIGN.md section 4) but not yet implemented in this commit"})
            continue
        checks.append({
            "property_id": pid,
            "quick_cmd": f"/venv/bin/python -m sa.run {pid} --tier quick",
            "thorough_cmd": f"/venv/bin/python -m sa.run {pid} --tier thorough",
            "evidence_file": f"/verif/evidence/{pid}.json",
            "replay_cmd_template": "/venv/bin/python -m sa.run --replay {path}",
            "engine": engine,
            "level_claimed": {"category": "other",
                              "text": "static analysis of the working tree; clause-level: " + text
                                      + "  All clauses decided today (same text as in the evidence file): " + getattr(mod, "EXPLANATION", ""),
                              "design_ref": f"DESIGN.md section 4 ({pid}), sections 12-19 (rules added after seeding rounds), Appendix A (generated rule index)"},
            "level_note": NOTE,
            "technique": "static analysis: " + tech,
        })
    return {
        "version": 1,
        "setup_cmd": "/venv/bin/python -m compileall -q sa && /venv/bin/python -m sa.setup_smoke",
        "hooks": {
            "guard": "PYTHON_ROPE_ROPE_VERIF",
            "enable": "no hooks: the checks parse /repo's working tree and never build or run rope; the guard is unused",
            "baseline_off_cmd": "cd /repo && /venv/bin/python -m pytest -ra -q -p no:cacheprovider --timeout=900 --continue-on-collection-errors",
            "source_commits": [],
            "add_only": True,
        },
        "engines": [
            {"name": "core", "path": "sa/core.py, sa/cfg.py, sa/report.py", "serves_properties": sorted(TABLE),
             "kind_free_text": "loader, symbol index with MRO, hand-built statement CFG with exceptional edges, dominators and guard queries, known-findings and evidence"},
            {"name": "vgc", "path": "sa/grammar.py, sa/vgc.py", "serves_properties": ["C01", "C03", "C06", "C07", "C08", "C15", "C17"],
             "kind_free_text": "visitor x grammar coverage: rope's hand-written AST visitors compared with the running interpreter's ASDL grammar"},
            {"name": "ecg", "path": "sa/callgraph.py", "serves_properties": ["C04", "C05", "C09", "C10", "C11", "C12", "C13", "C16", "C18", "C19", "C20"],
             "kind_free_text": "call graph with typed/CHA/by-name resolution, effect sinks, provenance, CFG path rules"},
            {"name": "rca", "path": "sa/rca.py, sa/rederiv.py, sa/fold.py", "serves_properties": ["C02", "C08", "C14", "C16"],
             "kind_free_text": "constant folding of regex-building code, regex AST to NFA/DFA, language inclusion with counter-example; exact inclusion with lookahead by Brzozowski derivatives"},
            {"name": "selftest", "path": "sa/selftest.py, sa/mutations.py, sa/astmut.py, sa/transforms.py, seeded/, benign/", "serves_properties": sorted(TABLE),
             "kind_free_text": "thorough tier: AST mutants and kept seeded changes must be reported; verdicts invariant under reformatting and three whole-tree rewrites; kept behaviour-preserving refactorings must raise no alarm"},
        ],
        "checks": checks,
        "not_applicable": sorted(na, key=lambda d: d["property_id"]),
        "notes": "All checks are pure static analysis (stdlib ast) of /repo's working tree; known findings in known_findings.jsonl; self-test mutations run in the thorough tier on scratch copies under a temp dir.",
    }


if __name__ == "__main__":
    m = build()
    with open(os.path.join(VERIF, "MANIFEST.json"), "w") as f:
        json.dump(m, f, indent=1)
    print("claimed:", [c["property_id"] for c in m["checks"]])
    print("not_applicable:", [c["property_id"] for c in m["not_applicable"]])
