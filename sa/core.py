"""E0 core: loader, symbol index, MRO, anchors, small AST helpers."""
from __future__ import annotations

import sys as _sys

# deep if/elif chains (and their copies made by the helper inliner) need more than the default 1000 frames
_sys.setrecursionlimit(max(_sys.getrecursionlimit(), 20000))

import ast
import os
import sys
from dataclasses import dataclass, field
from typing import Dict, Iterable, Iterator, List, Optional, Set, Tuple
import json


class AnalysisError(Exception):
    """The analysis itself is broken (anchor vanished, file does not parse,
    floor not met).  Exit code 2 -- never a VIOLATION, never a silent pass."""


def repo_root() -> str:
    return os.environ.get("VERIF_REPO", "/repo")


# --------------------------------------------------------------------------
# units


@dataclass
class Unit:
    modname: str
    path: str  # absolute
    rel: str  # relative to repo root
    source: str
    tree: ast.Module
    is_pkg: bool

    def seg(self, node: ast.AST) -> str:
        return ast.get_source_segment(self.source, node) or ""


@dataclass
class FuncInfo:
    qualname: str  # rope.base.change.ChangeSet.do
    name: str
    node: ast.AST  # FunctionDef / AsyncFunctionDef / Lambda
    unit: Unit
    cls: Optional["ClassInfo"]
    parent: Optional["FuncInfo"] = None  # enclosing function for nested defs

    @property
    def where(self) -> str:
        return f"{self.unit.rel}:{self.node.lineno}"

    def call_params(self) -> List[str]:
        """the parameter names as a caller fills them positionally: without `self` / `cls` for methods, all of them for
        static methods and plain functions"""
        a = self.node.args
        ps = [p.arg for p in a.posonlyargs + a.args]
        static = any(d.split(".")[-1] == "staticmethod" for d in self.decorator_names())
        return ps if (self.cls is None or static) else ps[1:]

    def decorator_names(self) -> List[str]:
        out = []
        for d in getattr(self.node, "decorator_list", []):
            out.append(dotted(d.func if isinstance(d, ast.Call) else d) or "?")
        return out


@dataclass
class ClassInfo:
    qualname: str
    name: str
    node: ast.ClassDef
    unit: Unit
    base_exprs: List[ast.expr]
    bases: List[Optional[str]] = field(default_factory=list)  # resolved qualnames (None = external/unknown)
    methods: Dict[str, FuncInfo] = field(default_factory=dict)
    class_attrs: Dict[str, ast.expr] = field(default_factory=dict)

    @property
    def where(self) -> str:
        return f"{self.unit.rel}:{self.node.lineno}"


def dotted(node: ast.AST) -> Optional[str]:
    """a.b.c -> 'a.b.c' for Name/Attribute chains, else None."""
    parts = []
    while isinstance(node, ast.Attribute):
        parts.append(node.attr)
        node = node.value
    if isinstance(node, ast.Name):
        parts.append(node.id)
        return ".".join(reversed(parts))
    return None


class _SuppressAsTry(ast.NodeTransformer):
    """`with contextlib.suppress(A, B): BODY` is `try: BODY / except (A, B): pass` written differently.  Every module is indexed in the
    second form, so that the rules about handlers (what is swallowed, what a failing path still does) see one construct."""

    def visit_With(self, node: ast.With):
        self.generic_visit(node)
        if len(node.items) == 1 and node.items[0].optional_vars is None:
            c = node.items[0].context_expr
            if isinstance(c, ast.Call) and (dotted(c.func) or "").split(".")[-1] == "suppress" and c.args and not c.keywords:
                typ = c.args[0] if len(c.args) == 1 else ast.copy_location(ast.Tuple(elts=list(c.args), ctx=ast.Load()), c)
                handler = ast.copy_location(ast.ExceptHandler(type=typ, name=None, body=[ast.copy_location(ast.Pass(), node)]), node)
                return ast.copy_location(ast.Try(body=node.body, handlers=[handler], orelse=[], finalbody=[]), node)
        return node


def is_pinnable(name: str) -> bool:
    """a private function in the sense of the anchor table: `_lower...` (not dunder, not a `_For`-style handler found through getattr)"""
    return len(name) > 2 and name[0] == "_" and name[1] != "_" and name[1].islower()


def function_shape(fn: ast.AST) -> Set[str]:
    """a bag of features of a function that survives a rename of the function (and of other private helpers): parameter names, the
    names it calls, the attributes it reads, its constants"""
    out: Set[str] = set()
    a = fn.args
    for p_ in a.posonlyargs + a.args + a.kwonlyargs:
        if p_.arg not in ("self", "cls"):
            out.add("p:" + p_.arg)
    for x in ast.walk(fn):
        if isinstance(x, ast.Call):
            n_ = x.func.attr if isinstance(x.func, ast.Attribute) else (x.func.id if isinstance(x.func, ast.Name) else None)
            if n_ and not is_pinnable(n_):
                out.add("c:" + n_)
        elif isinstance(x, ast.Attribute) and not is_pinnable(x.attr):
            out.add("a:" + x.attr)
        elif isinstance(x, ast.Constant) and isinstance(x.value, (str, int)) and not isinstance(x.value, bool):
            out.add("k:" + repr(x.value)[:40])
        elif isinstance(x, (ast.Return, ast.Raise, ast.For, ast.While, ast.If, ast.Try, ast.With, ast.Yield)):
            out.add("s:" + type(x).__name__)
    return out


def class_shape(cls: ast.ClassDef) -> Set[str]:
    """features of a class that survive its renaming: its methods, its bases, the attributes it binds on self"""
    out: Set[str] = set()
    for b in cls.bases:
        out.add("b:" + (b.attr if isinstance(b, ast.Attribute) else getattr(b, "id", "?")))
    for m in cls.body:
        if isinstance(m, (ast.FunctionDef, ast.AsyncFunctionDef)):
            out.add("m:" + m.name)
            for x in ast.walk(m):
                if isinstance(x, ast.Attribute) and isinstance(x.ctx, ast.Store) and isinstance(x.value, ast.Name) and x.value.id == "self":
                    out.add("s:" + x.attr)
                elif isinstance(x, ast.Call):
                    n_ = x.func.attr if isinstance(x.func, ast.Attribute) else (x.func.id if isinstance(x.func, ast.Name) else None)
                    if n_ and not n_.startswith("_"):
                        out.add("c:" + n_)
                elif isinstance(x, ast.Constant) and isinstance(x.value, str) and 0 < len(x.value) < 30:
                    out.add("k:" + x.value)
        elif isinstance(m, ast.Assign):
            for t in m.targets:
                if isinstance(t, ast.Name):
                    out.add("v:" + t.id)
    return out


def match_renamed(pinned: Dict[str, List[str]], present: Dict[str, Set[str]], min_features: int) -> Dict[str, str]:
    """new name -> pinned name, for the pinned names that are missing among `present` (name -> shape of what is there now and is NOT
    pinned).  Confident pairs first (Jaccard >= 0.6, at least `min_features` features, the best rival of either side 0.2 behind); when
    exactly one missing name and one unknown name are left over, they are paired if they share half their features."""
    missing = {o: set(f) for o, f in pinned.items() if o not in present}
    pairs = sorted(((len(w & sh) / max(1, len(w | sh)), o, n) for o, w in missing.items() for n, sh in present.items()), reverse=True)
    out: Dict[str, str] = {}
    used_o: Set[str] = set()
    used_n: Set[str] = set()
    for sc, o, n in pairs:
        if o in used_o or n in used_n or sc < 0.6 or len(missing[o]) < min_features:
            continue
        rival = max([s2 for s2, o2, n2 in pairs if (o2 == o) != (n2 == n) and o2 not in used_o and n2 not in used_n] + [0.0])
        if sc - rival < 0.2:
            continue
        out[n] = o
        used_o.add(o)
        used_n.add(n)
    rest_o = [o for o in missing if o not in used_o]
    rest_n = [n for n in present if n not in used_n]
    if len(rest_o) == 1 and len(rest_n) == 1:
        w, sh = missing[rest_o[0]], present[rest_n[0]]
        if len(w) >= 2 and len(w & sh) / max(1, len(w | sh)) >= 0.5:
            out[rest_n[0]] = rest_o[0]
    return out


class Index:
    """Parsed working tree + symbol tables."""

    def __init__(self, root: Optional[str] = None, package: str = "rope", canonicalise: bool = True):
        self.root = root or repo_root()
        self.package = package
        self.units: Dict[str, Unit] = {}
        self.classes: Dict[str, ClassInfo] = {}
        self.functions: Dict[str, FuncInfo] = {}
        self.imports: Dict[str, Dict[str, str]] = {}  # modname -> local -> qualified
        self.module_assigns: Dict[str, Dict[str, ast.expr]] = {}
        self._mro_cache: Dict[str, List[str]] = {}
        self._subclasses: Dict[str, List[str]] = {}
        self.renamed_anchors: Dict[str, str] = {}  # "<owner>.<pinned name>" -> the name found in the tree
        self._load()
        if canonicalise:
            self._canonicalise_renamed_anchors()
        self._index()

    # ---- loading
    def _load(self) -> None:
        pkgdir = os.path.join(self.root, self.package)
        if not os.path.isdir(pkgdir):
            raise AnalysisError(f"package directory not found: {pkgdir}")
        for dirpath, dirnames, filenames in os.walk(pkgdir):
            dirnames[:] = sorted(d for d in dirnames if d != "__pycache__")
            for fn in sorted(filenames):
                if not fn.endswith(".py"):
                    continue
                path = os.path.join(dirpath, fn)
                rel = os.path.relpath(path, self.root)
                parts = rel[:-3].split(os.sep)
                is_pkg = parts[-1] == "__init__"
                if is_pkg:
                    parts = parts[:-1]
                modname = ".".join(parts)
                with open(path, encoding="utf-8") as f:
                    src = f.read()
                try:
                    tree = ast.parse(src, filename=path)
                except SyntaxError as e:
                    raise AnalysisError(f"{rel} does not parse: {e}")
                tree = _SuppressAsTry().visit(tree)
                ast.fix_missing_locations(tree)
                self.units[modname] = Unit(modname, path, rel, src, tree, is_pkg)

    # ---- private functions that were renamed
    def _canonicalise_renamed_anchors(self) -> None:
        """The rules name the private functions they read.  Renaming a private helper is a harmless edit, and a common one: so, before the
        tables are built, a private function of the pinned tree (sa/anchors.json: owner, name, shape) that is MISSING from its owner is
        looked for among the owner's private functions that the table does not know; when exactly one of them has the pinned shape
        (Jaccard similarity of the feature bags >= 0.6, the runner-up at least 0.2 behind) the tree is alpha-renamed IN MEMORY -- the
        definition and every attribute / name that spells the new name get the pinned name back.  A consistent renaming changes
        nothing the rules decide; what was resolved is kept in `renamed_anchors` and written into the evidence."""
        path = os.path.join(os.path.dirname(os.path.abspath(__file__)), "anchors.json")
        if not os.path.exists(path):
            return
        with open(path) as fh:
            pinned = json.load(fh)
        # private classes first (the owners of the methods below are named by them)
        cback: Dict[str, str] = {}
        for modname, names in pinned.pop("<classes>", {}).items():
            u = self.units.get(modname)
            if u is None:
                continue
            have_c = {st.name: st for st in u.tree.body if isinstance(st, ast.ClassDef)}
            if all(n in have_c for n in names):
                continue
            unknown = {n: class_shape(d) for n, d in have_c.items() if n.startswith("_") and n not in names}
            for new, old in match_renamed({n: f for n, f in names.items() if n not in have_c}, unknown, 3).items():
                cback[new] = old
                self.renamed_anchors[f"{modname}.{old}"] = new
        if cback:
            for u in self.units.values():
                for x in ast.walk(u.tree):
                    if isinstance(x, ast.ClassDef) and x.name in cback:
                        x.name = cback[x.name]
                    elif isinstance(x, ast.Attribute) and x.attr in cback:
                        x.attr = cback[x.attr]
                    elif isinstance(x, ast.Name) and x.id in cback:
                        x.id = cback[x.id]
        # owner -> name -> FunctionDef
        defs: Dict[str, Dict[str, ast.AST]] = {}
        for u in self.units.values():
            for st in u.tree.body:
                if isinstance(st, (ast.FunctionDef, ast.AsyncFunctionDef)):
                    defs.setdefault(u.modname, {})[st.name] = st
                elif isinstance(st, ast.ClassDef):
                    for m in st.body:
                        if isinstance(m, (ast.FunctionDef, ast.AsyncFunctionDef)):
                            defs.setdefault(f"{u.modname}.{st.name}", {})[m.name] = m
        back: Dict[str, str] = {}  # new name -> pinned name
        for owner, names in pinned.items():
            have = defs.get(owner)
            if have is None:
                continue
            if all(n in have for n in names):
                continue
            unknown = {n: function_shape(d) for n, d in have.items() if is_pinnable(n) and n not in names}
            for new, old in match_renamed({n: f for n, f in names.items() if n not in have}, unknown, 4).items():
                if new in back and back[new] != old:
                    continue
                back[new] = old
                self.renamed_anchors[f"{owner}.{old}"] = new
        if not back:
            return
        for u in self.units.values():
            for x in ast.walk(u.tree):
                if isinstance(x, (ast.FunctionDef, ast.AsyncFunctionDef)) and x.name in back:
                    x.name = back[x.name]
                elif isinstance(x, ast.Attribute) and x.attr in back:
                    x.attr = back[x.attr]
                elif isinstance(x, ast.Name) and x.id in back:
                    x.id = back[x.id]

    # ---- indexing
    def _index(self) -> None:
        for u in self.units.values():
            self.imports[u.modname] = self._import_table(u)
            self.module_assigns[u.modname] = {}
            self._index_body(u, u.tree.body, u.modname, None, None)
        for c in self.classes.values():
            c.bases = [self.resolve(c.unit.modname, b) for b in c.base_exprs]
            for b in c.bases:
                if b in self.classes:
                    self._subclasses.setdefault(b, []).append(c.qualname)

    def _import_table(self, u: Unit) -> Dict[str, str]:
        table: Dict[str, str] = {}
        pkg = u.modname if u.is_pkg else u.modname.rpartition(".")[0]
        for node in ast.walk(u.tree):
            if isinstance(node, ast.Import):
                for a in node.names:
                    if a.asname:
                        table[a.asname] = a.name
                    else:
                        top = a.name.split(".")[0]
                        table[top] = top
            elif isinstance(node, ast.ImportFrom):
                base = node.module or ""
                if node.level:
                    p = pkg.split(".")
                    p = p[: len(p) - (node.level - 1)]
                    base = ".".join(p + ([node.module] if node.module else []))
                for a in node.names:
                    if a.name == "*":
                        continue
                    table[a.asname or a.name] = f"{base}.{a.name}"
        return table

    def _index_body(self, u, body, prefix, cls, parent_fn) -> None:
        for st in body:
            if isinstance(st, ast.ClassDef):
                q = f"{prefix}.{st.name}"
                ci = ClassInfo(q, st.name, st, u, list(st.bases))
                if q not in self.classes:
                    self.classes[q] = ci
                self._index_body(u, st.body, q, ci, None)
            elif isinstance(st, (ast.FunctionDef, ast.AsyncFunctionDef)):
                q = f"{prefix}.{st.name}"
                fi = FuncInfo(q, st.name, st, u, cls if parent_fn is None else None, parent_fn)
                # later definitions (e.g. property setter) do not override the first
                if q in self.functions:
                    q2 = f"{q}@{st.lineno}"
                    fi.qualname = q2
                    self.functions[q2] = fi
                else:
                    self.functions[q] = fi
                    if cls is not None and parent_fn is None:
                        cls.methods[st.name] = fi
                self._index_nested(u, st, fi)
            elif isinstance(st, (ast.Assign, ast.AnnAssign)):
                targets = st.targets if isinstance(st, ast.Assign) else [st.target]
                for t in targets:
                    if isinstance(t, ast.Name) and st.value is not None:
                        if cls is not None:
                            cls.class_attrs[t.id] = st.value
                        elif parent_fn is None:
                            self.module_assigns[u.modname][t.id] = st.value
            elif isinstance(st, (ast.If, ast.Try)):
                # conditional definitions at module/class level
                for sub in _suites(st):
                    self._index_body(u, sub, prefix, cls, parent_fn)

    def _index_nested(self, u, fn_node, fi) -> None:
        for st in ast.walk(fn_node):
            if st is fn_node:
                continue
            if isinstance(st, (ast.FunctionDef, ast.AsyncFunctionDef)):
                # only direct nesting level matters rarely; index all with parent link
                q = f"{fi.qualname}.<locals>.{st.name}"
                if q not in self.functions:
                    self.functions[q] = FuncInfo(q, st.name, st, u, None, fi)
            elif isinstance(st, ast.ClassDef):
                q = f"{fi.qualname}.<locals>.{st.name}"
                if q not in self.classes:
                    ci = ClassInfo(q, st.name, st, u, list(st.bases))
                    self.classes[q] = ci
                    for m in st.body:
                        if isinstance(m, (ast.FunctionDef, ast.AsyncFunctionDef)):
                            mq = f"{q}.{m.name}"
                            mi = FuncInfo(mq, m.name, m, u, ci, None)
                            self.functions.setdefault(mq, mi)
                            ci.methods[m.name] = mi

    # ---- resolution
    def resolve(self, modname: str, expr: ast.AST) -> Optional[str]:
        """Resolve a Name/Attribute chain used in module `modname` to a
        qualified name of a rope class/function/module (or an external dotted
        name such as 'ast.NodeVisitor')."""
        d = dotted(expr) if not isinstance(expr, str) else expr
        if d is None:
            return None
        return self.resolve_dotted(modname, d)

    def resolve_dotted(self, modname: str, d: str) -> Optional[str]:
        parts = d.split(".")
        head = parts[0]
        table = self.imports.get(modname, {})
        if f"{modname}.{head}" in self.classes or f"{modname}.{head}" in self.functions \
                or head in self.module_assigns.get(modname, {}):
            q = ".".join([modname] + parts)
        elif head in table:
            q = ".".join([table[head]] + parts[1:])
        else:
            return d  # builtin or unknown; return as written
        return self._canon(q)

    def _canon(self, q: str) -> str:
        """Follow re-exports: rope.base.ast.NodeVisitor -> ast.NodeVisitor etc."""
        seen = set()
        while q not in self.classes and q not in self.functions and q not in self.units and q not in seen:
            seen.add(q)
            mod, _, name = q.rpartition(".")
            if mod in self.units:
                t = self.imports.get(mod, {})
                if name in t and t[name] != q:
                    q = t[name]
                    continue
                # star import from stdlib ast
                if mod == "rope.base.ast":
                    import ast as _ast

                    if hasattr(_ast, name):
                        return f"ast.{name}"
                return q
            # maybe mod is itself symbol path (class attr); try resolving prefix
            if mod and "." in mod:
                cm = self._canon(mod)
                if cm != mod:
                    q = f"{cm}.{name}"
                    continue
            return q
        return q

    def mro(self, qual: str) -> List[str]:
        """Linearised MRO over statically resolved bases (C3, falling back to
        DFS order on inconsistency).  External bases appear by dotted name."""
        if qual in self._mro_cache:
            return self._mro_cache[qual]
        c = self.classes.get(qual)
        if c is None:
            return [qual]
        seqs = [self.mro(b) for b in c.bases if b] + [[b for b in c.bases if b]]
        res = [qual]
        seqs = [list(s) for s in seqs if s]
        while seqs:
            for s in seqs:
                cand = s[0]
                if not any(cand in t[1:] for t in seqs):
                    break
            else:
                cand = seqs[0][0]
            res.append(cand)
            seqs = [[x for x in s if x != cand] for s in seqs]
            seqs = [s for s in seqs if s]
        self._mro_cache[qual] = res
        return res

    def const_node(self, modname: str, expr: ast.AST, cls: Optional["ClassInfo"] = None, depth: int = 0) -> Optional[ast.Constant]:
        """The literal an expression stands for: the Constant itself, or -- for a Name bound once at module level, or a
        `self.X` / `cls.X` / `Class.X` bound in the class body -- the Constant it is bound to.  None otherwise.  Lets rules
        read a literal whether it is written in place or hoisted into a named constant."""
        if isinstance(expr, ast.Constant):
            return expr
        if depth > 3:
            return None
        if isinstance(expr, ast.Name):
            v = self.module_assigns.get(modname, {}).get(expr.id)
            return self.const_node(modname, v, cls, depth + 1) if v is not None else None
        if isinstance(expr, ast.Attribute) and isinstance(expr.value, ast.Name):
            owner = None
            if expr.value.id in ("self", "cls") and cls is not None:
                owner = cls
            else:
                q = self.resolve(modname, expr.value)
                owner = self.classes.get(q) if q else None
            seen = 0
            while owner is not None and seen < 6:
                if expr.attr in owner.class_attrs:
                    return self.const_node(owner.unit.modname, owner.class_attrs[expr.attr], owner, depth + 1)
                nxt = next((b for b in owner.bases if b and b in self.classes), None)
                owner = self.classes.get(nxt) if nxt else None
                seen += 1
        return None

    def literal_node(self, modname: str, expr: ast.AST, cls: Optional["ClassInfo"] = None, depth: int = 0) -> Optional[ast.AST]:
        """Like const_node, for tables: the literal list / tuple / set / dict (or constant) an expression stands for, written in
        place, wrapped in frozenset() / set() / tuple() / list(), or hoisted into a module- or class-level name."""
        if isinstance(expr, (ast.Constant, ast.List, ast.Tuple, ast.Set, ast.Dict)):
            return expr
        if depth > 4:
            return None
        if isinstance(expr, ast.Call) and isinstance(expr.func, ast.Name) and expr.func.id in ("frozenset", "set", "tuple", "list") and len(expr.args) == 1:
            return self.literal_node(modname, expr.args[0], cls, depth + 1)
        if isinstance(expr, ast.Name):
            v = self.module_assigns.get(modname, {}).get(expr.id)
            return self.literal_node(modname, v, cls, depth + 1) if v is not None else None
        if isinstance(expr, ast.Attribute) and isinstance(expr.value, ast.Name):
            owner = None
            if expr.value.id in ("self", "cls") and cls is not None:
                owner = cls
            else:
                q = self.resolve(modname, expr.value)
                owner = self.classes.get(q) if q else None
            seen = 0
            while owner is not None and seen < 6:
                if expr.attr in owner.class_attrs:
                    return self.literal_node(owner.unit.modname, owner.class_attrs[expr.attr], owner, depth + 1)
                nxt = next((b for b in owner.bases if b and b in self.classes), None)
                owner = self.classes.get(nxt) if nxt else None
                seen += 1
        return None

    def find_method(self, cls_qual: str, name: str) -> Optional[FuncInfo]:
        for q in self.mro(cls_qual):
            c = self.classes.get(q)
            if c and name in c.methods:
                return c.methods[name]
        return None

    def subclasses(self, qual: str, strict: bool = True) -> List[str]:
        out, todo = [], list(self._subclasses.get(qual, []))
        while todo:
            q = todo.pop()
            if q not in out:
                out.append(q)
                todo.extend(self._subclasses.get(q, []))
        if not strict:
            out.insert(0, qual)
        return sorted(out)

    def is_subclass(self, qual: str, base: str) -> bool:
        return base in self.mro(qual)

    # ---- anchors
    def need_unit(self, modname: str) -> Unit:
        u = self.units.get(modname)
        if u is None:
            raise AnalysisError(f"anchor=module:{modname} not found")
        return u

    def need_class(self, qual: str) -> ClassInfo:
        c = self.classes.get(qual)
        if c is None:
            raise AnalysisError(f"anchor=class:{qual} not found")
        return c

    def need_func(self, qual: str) -> FuncInfo:
        f = self.functions.get(qual)
        if f is None:
            # method through MRO
            cq, _, m = qual.rpartition(".")
            if cq in self.classes:
                f = self.find_method(cq, m)
        if f is None:
            # the function may have moved between class and module level (a method that uses no `self` turned into a
            # module-level helper, or back): accept the one function of the same module with the same bare name
            cq, _, m = qual.rpartition(".")
            modname = cq if cq in {u.modname for u in self.units.values()} else cq.rpartition(".")[0]
            same = [g for q, g in self.functions.items() if g.name == m and g.unit.modname == modname and g.parent is None]
            if len(same) == 1:
                f = same[0]
        if f is None:
            raise AnalysisError(f"anchor=function:{qual} not found")
        return f

    def find_class_by_name(self, name: str, under: str = "") -> List[ClassInfo]:
        return [c for q, c in sorted(self.classes.items()) if c.name == name and q.startswith(under)]

    def stats(self) -> dict:
        return {
            "root": self.root,
            "units": len(self.units),
            "classes": len(self.classes),
            "functions": len(self.functions),
        }


def _suites(st: ast.stmt) -> Iterator[List[ast.stmt]]:
    for f in ("body", "orelse", "finalbody"):
        v = getattr(st, f, None)
        if v:
            yield v
    for h in getattr(st, "handlers", []):
        yield h.body


# --------------------------------------------------------------------------
# small AST helpers shared by rules


def walk_local(fn: ast.AST) -> Iterator[ast.AST]:
    """Walk a function body without descending into nested defs/classes/lambdas."""
    todo = list(ast.iter_child_nodes(fn))
    while todo:
        n = todo.pop()
        yield n
        if isinstance(n, (ast.FunctionDef, ast.AsyncFunctionDef, ast.ClassDef, ast.Lambda)):
            continue
        todo.extend(ast.iter_child_nodes(n))


def calls_in(node: ast.AST, local: bool = True) -> List[ast.Call]:
    it = walk_local(node) if local else ast.walk(node)
    out = [n for n in it if isinstance(n, ast.Call)]
    out.sort(key=lambda c: (c.lineno, c.col_offset))
    return out


def call_name(call: ast.Call) -> str:
    """Last component of the callee: f(...) -> 'f', a.b.m(...) -> 'm'."""
    f = call.func
    if isinstance(f, ast.Attribute):
        return f.attr
    if isinstance(f, ast.Name):
        return f.id
    return ""


def is_self_attr(node: ast.AST, attr: Optional[str] = None, selfname: str = "self") -> bool:
    return (
        isinstance(node, ast.Attribute)
        and isinstance(node.value, ast.Name)
        and node.value.id == selfname
        and (attr is None or node.attr == attr)
    )


def norm(node: ast.AST) -> str:
    """Position-free dump used as a structural key."""
    return ast.dump(node, annotate_fields=False, include_attributes=False)


def const_str(node: ast.AST) -> Optional[str]:
    if isinstance(node, ast.Constant) and isinstance(node.value, str):
        return node.value
    return None


def first_param(fn: ast.AST, skip_self: bool = True) -> Optional[str]:
    args = fn.args.posonlyargs + fn.args.args
    if skip_self and args and args[0].arg in ("self", "cls"):
        args = args[1:]
    return args[0].arg if args else None


def param_names(fn: ast.AST) -> List[str]:
    a = fn.args
    out = [x.arg for x in a.posonlyargs + a.args]
    if a.vararg:
        out.append(a.vararg.arg)
    out += [x.arg for x in a.kwonlyargs]
    if a.kwarg:
        out.append(a.kwarg.arg)
    return out
