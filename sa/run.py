"""CLI: /venv/bin/python -m sa.run <property|all> [--tier quick|thorough] [--replay path]

Exit codes: 0 property held on everything analysed (KNOWN-FINDING lines allowed),
1 new violation (VIOLATION line printed), 2 ANALYSIS-ERROR.
"""
from __future__ import annotations

import argparse
import importlib
import json
import os
import sys
import time
import traceback

from . import report
from .core import AnalysisError, Index

PROPS = ["C01", "C02", "C03", "C04", "C05", "C06", "C07", "C08", "C09", "C10", "C11", "C12", "C13",
         "C14", "C15", "C16", "C17", "C18", "C19", "C20"]


class Ctx:
    def __init__(self, tier: str, seed: int, root=None):
        self.tier = tier
        self.seed = seed
        self.idx = Index(root)
        self._cache = {}

    def memo(self, key, fn):
        if key not in self._cache:
            self._cache[key] = fn()
        return self._cache[key]


def load_rules(prop: str):
    return importlib.import_module(f"sa.rules.{prop.lower()}")


def run_property(prop: str, tier: str, seed: int, ctx: Ctx = None, write: bool = True, quiet: bool = False) -> int:
    t0 = time.time()
    try:
        mod = load_rules(prop)
        ctx = ctx or Ctx(tier, seed)
        res = report.Results(prop)
        res.analysed.update(ctx.idx.stats())
        res.analysed["python"] = sys.version.split()[0]
        if ctx.idx.renamed_anchors:
            # private functions / classes of the pinned tree that were found under another name (sa/anchors.json) and read under the pinned one
            res.analysed["anchors_resolved_by_shape"] = dict(sorted(ctx.idx.renamed_anchors.items()))
            print("NOTE anchors resolved by shape: " + ", ".join(f"{k} <- {v}" for k, v in sorted(ctx.idx.renamed_anchors.items())))
        mod.check(ctx, res)
        extra = {}
        if tier == "thorough" and os.environ.get("VERIF_NO_SELFTEST") != "1":
            from . import selftest

            st = selftest.run(prop, seed)
            extra["selftest"] = st
            if st.get("failed"):
                for f in st["failed"][:10]:
                    print(f"SELFTEST-FAILURE {prop} {f}")
                raise AnalysisError(f"self-test of {prop} rules failed: {len(st['failed'])} variant(s)")
        code = report.finish(res, tier, seed, t0, mod.EXPLANATION, mod.ASSUMPTIONS, extra, write=write)
        if not quiet:
            per = report._per_rule(res.instances)
            print(f"{prop} tier={tier} units={len(ctx.idx.units)} functions={len(ctx.idx.functions)} "
                  f"instances={len(res.instances)} per_rule={json.dumps(per, sort_keys=True)} "
                  f"wall={time.time() - t0:.2f}s exit={code}")
        return code
    except AnalysisError as e:
        print(f"ANALYSIS-ERROR property={prop} {e}")
        return 2
    except Exception:
        traceback.print_exc()
        print(f"ANALYSIS-ERROR property={prop} internal error in checker")
        return 2


def replay(path: str) -> int:
    with open(path) as f:
        rec = json.load(f)
    prop = rec["property"]
    mod = load_rules(prop)
    ctx = Ctx("quick", 0)
    res = report.Results(prop)
    try:
        mod.check(ctx, res)
    except AnalysisError as e:
        print(f"ANALYSIS-ERROR property={prop} {e}")
        return 2
    for i in res.instances:
        if i.key == rec["key"]:
            print(json.dumps(i.to_json(), indent=1, default=str))
            return 1 if i.status == report.FAIL else 0
    print(f"instance {rec['key']} no longer exists on this tree")
    return 0


def main(argv=None) -> int:
    ap = argparse.ArgumentParser()
    ap.add_argument("prop", nargs="?")
    ap.add_argument("--tier", default=os.environ.get("VERIF_TIER", "quick"))
    ap.add_argument("--replay")
    ap.add_argument("--no-write", action="store_true")
    a = ap.parse_args(argv)
    seed = int(os.environ.get("VERIF_SEED", "0") or 0)
    if a.replay:
        return replay(a.replay)
    if a.tier not in ("quick", "thorough"):
        a.tier = "quick"
    if a.prop in (None, "all"):
        worst = 0
        ctx = Ctx(a.tier, seed)
        for p in PROPS:
            try:
                load_rules(p)
            except ModuleNotFoundError:
                continue
            worst = max(worst, run_property(p, a.tier, seed, ctx, write=not a.no_write))
        return worst
    return run_property(a.prop.upper(), a.tier, seed, write=not a.no_write)


if __name__ == "__main__":
    sys.stdout.reconfigure(line_buffering=True)
    sys.exit(main())
