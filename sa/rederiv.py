"""E3b -- exact language comparison of constant regex patterns WITH lookahead (Brzozowski derivatives).

sa/rca.py erases zero-width assertions, which is sound only in one direction.  String-literal patterns live on them
(`"(?!"")`: a quote inside a long string is one that does not start the closing `\"\"\"`), so this module decides inclusion
exactly for patterns with positive / negative LOOKAHEAD:

* the pattern (parsed by the interpreter's own re._parser) is compiled in continuation-passing form to terms
      0 | eps | c(S, k) | alt{..} | and{..} | not t | loop(e, k)
  where  (?!r) . k  =  and{ not compile(r, TOP), k }   and   (?=r) . k = and{ compile(r, TOP), k },
  e* . k = loop(e, k) = alt{ compile(e, loop(e, k)), k }  (unfolded lazily);
* derivatives and nullability are the textbook ones; alt/and are sets (associativity, commutativity, idempotence), so
  the set of derivatives is finite;
* L(A) <= L(B)  iff  no derivative of and{A, not B} is nullable; the search is breadth-first over one representative
  character per membership signature, so a failure comes with a shortest counter-example word.

Language membership only: which of several possible matches the backtracking engine would pick is not modelled.
`$` is modelled (end, or before a final newline); look-behind, other anchors, back-references raise Undecided (the caller may strip a leading look-behind explicitly)."""
from __future__ import annotations

from collections import deque
from typing import Dict, FrozenSet, List, Optional, Tuple

from .rca import UNIVERSE, Undecided, _category, sre_c, sre_parse

EMPTY = ("0",)
EPS = ("e",)
TOP = ("not", EMPTY)
MAXREPEAT = sre_c.MAXREPEAT


def _alt(xs) -> tuple:
    out = set()
    for x in xs:
        if x == EMPTY:
            continue
        if x == TOP:
            return TOP
        if x[0] == "alt":
            out |= x[1]
        else:
            out.add(x)
    if not out:
        return EMPTY
    if len(out) == 1:
        return next(iter(out))
    return ("alt", frozenset(out))


def _and(xs) -> tuple:
    out = set()
    for x in xs:
        if x == TOP:
            continue
        if x == EMPTY:
            return EMPTY
        if x[0] == "and":
            out |= x[1]
        else:
            out.add(x)
    if not out:
        return TOP
    if len(out) == 1:
        return next(iter(out))
    for x in out:
        if ("not", x) in out:
            return EMPTY
    return ("and", frozenset(out))


def _not(x) -> tuple:
    if x[0] == "not":
        return x[1]
    return ("not", x)


def _freeze(seq) -> tuple:
    """re._parser tree -> hashable nested tuples"""
    out = []
    for op, av in seq:
        name = str(op)
        if op is sre_c.LITERAL or op is sre_c.NOT_LITERAL:
            out.append((name, av))
        elif op is sre_c.ANY:
            out.append((name, None))
        elif op is sre_c.IN:
            out.append((name, tuple((str(o), (a if not isinstance(a, tuple) else tuple(a)) if o is not sre_c.CATEGORY else str(a)) for o, a in av)))
        elif op is sre_c.BRANCH:
            out.append((name, tuple(_freeze(b) for b in av[1])))
        elif op is sre_c.SUBPATTERN:
            out.append((name, _freeze(av[3])))
        elif op in (sre_c.MAX_REPEAT, sre_c.MIN_REPEAT) or name == "POSSESSIVE_REPEAT":
            out.append(("REPEAT", (av[0], av[1], _freeze(av[2]))))
        elif op in (sre_c.ASSERT, sre_c.ASSERT_NOT):
            if av[0] != 1:
                raise Undecided("look-behind assertion")
            out.append((name, _freeze(av[1])))
        elif name == "ATOMIC_GROUP":
            out.append(("SUBPATTERN", _freeze(av)))
        elif op is sre_c.AT and str(av) == "AT_END":
            out.append(("AT_END", None))
        else:
            raise Undecided(f"regex op {name} {av if op is sre_c.AT else ''}")
    return tuple(out)


class Engine:
    def __init__(self):
        self.dotall, self.ignorecase, self.ascii = False, False, False
        self.sigma: List[str] = list(UNIVERSE)
        self._set_cache: Dict[tuple, FrozenSet[str]] = {}
        self._dcache: Dict[Tuple[tuple, str], tuple] = {}
        self._ncache: Dict[tuple, bool] = {}

    # ---- character sets as frozensets over the representative universe
    def _chars(self, item) -> FrozenSet[str]:
        if item in self._set_cache:
            return self._set_cache[item]
        name, av = item
        fold = (lambda c: c.lower()) if self.ignorecase else (lambda c: c)
        if name == "LITERAL":
            s = frozenset(c for c in self.sigma if fold(c) == fold(chr(av)))
        elif name == "NOT_LITERAL":
            s = frozenset(c for c in self.sigma if fold(c) != fold(chr(av)))
        elif name == "ANY":
            s = frozenset(c for c in self.sigma if self.dotall or c != "\n")
        elif name == "IN":
            neg = False
            acc = set()
            for o, a in av:
                if o == "NEGATE":
                    neg = True
                elif o == "LITERAL":
                    acc |= {c for c in self.sigma if fold(c) == fold(chr(a))}
                elif o == "RANGE":
                    acc |= {c for c in self.sigma if a[0] <= ord(c) <= a[1] or (self.ignorecase and (a[0] <= ord(c.lower()) <= a[1] or a[0] <= ord(c.upper()[:1] or c) <= a[1]))}
                elif o == "CATEGORY":
                    class _C:  # _category wants an object whose str() is the category name
                        def __init__(self, n):
                            self.n = n

                        def __str__(self):
                            return self.n
                    p = _category(_C(a))
                    if self.ascii:
                        neg_cat = "_NOT_" in a
                        pos = _category(_C(a.replace("_NOT_", "_")))
                        acc |= {c for c in self.sigma if (pos(c) and c.isascii()) != neg_cat}
                    else:
                        acc |= {c for c in self.sigma if p(c)}
                else:
                    raise Undecided(f"set item {o}")
            s = frozenset(set(self.sigma) - acc) if neg else frozenset(acc)
        else:
            raise Undecided(name)
        self._set_cache[item] = s
        return s

    # ---- CPS compilation
    def compile(self, seq: tuple, k: tuple) -> tuple:
        if not seq:
            return k
        (name, av), rest = seq[0], seq[1:]
        kk = self.compile(rest, k) if rest else k
        if name == "SET":
            s = av
            return ("c", s, kk) if s and kk != EMPTY else EMPTY
        if name == "BRANCH":
            return _alt(self.compile(b, kk) for b in av)
        if name == "SUBPATTERN":
            return self.compile(av, kk)
        if name == "AT_END":
            # `$` without MULTILINE: the end of the text, or just before a final newline
            return _and([kk, _alt([EPS, ("c", av, EPS)])])
        if name == "ASSERT":
            return _and([self.compile(av, TOP), kk])
        if name == "ASSERT_NOT":
            return _and([_not(self.compile(av, TOP)), kk])
        if name == "REPEAT":
            lo, hi, body = av
            if hi is MAXREPEAT or hi == MAXREPEAT:
                t = ("loop", body, kk)
            else:
                t = kk
                for _ in range(hi - lo):
                    t = _alt([self.compile(body, t), kk])
            for _ in range(lo):
                t = self.compile(body, t)
            return t
        raise Undecided(name)

    def _resolve(self, seq: tuple) -> tuple:
        """character items -> ("SET", frozenset) under the current flags, so that terms do not depend on flags later"""
        out = []
        for name, av in seq:
            if name in ("LITERAL", "NOT_LITERAL", "ANY", "IN"):
                out.append(("SET", self._chars((name, av))))
            elif name == "BRANCH":
                out.append((name, tuple(self._resolve(b) for b in av)))
            elif name in ("SUBPATTERN", "ASSERT", "ASSERT_NOT"):
                out.append((name, self._resolve(av)))
            elif name == "REPEAT":
                out.append((name, (av[0], av[1], self._resolve(av[2]))))
            elif name == "AT_END":
                out.append((name, frozenset(c for c in self.sigma if c == "\n")))
            else:
                raise Undecided(name)
        return tuple(out)

    def parse(self, pattern: str, dotall: bool = False, ignorecase: bool = False, ascii: bool = False) -> tuple:
        self.dotall, self.ignorecase, self.ascii = dotall, ignorecase, ascii
        self._set_cache = {}
        return self._resolve(_freeze(sre_parse.parse(pattern, 0)))

    def term(self, pattern: str, dotall: bool = False, ignorecase: bool = False, ascii: bool = False, k: tuple = EPS) -> tuple:
        return self.compile(self.parse(pattern, dotall, ignorecase, ascii), k)

    # ---- semantics
    def _unfold(self, t: tuple) -> tuple:
        return _alt([self.compile(t[1], t), t[2]])

    def nullable(self, t: tuple, _stack=()) -> bool:
        if t in self._ncache:
            return self._ncache[t]
        k = t[0]
        if k == "0" or k == "c":
            r = False
        elif k == "e":
            r = True
        elif k == "alt":
            r = any(self.nullable(x, _stack) for x in t[1])
        elif k == "and":
            r = all(self.nullable(x, _stack) for x in t[1])
        elif k == "not":
            if _stack:
                # negation inside a loop that may iterate without consuming: least fixed point not defined
                inner = self.nullable(t[1], _stack)
                return not inner
            r = not self.nullable(t[1], _stack)
        elif k == "loop":
            if t in _stack:
                return False  # an iteration that consumed nothing adds nothing (least fixed point)
            r = self.nullable(t[2], _stack) or self.nullable(self.compile(t[1], t), _stack + (t,))
            if _stack:
                return r
        else:
            raise Undecided(k)
        self._ncache[t] = r
        return r

    def deriv(self, t: tuple, ch: str, _stack=()) -> tuple:
        key = (t, ch)
        if key in self._dcache:
            return self._dcache[key]
        k = t[0]
        if k in ("0", "e"):
            r = EMPTY
        elif k == "c":
            r = t[2] if ch in t[1] else EMPTY
        elif k == "alt":
            r = _alt(self.deriv(x, ch, _stack) for x in t[1])
        elif k == "and":
            r = _and([self.deriv(x, ch, _stack) for x in t[1]])
        elif k == "not":
            r = _not(self.deriv(t[1], ch, _stack))
        elif k == "loop":
            if t in _stack:
                return EMPTY  # re-entering the same loop without having consumed a character
            r = _alt([self.deriv(self.compile(t[1], t), ch, _stack + (t,)), self.deriv(t[2], ch, _stack)])
            if _stack:
                return r
        else:
            raise Undecided(k)
        self._dcache[key] = r
        return r

    def representatives(self, terms) -> List[str]:
        """one character per membership signature over every character set that occurs in the given terms (closed under
        the derivatives, which introduce no new sets)"""
        sets = set()
        seen = set()

        def walk(t):
            if t in seen:
                return
            seen.add(t)
            k = t[0]
            if k == "c":
                sets.add(t[1])
                walk(t[2])
            elif k in ("alt", "and"):
                for x in t[1]:
                    walk(x)
            elif k == "not":
                walk(t[1])
            elif k == "loop":
                walk(self._unfold(t))

        for t in terms:
            walk(t)
        reps: Dict[tuple, str] = {}
        order = sorted(sets, key=lambda s: sorted(s))
        for ch in sorted(self.sigma, key=lambda c: (not (c.isascii() and c.isalpha()), not c.isprintable(), c)):
            sig = tuple(ch in s for s in order)
            reps.setdefault(sig, ch)
        return sorted(reps.values())

    def accepts(self, t: tuple, word: str) -> bool:
        for ch in word:
            t = self.deriv(t, ch)
            if t == EMPTY:
                return False
        return self.nullable(t)

    def included(self, a: tuple, b: tuple, max_states: int = 50000) -> Tuple[bool, Optional[str], int]:
        """L(a) <= L(b)?  -> (ok, shortest counter-example, explored derivative states)"""
        start = _and([a, _not(b)])
        sigma = self.representatives([a, b])
        seen = {start}
        dq = deque([(start, "")])
        while dq:
            t, w = dq.popleft()
            if self.nullable(t):
                return False, w, len(seen)
            for ch in sigma:
                d = self.deriv(t, ch)
                if d == EMPTY or d in seen:
                    continue
                seen.add(d)
                if len(seen) > max_states:
                    raise Undecided("derivative state explosion")
                dq.append((d, w + ch))
        return True, None, len(seen)
