"""Setup smoke: the engines load, parse the working tree and build a CFG for every function."""
import sys, time
from .core import Index
from .cfg import CFG

def main():
    t = time.time()
    idx = Index()
    n = 0
    for f in idx.functions.values():
        CFG(f.node).dominators()
        n += 1
    print(f"setup-smoke ok: units={len(idx.units)} classes={len(idx.classes)} functions={n} cfgs={n} {time.time()-t:.2f}s")

if __name__ == "__main__":
    main()
