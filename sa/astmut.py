"""AST-computed single edits used by the thorough-tier self-test (sa/mutations.py).

Each spec names the module, an edit (a function that mutates the parsed module in place and returns True if it
applied), and the rule(s) that must report a NEW violation on the edited scratch copy.  The edits are computed on the
current working tree's AST (located by class / function / construct, never by line number); the edited module is
written back with ast.unparse (the checkers only look at ASTs).  An edit that no longer applies is reported as
'skipped', not as a failure; an edited module that does not compile is a failure of the spec.
"""
from __future__ import annotations

import ast
from typing import Callable, Dict, List, Optional, Tuple


# ------------------------------------------------------------------ locating helpers
def find_class(tree: ast.Module, name: str) -> Optional[ast.ClassDef]:
    for n in ast.walk(tree):
        if isinstance(n, ast.ClassDef) and n.name == name:
            return n
    return None


def find_func(tree: ast.Module, path: str):
    """'Class.method' or 'function'"""
    parts = path.split(".")
    scope: ast.AST = tree
    for p in parts[:-1]:
        scope = find_class(scope, p)
        if scope is None:
            return None
    for n in ast.walk(scope):
        if isinstance(n, (ast.FunctionDef, ast.AsyncFunctionDef)) and n.name == parts[-1]:
            return n
    return None


def _parents(root):
    par = {}
    for n in ast.walk(root):
        for c in ast.iter_child_nodes(n):
            par[id(c)] = n
    return par


def _remove_stmt(root, stmt) -> bool:
    for n in ast.walk(root):
        for f in ("body", "orelse", "finalbody"):
            b = getattr(n, f, None)
            if isinstance(b, list) and any(x is stmt for x in b):
                b[:] = [x for x in b if x is not stmt] or [ast.Pass()]
                return True
    return False


# ------------------------------------------------------------------ edit constructors
def delete_method(cls: str, method: str):
    def edit(tree):
        c = find_class(tree, cls)
        if c is None:
            return False
        before = len(c.body)
        c.body[:] = [x for x in c.body if not (isinstance(x, (ast.FunctionDef, ast.AsyncFunctionDef)) and x.name == method)] or [ast.Pass()]
        return len(c.body) != before or False
    return edit


def empty_method(cls: str, method: str):
    def edit(tree):
        f = find_func(tree, f"{cls}.{method}")
        if f is None:
            return False
        f.body[:] = [ast.Pass()]
        return True
    return edit


def remove_stmt_where(func: str, pred: Callable[[ast.stmt], bool], nth: int = 0):
    def edit(tree):
        f = find_func(tree, func)
        if f is None:
            return False
        hits = [s for s in ast.walk(f) if isinstance(s, ast.stmt) and s is not f and pred(s)]
        if len(hits) <= nth:
            return False
        return _remove_stmt(f, hits[nth])
    return edit


def replace_expr_where(func: str, pred: Callable[[ast.AST], bool], make: Callable[[ast.AST], ast.AST], nth: int = 0):
    def edit(tree):
        f = find_func(tree, func) if func else tree
        if f is None:
            return False
        par = _parents(f)
        hits = [n for n in ast.walk(f) if pred(n)]
        if len(hits) <= nth:
            return False
        target = hits[nth]
        new = make(target)
        p = par.get(id(target))
        if p is None:
            return False
        for fld, val in ast.iter_fields(p):
            if val is target:
                setattr(p, fld, new)
                return True
            if isinstance(val, list):
                for i, x in enumerate(val):
                    if x is target:
                        val[i] = new
                        return True
        return False
    return edit


def src_contains(text: str):
    return lambda n: text in ast.unparse(n)


def is_call_named(name: str):
    return lambda n: isinstance(n, ast.Call) and (getattr(n.func, "attr", None) == name or getattr(n.func, "id", None) == name)


def unwrap_call(n: ast.Call) -> ast.AST:
    return n.args[0]


def const(v):
    return lambda n: ast.Constant(value=v)


def _drop_elif_read(tree):
    """ChangeContents.do: `if old is None: ... elif <r>.newlines is None and <r>.exists(): read` -> the elif branch removed"""
    f = find_func(tree, "ChangeContents.do")
    if f is None:
        return False
    for st in ast.walk(f):
        if isinstance(st, ast.If) and st.orelse and len(st.orelse) == 1 and isinstance(st.orelse[0], ast.If) and "newlines is None" in ast.unparse(st.orelse[0].test):
            st.orelse = []
            return True
    return False


def stmt_is(text: str):
    return lambda s: ast.unparse(s).strip().startswith(text)


def seq(*edits):
    def edit(tree):
        ok = True
        for e in edits:
            ok = e(tree) and ok
        return ok
    return edit


# ------------------------------------------------------------------ the specs
# (property, name, module path relative to the repo, edit, expected rules)
Spec = Tuple[str, str, str, Callable, List[str]]

SPECS: List[Spec] = [
    # C01
    ("C01", "class-scope-propagates", "rope/base/pyscopes.py",
     replace_expr_where("ClassScope.get_propagated_names", lambda n: isinstance(n, ast.Dict),
                        lambda n: ast.parse("self.get_names()", mode="eval").body), ["R01.1"]),
    ("C01", "is_local-any-kind", "rope/refactor/rename.py",
     replace_expr_where("_is_local", lambda n: isinstance(n, ast.Compare) and "get_kind" in ast.unparse(n) and isinstance(n.ops[0], ast.Eq),
                        const(True)), ["R01.3"]),
    ("C01", "global-handler-deleted", "rope/base/pyobjectsdef.py", delete_method("_ScopeVisitor", "_Global"), ["R01.2"]),
    ("C01", "edits-not-sorted", "rope/base/codeanalyze.py",
     remove_stmt_where("ChangeCollector.get_changed", lambda s: isinstance(s, ast.Expr) and ".sort(" in ast.unparse(s)), ["R01.5"]),
    ("C01", "tail-dropped", "rope/base/codeanalyze.py",
     remove_stmt_where("ChangeCollector.get_changed", lambda s: isinstance(s, ast.If) and "last_changed < len" in ast.unparse(s.test)), ["R01.5"]),
    ("C01", "py-suffix-for-packages-too", "rope/refactor/rename.py",
     replace_expr_where("Rename._rename_module", lambda n: isinstance(n, ast.UnaryOp) and "is_folder" in ast.unparse(n), const(True)), ["R01.6"]),
    ("C01", "call-keyword-falls-through", "rope/base/evaluate.py",
     remove_stmt_where("ScopeNameFinder.get_primary_and_pyname_at", lambda s: isinstance(s, ast.Return) and ast.unparse(s) == "return (None, None)"), ["R01.4"]),
    # C02
    ("C02", "same_pyname-one-sided", "rope/refactor/occurrences.py",
     replace_expr_where("same_pyname", lambda n: isinstance(n, ast.BoolOp) and isinstance(n.op, ast.Or) and "is None" in ast.unparse(n),
                        lambda n: n.values[0]), ["R02.1"]),
    ("C02", "yield-for-comment-group", "rope/refactor/occurrences.py",
     replace_expr_where("_TextualFinder._re_search", lambda n: isinstance(n, ast.Constant) and n.value == "occurrence", const("comment")), ["R02.2"]),
    ("C02", "pynamefilter-always-true", "rope/refactor/occurrences.py",
     replace_expr_where("PyNameFilter.__call__", is_call_named("same_pyname"), const(True)), ["R02.3"]),
    # C03
    ("C03", "while-not-conditional", "rope/refactor/extract.py", delete_method("_FunctionInformationCollector", "_While"), ["R03.2", "R03.3"]),
    ("C03", "yield-not-counted", "rope/refactor/usefunction.py", delete_method("_ReturnOrYieldFinder", "_Yield"), ["R03.4"]),
    ("C03", "with-suite-missing", "rope/refactor/suites.py", delete_method("_SuiteWalker", "_With"), ["R03.6"]),
    ("C03", "classdef-name-not-written", "rope/refactor/extract.py", empty_method("_FunctionInformationCollector", "_ClassDef"), ["R03.1"]),
    # C04
    ("C04", "header-aliases-shared-dict", "rope/refactor/inline.py",
     replace_expr_where("_DefinitionGenerator._calculate_header", lambda n: isinstance(n, ast.Call) and ast.unparse(n) == "dict(self.definition_params)",
                        unwrap_call), ["R04.1"]),
    ("C04", "operator-table-open", "rope/base/worder.py",
     replace_expr_where("_RealFinder.get_assignment_type", lambda n: isinstance(n, ast.Compare) and isinstance(n.ops[0], ast.In) and "_ASSIGNMENT" in ast.unparse(n),
                        lambda n: ast.parse("op.endswith('=')", mode="eval").body), ["R04.2"]),
    # C06
    ("C06", "vararg-before-defaults", "rope/refactor/functionutils.py",
     replace_expr_where("_FunctionDefParser.get_parameters", lambda n: isinstance(n, ast.ListComp) and "self.ast.args.args" in ast.unparse(n),
                        lambda n: ast.parse("[arg.arg for arg in self.ast.args.args] + ['*' + self.ast.args.vararg.arg]", mode="eval").body), ["R06.1"]),
    ("C06", "kw-assert-back", "rope/refactor/functionutils.py",
     replace_expr_where("_FunctionCallParser.get_parameters", lambda n: isinstance(n, ast.If) and "kw.arg is None" in ast.unparse(n.test),
                        lambda n: ast.parse("assert kw.arg").body[0]), ["R06.2"]),
    # C07
    ("C07", "future-filtered", "rope/refactor/importutils/actions.py",
     remove_stmt_where("FilteringVisitor.visitFromImport", lambda s: isinstance(s, ast.If) and "_is_future" in ast.unparse(s.test)), ["R07.2"]),
    ("C07", "all-not-protected", "rope/refactor/importutils/module_imports.py",
     replace_expr_where("ModuleImports.remove_unused_imports", lambda n: isinstance(n, ast.Set), lambda n: ast.parse("set()", mode="eval").body), ["R07.3"]),
    ("C07", "child-scope-gets-everything", "rope/refactor/importutils/module_imports.py",
     seq(remove_stmt_where("_UnboundNameFinder._visit_child_scope", lambda s: isinstance(s, ast.For) and "not in node.body" in ast.unparse(s)),
         replace_expr_where("_UnboundNameFinder._visit_child_scope", lambda n: isinstance(n, ast.Attribute) and ast.unparse(n) == "node.body" and isinstance(n.ctx, ast.Load),
                            lambda n: ast.parse("list(ast.iter_child_nodes(node))", mode="eval").body)), ["R07.1"]),
    ("C07", "visit-from-import-missing", "rope/refactor/importutils/actions.py", delete_method("ImportInfoVisitor", "visitFromImport"), ["R07.4"]),
    # C08
    ("C08", "handler-deleted-Starred", "rope/refactor/patchedast.py", delete_method("_PatchingASTWalker", "_Starred"), ["R08.1"]),
    ("C08", "assert-msg-dropped", "rope/refactor/patchedast.py",
     remove_stmt_where("_PatchingASTWalker._Assert", lambda s: isinstance(s, ast.If)), ["R08.2"]),
    ("C08", "operator-table-entry-removed", "rope/refactor/patchedast.py",
     replace_expr_where("", lambda n: isinstance(n, ast.Dict) and any(isinstance(k, ast.Constant) and k.value == "MatMult" for k in n.keys),
                        lambda n: ast.Dict(keys=[k for k in n.keys if k.value != "MatMult"], values=[v for k, v in zip(n.keys, n.values) if k.value != "MatMult"])), ["R08.3"]),
    ("C08", "number-pattern-no-exponent", "rope/refactor/patchedast.py",
     replace_expr_where("_Source._get_number_pattern", lambda n: isinstance(n, ast.Constant) and isinstance(n.value, str) and "[eE]" in n.value,
                        lambda n: ast.Constant(value=n.value.replace("([eE][-+]?\\d[\\d_]*)?", ""))), ["R08.4"]),
    # C09
    ("C09", "refactoring-performs", "rope/refactor/topackage.py",
     replace_expr_where("ModuleToPackage.get_changes", lambda n: isinstance(n, ast.Return), lambda n: ast.parse("self.project.do(changes)").body[0]), ["R09.1"]),
    ("C09", "os-remove-in-refactoring", "rope/refactor/topackage.py",
     replace_expr_where("ModuleToPackage.get_changes", lambda n: isinstance(n, ast.Return),
                        lambda n: ast.parse("__import__('os'); os.remove(self.resource.real_path)").body[1]), ["R09.2", "R09.1"]),
    ("C09", "announce-less-than-effect", "rope/base/change.py",
     replace_expr_where("MoveResource.get_changed_resources", lambda n: isinstance(n, ast.List), lambda n: ast.List(elts=n.elts[:1], ctx=ast.Load())), ["R09.3"]),
    ("C09", "plain-exception-refusal", "rope/refactor/rename.py",
     replace_expr_where("Rename.validate_changes", lambda n: isinstance(n, ast.Attribute) and n.attr == "RefactoringError",
                        lambda n: ast.Name(id="ValueError", ctx=ast.Load())), ["R09.6"]),
    # C10
    ("C10", "rollback-forward", "rope/base/change.py",
     replace_expr_where("ChangeSet.do", lambda n: isinstance(n, ast.Call) and ast.unparse(n) == "reversed(done)", unwrap_call), ["R10.1"]),
    ("C10", "rollback-swallows", "rope/base/change.py",
     remove_stmt_where("ChangeSet.do", lambda s: isinstance(s, ast.Raise)), ["R10.2"]),
    ("C10", "append-before-do", "rope/base/change.py",
     seq(remove_stmt_where("ChangeSet.do", stmt_is("done.append")),
         replace_expr_where("ChangeSet.do", lambda n: isinstance(n, ast.Expr) and ast.unparse(n) == "change.do(job_set)",
                            lambda n: ast.parse("done.append(change) or change.do(job_set)").body[0])), ["R10.3"]),
    ("C10", "current-change-not-reset", "rope/base/history.py",
     replace_expr_where("History.do", lambda n: isinstance(n, ast.Try), lambda n: ast.If(test=ast.Constant(value=True), body=n.body, orelse=[])), ["R10.6"]),
    # C11
    ("C11", "move-undo-not-swapped", "rope/base/change.py",
     replace_expr_where("MoveResource.undo", lambda n: isinstance(n, ast.Call) and getattr(n.func, "attr", "") == "move",
                        lambda n: ast.Call(func=n.func, args=list(reversed(n.args)), keywords=[])), ["R11.1"]),
    ("C11", "composite-undo-forward", "rope/base/change.py",
     replace_expr_where("ChangeSet.undo", lambda n: isinstance(n, ast.Call) and ast.unparse(n) == "reversed(self.changes)", unwrap_call), ["R11.2"]),
    ("C11", "redo-not-cleared", "rope/base/history.py",
     remove_stmt_where("History.do", lambda s: isinstance(s, ast.Delete)), ["R11.3"]),
    ("C11", "undo-guard-removed", "rope/base/history.py",
     remove_stmt_where("History.undo", lambda s: isinstance(s, ast.If) and "_undo_list" in ast.unparse(s.test)), ["R11.3"]),
    ("C11", "one-sided-containment", "rope/base/history.py",
     replace_expr_where("_FindChangeDependencies._overlap", lambda n: isinstance(n, ast.BoolOp) and isinstance(n.op, ast.Or) and len(n.values) == 2
                        and all("startswith" in ast.unparse(v) for v in n.values), lambda n: n.values[0]), ["R11.4"]),
    # C12
    ("C12", "contents-fields-swapped", "rope/base/change.py",
     replace_expr_where("ChangeToData.convertChangeContents", lambda n: isinstance(n, ast.Tuple),
                        lambda n: ast.Tuple(elts=[n.elts[0], n.elts[2], n.elts[1]], ctx=ast.Load())), ["R12.1"]),
    ("C12", "tuple-tag-renamed", "rope/base/serializer.py",
     replace_expr_where("_py2js", lambda n: isinstance(n, ast.Constant) and n.value == "t", const("tu")), ["R12.2"]),
    ("C12", "decoder-uses-isnumeric", "rope/base/serializer.py",
     replace_expr_where("_js2py", lambda n: isinstance(n, ast.Attribute) and n.attr == "isdigit", lambda n: ast.Attribute(value=n.value, attr="isnumeric", ctx=ast.Load())), ["R12.3"]),
    ("C12", "state-tag-mismatch", "rope/base/oi/memorydb.py",
     replace_expr_where("ScopeInfo.__setstate__", lambda n: isinstance(n, ast.Constant) and n.value == "ScopeInfo", const("Scope")), ["R12.4"]),
    ("C12", "history-written-under-other-name", "rope/base/history.py",
     replace_expr_where("History.write", lambda n: isinstance(n, ast.Constant) and n.value == "history", const("histories")), ["R12.5"]),
    ("C12", "undo-redo-swapped-on-load", "rope/base/history.py",
     replace_expr_where("History._load_history", lambda n: isinstance(n, ast.Subscript) and ast.unparse(n) == "result[0]",
                        lambda n: ast.parse("result[1]", mode="eval").body), ["R12.7"]),
    # C13
    ("C13", "write-without-notify", "rope/base/change.py",
     remove_stmt_where("_ResourceOperations.write_file", lambda s: isinstance(s, ast.For)), ["R13.1"]),
    ("C13", "module-cache-ignores-moves", "rope/base/pycore.py",
     replace_expr_where("PyCore._init_resource_observer", lambda n: isinstance(n, ast.keyword) and n.arg == "moved",
                        lambda n: ast.keyword(arg="moved", value=ast.Constant(value=None))), ["R13.2"]),
    ("C13", "invalidate-keeps-map-entry", "rope/base/pycore.py",
     remove_stmt_where("_ModuleCache._invalidate_resource", lambda s: isinstance(s, ast.Delete)), ["R13.3"]),
    ("C13", "indicator-not-refreshed", "rope/base/resourceobserver.py",
     remove_stmt_where("FilteredResourceObserver._perform_changes", lambda s: isinstance(s, ast.Assign) and "get_indicator" in ast.unparse(s)), ["R13.4"]),
    # C14
    ("C14", "comment-blank-off-by-one", "rope/base/simplify.py",
     replace_expr_where("real_code", lambda n: isinstance(n, ast.BinOp) and ast.unparse(n) == "' ' * (end - start)",
                        lambda n: ast.parse("' ' * (end - start - 1)", mode="eval").body), ["R14.1"]),
    ("C14", "tab-to-four-spaces", "rope/base/simplify.py",
     replace_expr_where("real_code", lambda n: isinstance(n, ast.Constant) and n.value == " " and False, const("    ")), ["R14.1"]),
    ("C14", "any-string-prefix-too-short", "rope/base/codeanalyze.py",
     replace_expr_where("get_any_string_pattern", lambda n: isinstance(n, ast.Constant) and isinstance(n.value, str) and "{1,4}" in n.value,
                        lambda n: ast.Constant(value=n.value.replace("{1,4}", ""))), ["R14.2"]),
    ("C14", "comment-stops-at-quote", "rope/base/codeanalyze.py",
     replace_expr_where("get_comment_pattern", lambda n: isinstance(n, ast.Constant) and isinstance(n.value, str) and n.value.startswith("#"),
                        lambda n: ast.Constant(value="#[^\\n\"]*")), ["R14.3"]),
    ("C14", "analyze_line-ignores-braces", "rope/base/codeanalyze.py",
     replace_expr_where("_CustomGenerator._analyze_line", lambda n: isinstance(n, ast.Constant) and n.value == "([{", const("([")), ["R14.4"]),
    # C15
    ("C15", "import-handler-deleted", "rope/base/pyobjectsdef.py", delete_method("_ScopeVisitor", "_Import"), ["R15.1"]),
    ("C15", "kwarg-not-a-name", "rope/base/pyobjectsdef.py",
     remove_stmt_where("PyFunction.get_param_names", lambda s: isinstance(s, ast.If) and "kwarg" in ast.unparse(s.test)), ["R15.2"]),
    ("C15", "for-iter-not-visited", "rope/base/pyobjectsdef.py",
     remove_stmt_where("_ScopeVisitor._For", stmt_is("self.visit(node.iter)")), ["R15.4"]),
    ("C15", "listcomp-no-scope", "rope/base/pyobjectsdef.py", delete_method("_ExpressionVisitor", "_ListComp"), ["R15.4", "R15.5"]),
    # C16
    ("C16", "decoder-defaults-latin1", "rope/base/fscommands.py",
     replace_expr_where("_decode_data", lambda n: isinstance(n, ast.Constant) and n.value == "utf-8", const("latin1")), ["R16.1"]),
    ("C16", "newlines-not-stored", "rope/base/resources.py",
     replace_expr_where("File.read", lambda n: isinstance(n, ast.Attribute) and ast.unparse(n) == "self.newlines",
                        lambda n: ast.Name(id="_newlines", ctx=ast.Store())), ["R16.2"]),
    ("C16", "newlines-not-passed", "rope/base/change.py",
     replace_expr_where("_ResourceOperations.write_file", lambda n: isinstance(n, ast.keyword) and n.arg == "newlines",
                        lambda n: ast.keyword(arg="newlines", value=ast.Constant(value=None))), ["R16.2"]),
    ("C16", "cr-before-crlf", "rope/base/ast.py",
     replace_expr_where("parse", lambda n: isinstance(n, ast.Call) and ast.unparse(n).endswith("replace(b'\\r', b'\\n')"),
                        lambda n: ast.parse("source.replace(b'\\r', b'\\n').replace(b'\\r\\n', b'\\n')", mode="eval").body), ["R16.4"]),
    # (since fix 472388c both ChangeContents.do and write_file detect the convention of a file that was never read: removing ONE of the two
    # layers is harmless -- the seeds C12-f and C16-g, which did that, were retired -- so the mutant removes both)
    ("C16", "neither-layer-detects-the-convention", "rope/base/change.py",
     seq(remove_stmt_where("_ResourceOperations.write_file", lambda s: isinstance(s, ast.If) and "resource.newlines is None" in ast.unparse(s.test)),
         _drop_elif_read), ["R16.3"]),
    # C17
    ("C17", "tuple-refusal-after-emission", "rope/refactor/encapsulate_field.py",
     remove_stmt_where("_FindChangesForModule.get_changed_module", lambda s: isinstance(s, ast.If) and "tuple_assignment" in ast.unparse(s.test)), ["R17.2"]),
    ("C17", "factory-rewrites-all-occurrences", "rope/refactor/introduce_factory.py",
     replace_expr_where("IntroduceFactory._rename_occurrences", lambda n: isinstance(n, ast.keyword) and n.arg == "only_calls",
                        lambda n: ast.keyword(arg="only_calls", value=ast.Constant(value=False))), ["R17.3"]),
    ("C17", "generators-accepted", "rope/refactor/usefunction.py",
     remove_stmt_where("UseFunction._check_returns", lambda s: isinstance(s, ast.If) and "_yield_count" in ast.unparse(s.test)), ["R17.4"]),
    # C18
    ("C18", "only-eoferror", "rope/base/project.py",
     replace_expr_where("_DataFiles.read_data", lambda n: isinstance(n, ast.Tuple) and "EOFError" in ast.unparse(n),
                        lambda n: ast.Name(id="EOFError", ctx=ast.Load())), ["R18.1"]),
    ("C18", "history-indexes-none", "rope/base/history.py",
     replace_expr_where("History._load_history", lambda n: isinstance(n, ast.Compare) and "result is not None" in ast.unparse(n), const(True)), ["R18.2"]),
    # C19
    ("C19", "no-upper-bound", "rope/refactor/similarfinder.py",
     replace_expr_where("RawSimilarFinder.get_matches", lambda n: isinstance(n, ast.Compare) and ast.unparse(n) == "match_end <= end", const(True)), ["R19.1"]),
    ("C19", "rebinding-always-true", "rope/refactor/similarfinder.py",
     replace_expr_where("_ASTMatcher._match_wildcard", lambda n: isinstance(n, ast.Return) and "_match_nodes" in ast.unparse(n),
                        lambda n: ast.Return(value=ast.Constant(value=True))), ["R19.2"]),
    ("C19", "list-length-unchecked", "rope/refactor/similarfinder.py",
     replace_expr_where("_ASTMatcher._match_nodes", lambda n: isinstance(n, ast.BoolOp) and "len(child1) != len(child2)" in ast.unparse(n),
                        lambda n: n.values[0]), ["R19.3"]),
    ("C19", "overlap-not-skipped", "rope/refactor/restructure.py",
     remove_stmt_where("_ChangeComputer.get_changed", lambda s: isinstance(s, ast.If) and "last_end" in ast.unparse(s.test)), ["R19.4"]),
    # C20
    ("C20", "keywords-unfiltered", "rope/contrib/codeassist.py",
     replace_expr_where("_PythonCodeAssist._matching_keywords", lambda n: isinstance(n, ast.ListComp),
                        lambda n: ast.ListComp(elt=n.elt, generators=[ast.comprehension(target=n.generators[0].target, iter=n.generators[0].iter, ifs=[], is_async=0)])), ["R20.1"]),
    ("C20", "dotted-unfiltered", "rope/contrib/codeassist.py",
     replace_expr_where("_PythonCodeAssist._dotted_completions", lambda n: isinstance(n, ast.Call) and getattr(n.func, "attr", "") == "startswith", const(True)), ["R20.1"]),
    ("C20", "enclosing-scopes-all-names", "rope/contrib/codeassist.py",
     replace_expr_where("_PythonCodeAssist._undotted_completions", lambda n: isinstance(n, ast.Call) and getattr(n.func, "attr", "") == "get_propagated_names",
                        lambda n: ast.parse("scope.get_names()", mode="eval").body), ["R20.2"]),
]

# ---- round 3: variants for the rules added after the third seeding round
SPECS += [
    ("C10", "handler-narrowed-to-oserror", "rope/base/change.py",
     replace_expr_where("ChangeSet.undo", lambda n: isinstance(n, ast.ExceptHandler),
                        lambda n: ast.ExceptHandler(type=ast.Name(id="OSError", ctx=ast.Load()), name=n.name, body=n.body)), ["R10.8"]),
    ("C07", "rebuilt-from-import-loses-level", "rope/refactor/importutils/actions.py",
     replace_expr_where("FilteringVisitor.visitFromImport", lambda n: isinstance(n, ast.Attribute) and n.attr == "level", const(0)), ["R07.7"]),
    ("C09", "file-list-bulk-add-unfiltered", "rope/base/project.py",
     replace_expr_where("_FileListCacher._add_files", lambda n: isinstance(n, ast.UnaryOp) and "is_ignored" in ast.unparse(n), const(True)), ["R09.7"]),
    ("C13", "file-list-bulk-add-unfiltered", "rope/base/project.py",
     replace_expr_where("_FileListCacher._add_files", lambda n: isinstance(n, ast.UnaryOp) and "is_ignored" in ast.unparse(n), const(True)), ["R13.7"]),
    ("C03", "returns-from-written-only", "rope/refactor/extract.py",
     replace_expr_where("_ExtractMethodParts._find_function_returns",
                        lambda n: isinstance(n, ast.BinOp) and isinstance(n.op, ast.BitOr) and "maybe_written" in ast.unparse(n),
                        lambda n: n.left, nth=1), ["R03.9"]),
    ("C11", "tobe-undone-caches", "rope/base/history.py",
     replace_expr_where("History.compress", lambda n: isinstance(n, ast.Return),
                        lambda n: ast.parse("self._compress = %s" % ast.unparse(n.value)).body[0]), ["R11.6"]),
    ("C06", "introduced-parameter-first", "rope/refactor/introduce_parameter.py",
     replace_expr_where("IntroduceParameter.get_changes", lambda n: isinstance(n, ast.Call) and getattr(n.func, "attr", "") == "append"
                        and "args_with_defaults" in ast.unparse(n.func),
                        lambda n: ast.Call(func=ast.Attribute(value=n.func.value, attr="insert", ctx=ast.Load()),
                                           args=[ast.Constant(value=0)] + n.args, keywords=[])), ["R06.5"]),
    ("C18", "dump-repeated", "rope/base/project.py",
     replace_expr_where("_DataFiles.write_data", lambda n: isinstance(n, ast.Expr) and ast.unparse(n).startswith("pickle.dump"),
                        lambda n: ast.For(target=ast.Name(id="_i", ctx=ast.Store()), iter=ast.parse("range(2)").body[0].value, body=[n], orelse=[])), ["R18.5"]),
    ("C12", "writer-uses-type", "rope/base/change.py",
     replace_expr_where("ChangeToData.convertRemoveResource", lambda n: isinstance(n, ast.Call) and getattr(n.func, "attr", "") == "is_folder",
                        lambda n: ast.parse("type(change).__name__ == 'RemoveFolder'").body[0].value), ["R12.9"]),
    ("C19", "wildcard-accepts-anything", "rope/refactor/wildcards.py",
     replace_expr_where("DefaultWildcard._check_exact", lambda n: isinstance(n, ast.Call) and ast.unparse(n) == "isinstance(node, ast.expr)", const(True)), ["R19.5"]),
    ("C14", "continuation-ignores-comment", "rope/base/codeanalyze.py",
     replace_expr_where("_CustomGenerator._analyze_line", lambda n: isinstance(n, ast.Compare) and isinstance(n.ops[0], ast.NotEq)
                        and ast.unparse(n.comparators[0]) == "'#'", const(True)), ["R14.7"]),
    ("C08", "next-statement-outermost-first", "rope/refactor/patchedast.py",
     replace_expr_where("_PatchingASTWalker._find_next_statement_start", lambda n: isinstance(n, ast.Call) and getattr(n.func, "id", "") == "reversed", unwrap_call), ["R08.6"]),
    ("C17", "global-factory-unguarded", "rope/refactor/introduce_factory.py",
     remove_stmt_where("IntroduceFactory._get_factory_method", lambda s: isinstance(s, ast.If) and "_get_scope_indents" in ast.unparse(s.test)), ["R17.6"]),
]


# ---- C05 (claimed in build session 2)
def _move_stmt_to_front(func: str, pred, after_pred):
    """move the first statement of func's body matching pred to just after the first one matching after_pred"""
    def edit(tree):
        f = find_func(tree, func)
        if f is None:
            return False
        hit = [s_ for s_ in f.body if pred(s_)]
        anchor = [s_ for s_ in f.body if after_pred(s_)]
        if not hit or not anchor:
            return False
        f.body.remove(hit[0])
        f.body.insert(f.body.index(anchor[0]) + 1, hit[0])
        return True
    return edit


def _insert_in_loop(func: str, text: str):
    def edit(tree):
        f = find_func(tree, func)
        loops = [x for x in ast.walk(f) if isinstance(x, (ast.For, ast.While))] if f is not None else []
        if not loops:
            return False
        loops[0].body.insert(1, ast.parse(text).body[0])
        return True
    return edit


SPECS += [
    ("C05", "move-announced-before-contents", "rope/refactor/move.py",
     _move_stmt_to_front("MoveModule._calculate_changes", lambda s_: isinstance(s_, ast.If) and "MoveResource" in ast.unparse(s_),
                         lambda s_: "create_jobset" in ast.unparse(s_)), ["R05.1"]),
    ("C05", "folder-created-after-move", "rope/refactor/topackage.py",
     _move_stmt_to_front("ModuleToPackage.get_changes", lambda s_: "CreateFolder" in ast.unparse(s_) and isinstance(s_, ast.Expr),
                         lambda s_: isinstance(s_, ast.If) and "MoveResource" in ast.unparse(s_)), ["R05.1"]),
    ("C05", "placeholder-replace-narrowed", "rope/refactor/move.py",
     replace_expr_where("MoveGlobal._calculate_changes", lambda n: isinstance(n, ast.If) and isinstance(n.test, ast.Name) and ".replace(placeholder" in ast.unparse(n),
                        lambda n: ast.If(test=ast.parse("should_import and imported != self.old_name").body[0].value, body=n.body, orelse=n.orelse)), ["R05.2"]),
    ("C05", "source-placeholder-always-kept", "rope/refactor/move.py",
     remove_stmt_where("MoveGlobal._source_module_changes", stmt_is("source = source.replace(placeholder")), ["R05.2"]),
    ("C05", "tests-skipped", "rope/refactor/move.py",
     _insert_in_loop("MoveGlobal._calculate_changes", "if file_.name.startswith('test_'):\n    continue"), ["R05.3"]),
    ("C05", "back-import-dropped", "rope/refactor/move.py",
     remove_stmt_where("moving_code_with_imports", stmt_is("imports.append(import_tools.get_from_import")), ["R05.4"]),
    ("C05", "dest-imports-not-added", "rope/refactor/move.py",
     replace_expr_where("MoveGlobal._dest_module_changes", lambda n: isinstance(n, ast.Call) and getattr(n.func, "attr", "") == "_add_imports2",
                        lambda n: ast.Tuple(elts=[n.args[0], ast.Constant(value=False)], ctx=ast.Load())), ["R05.4"]),
    ("C05", "moving-module-not-absolutised", "rope/refactor/move.py",
     replace_expr_where("MoveModule._change_moving_module", lambda n: isinstance(n, ast.Call) and getattr(n.func, "attr", "") == "relatives_to_absolutes",
                        const(None)), ["R05.5"]),
    ("C05", "package-members-not-absolutised", "rope/refactor/move.py",
     replace_expr_where("MoveModule._calculate_changes", lambda n: isinstance(n, ast.If) and ast.unparse(n.test) == "module == self.source",
                        lambda n: ast.If(test=n.test, body=n.body, orelse=n.orelse[0].orelse)), ["R05.5"]),
    ("C05", "topackage-not-absolutised", "rope/refactor/topackage.py",
     replace_expr_where("ModuleToPackage.get_changes", lambda n: isinstance(n, ast.Call) and getattr(n.func, "attr", "") == "_transform_relatives_to_absolute",
                        const(None)), ["R05.5"]),
    ("C05", "move-only-when-references-changed", "rope/refactor/move.py",
     replace_expr_where("MoveModule._calculate_changes", lambda n: isinstance(n, ast.If) and "MoveResource" in ast.unparse(n),
                        lambda n: ast.If(test=ast.parse("self.project == self.source.project and changes.changes").body[0].value, body=n.body, orelse=[])), ["R05.6"]),
    ("C05", "splice-off-by-one", "rope/refactor/move.py",
     replace_expr_where("MoveGlobal._dest_module_changes", lambda n: isinstance(n, ast.Subscript) and ast.unparse(n) == "source[cut:]",
                        lambda n: ast.parse("source[cut + 1:]").body[0].value), ["R05.7"]),
]


_is_sep_add = lambda n: isinstance(n, ast.BinOp) and isinstance(n.op, ast.Add) and isinstance(n.right, ast.Constant) and n.right.value in ("/", ".")
SPECS += [
    ("C09", "folder-contains-no-separator", "rope/base/resources.py", replace_expr_where("Folder.contains", _is_sep_add, lambda n: n.left), ["R09.8"]),
    ("C09", "project-relative-no-separator", "rope/base/libutils.py", replace_expr_where("relative", _is_sep_add, lambda n: n.left), ["R09.8"]),
    ("C07", "dotted-prefix-no-dot", "rope/refactor/importutils/actions.py",
     replace_expr_where("AddingVisitor.visitNormalImport", _is_sep_add, lambda n: n.left, nth=1), ["R07.8"]),
]


SPECS += [
    ("C10", "rollback-calls-same-direction", "rope/base/change.py",
     replace_expr_where("ChangeSet.undo", lambda n: isinstance(n, ast.Call) and ast.unparse(n) == "change.do()",
                        lambda n: ast.parse("change.undo()").body[0].value), ["R10.11"]),
    ("C03", "import-binds-dotted-name", "rope/refactor/extract.py",
     replace_expr_where("_FunctionInformationCollector._Import", lambda n: isinstance(n, ast.Subscript) and "split" in ast.unparse(n),
                        lambda n: n.value.func.value), ["R03.13"]),
    ("C15", "import-binds-dotted-name", "rope/base/pyobjectsdef.py",
     replace_expr_where("_ScopeVisitor._Import", lambda n: isinstance(n, ast.Subscript) and "split" in ast.unparse(n),
                        lambda n: n.value.func.value), ["R15.12"]),
]



def _expr(text: str):
    return lambda n: ast.parse(text, mode="eval").body


def _is(text: str):
    return lambda n: isinstance(n, ast.AST) and not isinstance(n, (ast.stmt, ast.Module)) and ast.unparse(n) == text


def _const_is(v):
    return lambda n: isinstance(n, ast.Constant) and n.value == v and type(n.value) is type(v)


def _swap_cmp(op_from, op_to, containing: str):
    def pred(n):
        return isinstance(n, ast.Compare) and len(n.ops) == 1 and isinstance(n.ops[0], op_from) and containing in ast.unparse(n)

    def make(n):
        return ast.Compare(left=n.left, ops=[op_to()], comparators=n.comparators)
    return pred, make


def _hash_before_string_test(tree):
    f = find_func(tree, "_CustomGenerator._analyze_line")
    loops = [x for x in ast.walk(f) if isinstance(x, (ast.For, ast.While))] if f is not None else []
    if not loops:
        return False
    body = loops[0].body
    hit = [s_ for s_ in body if isinstance(s_, ast.If) and ast.unparse(s_.test) == "token == '#'"]
    anchor = [s_ for s_ in body if isinstance(s_, ast.If) and ast.unparse(s_.test) == "self.in_string"]
    if not hit or not anchor:
        return False
    body.remove(hit[0])
    body.insert(body.index(anchor[0]), hit[0])
    return True


# round 6, wave 2
SPECS += [
    ("C17", "setter-closed-at-first-physical-line", "rope/refactor/encapsulate_field.py",
     replace_expr_where("_FindChangesForModule.get_changed_module", _is("self.lines.get_line_end(end_line)"), _expr("self.lines.get_line_end(start_line)")), ["R17.8"]),
    ("C20", "comment-test-on-raw-line", "rope/contrib/fixsyntax.py",
     replace_expr_where("_Commenter._find_matching_deindent", _is("line.strip().startswith('#')"), _expr("line.startswith('#')")), ["R20.9"]),
    ("C20", "inserted-line-booked-without-newline", "rope/contrib/fixsyntax.py",
     replace_expr_where("_Commenter._insert", _is("len(line) + 1"), _expr("len(line)")), ["R20.10"]),
    ("C20", "ledger-includes-own-line", "rope/contrib/fixsyntax.py",
     replace_expr_where("_Commenter.transferred_offset", _is("self.diffs[:lineno]"), _expr("self.diffs[:lineno + 1]")), ["R20.10"]),
    ("C16", "codec-name-without-underscore", "rope/base/fscommands.py",
     replace_expr_where("_find_coding", _const_is(b"-_."), const(b"-.")), ["R16.9"]),
    ("C16", "cookie-delimiter-colon-only", "rope/base/fscommands.py",
     replace_expr_where("_find_coding", lambda n: isinstance(n, ast.Tuple) and sorted(getattr(e, "value", None) or b"" for e in n.elts) == [b":", b"="],
                        lambda n: ast.Tuple(elts=[ast.Constant(value=b":")], ctx=ast.Load())), ["R16.9"]),
    ("C16", "cookie-only-on-first-line", "rope/base/fscommands.py",
     replace_expr_where("read_str_coding", lambda n: isinstance(n, ast.Slice) and isinstance(n.upper, ast.Constant) and n.upper.value == 2,
                        lambda n: ast.Slice(lower=None, upper=ast.Constant(value=1), step=None)), ["R16.10"]),
    ("C16", "cookie-below-code-honoured", "rope/base/fscommands.py",
     remove_stmt_where("read_str_coding", lambda s: isinstance(s, ast.If) and "BLANK_LINE_PATTERN" in ast.unparse(s.test)), ["R16.10"]),
    ("C16", "cr-files-written-with-lf", "rope/base/fscommands.py",
     replace_expr_where("unicode_to_file_data", _is("newlines != '\\n'"), _expr("newlines == '\\r\\n'")), ["R16.2"]),
    ("C15", "as-pattern-not-traversed", "rope/base/pyobjectsdef.py",
     remove_stmt_where("_ScopeVisitor._MatchAs", lambda s: isinstance(s, ast.If) and "node.pattern" in ast.unparse(s.test)), ["R15.13"]),
    ("C11", "redo-list-loaded-reversed", "rope/base/history.py",
     replace_expr_where("History._load_history", _is("self._redo_list.append(to_change(data))"), _expr("self._redo_list.insert(0, to_change(data))")), ["R11.9"]),
    ("C12", "undo-list-loaded-reversed", "rope/base/history.py",
     replace_expr_where("History._load_history", _is("self._undo_list.append(to_change(data))"), _expr("self._undo_list.insert(0, to_change(data))")), ["R12.12"]),
    ("C11", "redo-picks-oldest", "rope/base/history.py",
     replace_expr_where("History.redo", _is("self.redo_list[-1]"), _expr("self.redo_list[0]")), ["R11.10"]),
    ("C11", "undo-picks-oldest", "rope/base/history.py",
     replace_expr_where("History.undo", _is("self.undo_list[-1]"), _expr("self.undo_list[0]")), ["R11.10"]),
    ("C19", "goal-indented-like-match-end", "rope/refactor/restructure.py",
     replace_expr_where("_ChangeComputer._get_matched_text", _is("match.get_region()[0]"), _expr("match.get_region()[1]")), ["R19.9"]),
    ("C13", "indicator-ordered", "rope/base/resourceobserver.py",
     replace_expr_where("FilteredResourceObserver._is_changed", *_swap_cmp(ast.NotEq, ast.Lt, "get_indicator")), ["R13.10"]),
    ("C13", "indicator-mtime-only", "rope/base/resourceobserver.py",
     replace_expr_where("ChangeIndicator.get_indicator", _is("(os.path.getmtime(path), os.path.getsize(path))"), _expr("(os.path.getmtime(path),)")), ["R13.10"]),
    ("C13", "reindex-keeps-old-rows", "rope/contrib/autoimport/sqlite.py",
     remove_stmt_where("AutoImport.update_resource", stmt_is("self._del_if_exist(")), ["R13.11"]),
    ("C13", "like-underscore-not-escaped", "rope/contrib/autoimport/sqlite.py",
     replace_expr_where("AutoImport._del_package_if_exist", _const_is("\\%_"), const("\\%")), ["R13.11"]),
    ("C14", "hash-in-string-ends-line-scan", "rope/base/codeanalyze.py", _hash_before_string_test, ["R14.13"]),
    ("C14", "long-string-lookahead-one-quote", "rope/base/codeanalyze.py",
     replace_expr_where("get_string_pattern_with_prefix", lambda n: isinstance(n, ast.Constant) and isinstance(n.value, str) and '(?!"")' in n.value,
                        lambda n: ast.Constant(value=n.value.replace('(?!"")', '(?!")'))), ["R14.11"]),
    ("C14", "short-string-spans-lines", "rope/base/codeanalyze.py",
     replace_expr_where("get_string_pattern_with_prefix", lambda n: isinstance(n, ast.Constant) and isinstance(n.value, str) and n.value.startswith('"(') ,
                        lambda n: ast.Constant(value=n.value.replace('[^"\\\\\\n]', '[^"\\\\]'))), ["R14.11"]),
    ("C14", "paren-scanner-without-braces", "rope/base/simplify.py",
     replace_expr_where("", lambda n: isinstance(n, ast.Constant) and isinstance(n.value, str) and n.value.startswith("[\\({"),
                        lambda n: ast.Constant(value=n.value.replace("{", "").replace("}", ""))), ["R14.12"]),
]

# round 9 (refactoring slips)
SPECS += [
    ("C01", "init-answered-for-instances", "rope/base/evaluate.py",
     replace_expr_where("ScopeNameFinder.get_enclosing_function", _is("isinstance(pyobject, pyobjects.AbstractClass) and '__init__' in pyobject"),
                        _expr("'__init__' in pyobject")), ["R01.11"]),
    ("C02", "init-answered-for-instances", "rope/base/evaluate.py",
     replace_expr_where("ScopeNameFinder.get_enclosing_function", _is("isinstance(pyobject, pyobjects.AbstractClass) and '__init__' in pyobject"),
                        _expr("'__init__' in pyobject")), ["R02.15"]),
    ("C04", "cut-offsets-from-original-lines", "rope/refactor/inline.py",
     replace_expr_where("_inline_variable", _is("codeanalyze.SourceLinesAdapter(changed_source)"), _expr("pymodule.lines")), ["R04.6"]),
    ("C05", "filter-folder-of-destination", "rope/refactor/move.py",
     replace_expr_where("MoveGlobal._calculate_changes", _is("self._import_filter_in(file_.parent)"), _expr("self._import_filter_in(dest.parent)")), ["R05.17"]),
    ("C06", "header-read-from-blanked-text", "rope/base/worder.py",
     replace_expr_where("_RealFinder.get_function_and_args_in_header", _is("self.raw[offset:rparens + 1]"), _expr("self.code[offset:rparens + 1]")), ["R06.9"]),
    ("C14", "primary-read-from-blanked-text", "rope/base/worder.py",
     replace_expr_where("_RealFinder.get_primary_at", _is("self.raw[start:end]"), _expr("self.code[start:end]")), ["R14.14"]),
    ("C08", "pattern-search-resumes-after-match", "rope/refactor/patchedast.py",
     replace_expr_where("_Source._consume_pattern", _is("repattern.search(self.source, self.offset, end)"), _expr("repattern.search(self.source, end - 1, end)")), ["R08.10"]),
    ("C11", "interesting-only-if-nothing-ignored", "rope/base/history.py",
     replace_expr_where("History._is_change_interesting", lambda n: isinstance(n, ast.UnaryOp) and isinstance(n.op, ast.Not) and "is_ignored" in ast.unparse(n),
                        lambda n: n.operand), ["R11.11"]),
    ("C12", "folder-flag-ignored-on-reload", "rope/base/change.py",
     replace_expr_where("DataToChange.makeCreateResource", _is("self.project.get_folder(path)"), _expr("self.project.get_file(path)")), ["R12.13"]),
    ("C15", "with-header-visited-only-with-as", "rope/base/pyobjectsdef.py", None, ["R15.14"]),
    ("C17", "factory-after-first-method", "rope/refactor/introduce_factory.py",
     replace_expr_where("IntroduceFactory._get_insertion_offset", _is("class_scope.get_scopes()[-1]"), _expr("class_scope.get_scopes()[0]")), ["R17.9"]),
    ("C18", "first-record-of-empty-list", "rope/base/project.py",
     replace_expr_where("_DataFiles.read_data", _is("len(result) == 1"), _expr("len(result) <= 1")), ["R18.4"]),
    ("C19", "multi-statement-pattern-as-expression", "rope/refactor/similarfinder.py",
     replace_expr_where("RawSimilarFinder._create_pattern", _is("len(nodes) == 1 and isinstance(nodes[0], ast.Expr)"), _expr("isinstance(nodes[0], ast.Expr)")), ["R19.10"]),
    ("C13", "folder-itself-not-examined", "rope/base/resourceobserver.py", None, ["R13.12"]),
    ("C07", "gap-refused-only-if-all-foreign", "rope/refactor/importutils/__init__.py", None, ["R07.15"]),
    ("C03", "conditional-write-skips-loop-check", "rope/refactor/extract.py", None, ["R03.14"]),
    ("C14", "blank-skip-inside-open-line", "rope/base/codeanalyze.py", None, ["R14.15"]),
]
# ---- round 11: byte columns, f-string-aware bracket scans
_COL2OFF = "codeanalyze.column_to_offset(self._lines.get_line(lineno), col_offset)"
SPECS += [
    ("C06", "argument-text-cut-at-byte-column", "rope/refactor/functionutils.py",
     replace_expr_where("_BaseFunctionParser._get_offset", _is(_COL2OFF), _expr("col_offset")), ["R06.10"]),
    ("C06", "byte-column-converter-is-identity", "rope/base/codeanalyze.py",
     replace_expr_where("column_to_offset", _is("len(line.encode('utf-8')[:byte_column].decode('utf-8', 'ignore'))"), _expr("byte_column")), ["R06.10"]),
    ("C08", "byte-column-converter-is-identity", "rope/base/codeanalyze.py",
     replace_expr_where("column_to_offset", _is("len(line.encode('utf-8')[:byte_column].decode('utf-8', 'ignore'))"), _expr("byte_column")), ["R08.11"]),
    ("C01", "f-string-name-at-byte-column", "rope/refactor/occurrences.py",
     replace_expr_where("_TextualFinder._search_in_f_string", _is("offset(node.lineno, node.col_offset)"), _expr("node.col_offset")), ["R01.13"]),
    ("C02", "f-string-attribute-at-byte-column", "rope/refactor/occurrences.py",
     replace_expr_where("_TextualFinder._search_in_f_string", _is("offset(node.end_lineno, node.end_col_offset)"), _expr("node.end_col_offset")), ["R02.18"]),
    ("C08", "next-statement-bound-from-expression-column", "rope/refactor/patchedast.py",
     replace_expr_where("_PatchingASTWalker._handle", _is("self._find_next_statement_start()"),
                        _expr("self.lines.get_line_start(node.end_lineno) + node.end_col_offset")), ["R08.11"]),
    ("C14", "f-string-regions-not-collected", "rope/base/simplify.py",
     remove_stmt_where("real_code", stmt_is("fstrings.append((start, end))")), ["R14.16"]),
    ("C14", "parens-start-does-not-step-over-atoms", "rope/base/worder.py",
     replace_expr_where("_RealFinder._find_parens_start", _is("self._find_primary_start(offset)"), _expr("offset")), ["R14.16"]),
]
# ---- identifier characters (R01.14 / R02.19 / R03.16 / R14.17 / R20.13)
_ASCII_ID = "char.isalnum() or char == '_'"
SPECS += [
    ("C14", "identifier-char-is-isalnum", "rope/base/worder.py",
     replace_expr_where("is_identifier_char", lambda n: isinstance(n, ast.BoolOp) and isinstance(n.op, ast.Or) and len(n.values) == 3, _expr(_ASCII_ID)), ["R14.17"]),
    ("C02", "identifier-char-is-isalnum", "rope/base/worder.py",
     replace_expr_where("is_identifier_char", lambda n: isinstance(n, ast.BoolOp) and isinstance(n.op, ast.Or) and len(n.values) == 3, _expr(_ASCII_ID)), ["R02.19"]),
    ("C02", "bare-word-match-not-checked-for-whole-word", "rope/refactor/occurrences.py",
     replace_expr_where("_TextualFinder._re_search", _is("self._is_whole_word(source, start, end)"), _expr("True")), ["R02.19"]),
    ("C01", "name-delimited-by-word-boundary", "rope/refactor/occurrences.py",
     replace_expr_where("_TextualFinder._get_occurrence_pattern", _is("'(?<!\\\\w)' + name + '(?!\\\\w)'"), _expr("'\\\\b' + name + '\\\\b'")), ["R01.14"]),
    ("C03", "home-made-word-test-in-extract", "rope/refactor/extract.py",
     replace_expr_where("_ExceptionalConditionChecker._is_on_a_word", _is("worder.is_identifier_char(prev)"), _expr("(prev.isalnum() or prev == '_')")), ["R03.16"]),
    ("C20", "home-made-prefix-scan", "rope/contrib/codeassist.py",
     replace_expr_where("_PythonCodeAssist._find_starting_offset", _is("worder.is_identifier_char(source_code[current_offset])"),
                        _expr("(source_code[current_offset].isalnum() or source_code[current_offset] in '_')")), ["R20.13"]),
]
# ---- round 13: the repairs of the defects the hunters found, undone one at a time
def _drop_keywords(names):
    def make(n):
        return ast.Call(func=n.func, args=n.args, keywords=[k for k in n.keywords if k.arg not in names])
    return make


SPECS += [
    ("C07", "import-on-a-shared-line-managed-again", "rope/refactor/importutils/module_imports.py",
     replace_expr_where("_GlobalImportFinder.find_import_statements", _is("self._shares_its_line(nodes, index)"), _expr("False")), ["R07.17"]),
    ("C08", "try-finally-forgets-else", "rope/refactor/patchedast.py",
     remove_stmt_where("_PatchingASTWalker._TryFinally", stmt_is("if node.orelse")), ["R08.2"]),
    ("C13", "structure-observer-without-moved-removed", "rope/base/pycore.py",
     replace_expr_where("PyCore._init_resource_observer", lambda n: isinstance(n, ast.Call) and len(n.keywords) == 4 and ast.unparse(n.func).endswith("ResourceObserver"),
                        _drop_keywords({"moved", "removed"})), ["R13.15"]),
    ("C16", "first-coding-word-only", "rope/base/fscommands.py",
     replace_expr_where("_find_coding", lambda n: isinstance(n, ast.While), lambda n: ast.If(test=n.test, body=[ast.Return(value=None)], orelse=[])), ["R16.12"]),
    ("C17", "augmented-write-without-parentheses", "rope/refactor/encapsulate_field.py",
     remove_stmt_where("_FindChangesForModule._manage_writes", stmt_is("if self.is_augmented_set and")), ["R17.11"]),
    ("C11", "dependency-by-resource-equality", "rope/base/history.py",
     replace_expr_where("_FindChangeDependencies._depends_on", _is("self._overlap(resource.path, changed.path)"), _expr("resource == changed")), ["R11.13"]),
    ("C14", "escaped-triple-quote-skipped-whole", "rope/base/codeanalyze.py",
     remove_stmt_where("_CustomGenerator._analyze_line", stmt_is("position = match.start(2) + 1")), ["R14.18"]),
    ("C09", "ignored-defining-module-rewritten", "rope/refactor/inline.py",
     replace_expr_where("InlineVariable.get_changes", _is("self.project.is_ignored(self.resource)"), _expr("False")), ["R09.5"]),
    ("C12", "folder-move-reloaded-with-get_file", "rope/base/change.py",
     replace_expr_where("DataToChange.makeMoveResource", _is("self.project.get_folder(old_path)"), _expr("self.project.get_file(old_path)")), ["R12.14"]),
    ("C19", "elif-clause-offered-to-the-matcher", "rope/refactor/similarfinder.py",
     replace_expr_where("_ASTMatcher._check_statements", _is("self._is_elif_clause(node, child)"), _expr("False")), ["R19.13"]),
    ("C03", "loop-carried-check-ignores-earlier-reads", "rope/refactor/extract.py",
     replace_expr_where("_FunctionInformationCollector._written_variable", _is("name in self.read or name in self.loop_preread"), _expr("name in self.read")), ["R03.17"]),
    ("C04", "second-call-in-a-line-not-refused", "rope/refactor/inline.py",
     remove_stmt_where("_InlineFunctionCallsForModuleHandle.occurred_outside_skip", stmt_is("if start_line in self.rewritten_lines")), ["R04.8"]),
    ("C20", "dot-position-not-looked-at", "rope/base/worder.py",
     remove_stmt_where("_RealFinder.get_splitted_primary_before", stmt_is("if self.code[last_dot_position] != '.'")), ["R20.14"]),
    ("C06", "surplus-positionals-slide", "rope/refactor/functionutils.py",
     replace_expr_where("ArgumentMapping.to_call_info", lambda n: isinstance(n, ast.If) and ast.unparse(n.test) == "self.args_arg",
                        lambda n: ast.If(test=ast.Constant(value=False), body=n.body, orelse=n.orelse)), ["R06.12"]),
    ("C02", "header-expression-in-own-scope", "rope/base/evaluate.py",
     remove_stmt_where("ScopeNameFinder.get_primary_and_pyname_at", stmt_is("while self._is_in_header_expression(holding_scope, offset)")), ["R02.21"]),
    ("C01", "header-expression-in-own-scope", "rope/base/evaluate.py",
     remove_stmt_where("ScopeNameFinder.get_primary_and_pyname_at", stmt_is("while self._is_in_header_expression(holding_scope, offset)")), ["R01.16"]),
]
SPECS += [
    ("C06", "remover-key-is-a-pair", "rope/refactor/change_signature.py",
     replace_expr_where("ArgumentRemover.change_argument_mapping", _is("definition_info.args_with_defaults[self.index][0]"), _expr("definition_info.args_with_defaults[0]")), ["R06.13"]),
]
SPECS += [
    ("C16", "declared-codec-name-used-as-written", "rope/base/fscommands.py",
     replace_expr_where("_find_coding", _is("_normal_coding_name(result)"), _expr("result")), ["R16.13"]),
    ("C16", "utf-8-sig-kept", "rope/base/fscommands.py",
     replace_expr_where("_normal_coding_name", _is("enc == 'utf-8' or enc.startswith('utf-8-')"), _expr("enc == 'utf-8'")), ["R16.13"]),
    ("C12", "newline-convention-not-saved", "rope/base/change.py",
     replace_expr_where("ChangeToData.convertChangeContents", lambda n: isinstance(n, ast.Tuple) and len(n.elts) == 4, lambda n: ast.Tuple(elts=n.elts[:3], ctx=ast.Load())), ["R12.15"]),
]
SPECS += [
    ("C19", "matches-in-traversal-order", "rope/refactor/restructure.py",
     replace_expr_where("_ChangeComputer.get_changed", lambda n: isinstance(n, ast.Call) and isinstance(n.func, ast.Name) and n.func.id == "sorted", _expr("self.matches")), ["R19.14"]),
    ("C16", "newline-convention-captured-unread", "rope/base/change.py",
     replace_expr_where("ChangeContents.do", _is("self.resource.newlines is None and self.resource.exists()"), _expr("False")), ["R16.14"]),
]
SPECS += [
    ("C07", "all-read-from-lists-only", "rope/refactor/importutils/module_imports.py",
     replace_expr_where("ModuleImports._get_all_star_list", _is("isinstance(assignment, (ast.List, ast.Tuple))"), _expr("isinstance(assignment, ast.List)")), ["R07.18"]),
]
SPECS += [
    ("C13", "observer-indexes-any-file", "rope/contrib/autoimport/sqlite.py",
     replace_expr_where("AutoImport._changed", _is("self._is_python_file(resource)"), _expr("not resource.is_folder()")), ["R13.16"]),
]
SPECS = [s for s in SPECS if s[3] is not None]  # (entries without an AST edit are covered by their kept seed)

SPECS = [s for s in SPECS if s[1] != "tab-to-four-spaces"]


def specs_for(prop: str) -> List[Spec]:
    return [s for s in SPECS if s[0] == prop]

# the first iterable of a comprehension (fix 3d7aedb)
def _while_to_if(tree):
    f = find_func(tree, "ScopeNameFinder.get_primary_and_pyname_at")
    if f is None:
        return False
    for p in ast.walk(f):
        for fld in ("body", "orelse"):
            v = getattr(p, fld, None)
            if isinstance(v, list):
                for i, st in enumerate(v):
                    if isinstance(st, ast.While) and "_is_in_header_expression" in ast.unparse(st.test):
                        v[i] = ast.copy_location(ast.If(test=st.test, body=st.body, orelse=[]), st)
                        return True
    return False


def _drop_comprehension_branch(tree):
    f = find_func(tree, "ScopeNameFinder._is_in_header_expression")
    if f is None:
        return False
    for i, st in enumerate(f.body):
        if isinstance(st, ast.If) and "comprehensions" in ast.unparse(st.test) and st.orelse:
            f.body[i:i + 1] = st.orelse
            return True
    return False


def _every_generator(n):
    return ast.parse("[g.iter for g in node.generators]", mode="eval").body


SPECS += [
    ("C02", "first-iterable-in-the-comprehension-scope", "rope/base/evaluate.py",
     _drop_comprehension_branch, ["R02.23"]),
    ("C01", "first-iterable-in-the-comprehension-scope", "rope/base/evaluate.py",
     _drop_comprehension_branch, ["R01.18"]),
    ("C02", "every-iterable-evaluated-outside", "rope/base/evaluate.py",
     replace_expr_where("ScopeNameFinder._is_in_header_expression", _is("[node.generators[0].iter]"), _every_generator), ["R02.23"]),
    ("C01", "move-to-the-parent-scope-made-once", "rope/base/evaluate.py", _while_to_if, ["R01.18"]),
    ("C02", "move-to-the-parent-scope-made-once", "rope/base/evaluate.py", _while_to_if, ["R02.23"]),
]

# the line model (fix ccb5d49)
SPECS += [
    ("C03", "joined-lines-cut-with-splitlines", "rope/refactor/extract.py",
     replace_expr_where("_join_lines", _is("sourceutils.split_lines(code)"), _expr("code.splitlines()")), ["R03.18"]),
    ("C04", "reindent-cuts-with-splitlines", "rope/refactor/sourceutils.py",
     replace_expr_where("lines_and_strings", _is("split_lines(source_code, True)"), _expr("source_code.splitlines(True)")), ["R04.9"]),
    ("C05", "reindent-cuts-with-splitlines", "rope/refactor/sourceutils.py",
     replace_expr_where("lines_and_strings", _is("split_lines(source_code, True)"), _expr("source_code.splitlines(True)")), ["R05.19"]),
    # (since fix 86a1eab the three re-indenting loops take their lines from sourceutils.lines_and_strings)
    ("C19", "flagged-lines-cut-with-splitlines", "rope/refactor/sourceutils.py",
     replace_expr_where("lines_and_strings", _is("split_lines(source_code, True)"), _expr("source_code.splitlines(True)")), ["R19.15"]),
    ("C17", "flagged-lines-cut-with-splitlines", "rope/refactor/sourceutils.py",
     replace_expr_where("lines_and_strings", _is("split_lines(source_code, True)"), _expr("source_code.splitlines(True)")), ["R17.13"]),
    ("C14", "flagged-lines-cut-with-splitlines", "rope/refactor/sourceutils.py",
     replace_expr_where("lines_and_strings", _is("split_lines(source_code, True)"), _expr("source_code.splitlines(True)")), ["R14.19"]),
    ("C20", "flagged-lines-cut-with-splitlines", "rope/refactor/sourceutils.py",
     replace_expr_where("lines_and_strings", _is("split_lines(source_code, True)"), _expr("source_code.splitlines(True)")), ["R20.16"]),
]

# builtin modules have no file (fix 927ccf1)
SPECS += [
    ("C09", "module-without-a-file-not-refused", "rope/refactor/rename.py",
     remove_stmt_where("Rename.get_changes", stmt_is("if resource is None")), ["R09.12"]),
    ("C01", "module-without-a-file-not-refused", "rope/refactor/rename.py",
     remove_stmt_where("Rename.get_changes", stmt_is("if resource is None")), ["R01.21"]),
]

# scans over the leading dots (fix 51d26d6, 08863cc)
def _unbound(func):
    def edit(tree):
        f = find_func(tree, func)
        if f is None:
            return False
        for w in ast.walk(f):
            if isinstance(w, ast.While) and isinstance(w.test, ast.BoolOp) and isinstance(w.test.op, ast.And) and len(w.test.values) == 2 \
                    and "len(" in ast.unparse(w.test.values[0]) and "'.'" in ast.unparse(w.test.values[1]):
                w.test = w.test.values[1]
                return True
        return False
    return edit


SPECS += [
    ("C20", "dots-scan-without-a-bound", "rope/contrib/codeassist.py", _unbound("_PythonCodeAssist._find_module"), ["R20.18"]),
    ("C20", "dots-scan-without-a-bound-in-the-name-finder", "rope/base/evaluate.py", _unbound("ScopeNameFinder._find_module"), ["R20.18"]),
    ("C09", "dots-scan-without-a-bound-in-the-name-finder", "rope/base/evaluate.py", _unbound("ScopeNameFinder._find_module"), ["R09.13"]),
]

# clamp to the last index (fix c90d787)
SPECS += [
    ("C20", "clamp-to-the-length-then-index", "rope/base/worder.py",
     replace_expr_where("_RealFinder.is_from_aliased", _is("len(self.code) - 1"), _expr("len(self.code)")), ["R20.19"]),
    ("C09", "clamp-to-the-length-then-index-import", "rope/base/worder.py",
     replace_expr_where("_RealFinder.is_import_statement_aliased_module", _is("len(self.code) - 1"), _expr("len(self.code)")), ["R09.14"]),
]

# the file follows its own name only (fix 2a860bf)
def _module_whatever_the_word(tree):
    f = find_func(tree, "Rename._is_renaming_a_module")
    if f is None:
        return False
    for i, st in enumerate(f.body):
        if isinstance(st, ast.Return) and isinstance(st.value, ast.Compare) and "old_name" in ast.unparse(st.value):
            f.body[i] = ast.copy_location(ast.Return(value=ast.Constant(value=True)), st)
            return True
    return False


SPECS += [
    ("C01", "file-moved-for-any-name-bound-to-the-module", "rope/refactor/rename.py", _module_whatever_the_word, ["R01.23"]),
    ("C01", "extension-removed-with-rstrip", "rope/refactor/rename.py",
     replace_expr_where("Rename._is_renaming_a_module", _is("resource.name[:-3]"), _expr("resource.name.rstrip('.py')")), ["R01.24"]),
    ("C05", "extension-removed-with-rstrip", "rope/refactor/rename.py",
     replace_expr_where("Rename._is_renaming_a_module", _is("resource.name[:-3]"), _expr("resource.name.rstrip('.py')")), ["R05.23"]),
]

# one key at a time (fix 1642e82)
def _starred_add(tree):
    f = find_func(tree, "_FunctionInformationCollector._Global")
    if f is None:
        return False
    f.body = [ast.parse("self.globals_.add(*node.names)").body[0]]
    ast.fix_missing_locations(f)
    return True


SPECS += [("C03", "all-names-handed-to-add-at-once", "rope/refactor/extract.py", _starred_add, ["R03.21"])]

# nonlocal through a class body (fix a1283d5)
SPECS += [("C15", "nonlocal-search-starts-in-the-class-body", "rope/base/pyobjectsdef.py",
           remove_stmt_where("_ScopeVisitor._Nonlocal", lambda s_: isinstance(s_, ast.While) and "Class" in ast.unparse(s_.test)), ["R15.19"])]

# one-based line numbers (fix 3133b38)
SPECS += [("C20", "line-index-handed-on-as-a-line-number", "rope/contrib/fixsyntax.py",
           replace_expr_where("FixSyntax.pyname_at", _is("self.code.count('\\n', 0, offset) + 1"), _expr("self.code.count('\\n', 0, offset)")), ["R20.21"])]

# a module is renamed to an identifier only (fix f5ec43d)
SPECS += [("C09", "module-name-not-checked", "rope/refactor/rename.py",
           remove_stmt_where("Rename._rename_module", stmt_is("if not new_name.isidentifier()")), ["R09.16"])]

# a comprehension in a class body (fix 8be2653)
SPECS += [
    ("C15", "comprehension-copies-all-names-of-its-parent", "rope/base/pyscopes.py",
     replace_expr_where("ComprehensionScope._visit_comprehension", _is("self.parent.get_propagated_names()"), _expr("self.parent.get_names()")), ["R15.16"]),
    ("C02", "comprehension-copies-all-names-of-its-parent", "rope/base/pyscopes.py",
     replace_expr_where("ComprehensionScope._visit_comprehension", _is("self.parent.get_propagated_names()"), _expr("self.parent.get_names()")), ["R02.26"]),
]

# only certain later writes shield (fix fe41c1d)
SPECS += [("C03", "every-later-write-counts-as-certain", "rope/refactor/extract.py",
           replace_expr_where("_FunctionInformationCollector._written_variable", _is("self.end < lineno and (not self.post_conditional)"), _expr("self.end < lineno")), ["R03.22"])]

# a write that creates reports `created` (fix 004ba29)
SPECS += [
    ("C13", "write-reports-changed-only", "rope/base/change.py",
     remove_stmt_where("_ResourceOperations.write_file", lambda s_: isinstance(s_, ast.If) and "resource_created" in ast.unparse(s_)), ["R13.20"]),
    ("C13", "existence-asked-after-the-write", "rope/base/change.py",
     seq(remove_stmt_where("_ResourceOperations.write_file", stmt_is("created = not resource.exists()")),
         replace_expr_where("_ResourceOperations.write_file", lambda n: isinstance(n, ast.Name) and n.id == "created", _expr("not resource.exists()"))), ["R13.20"]),
]

# a string prefix starts a word (fix d7f5143)
SPECS += [
    ("C14", "any-prefix-in-the-middle-of-a-word", "rope/base/codeanalyze.py",
     replace_expr_where("get_any_string_pattern", _const_is(r"(?:\b[bBfFrRuU]{1,4})?"), const(r"[bBfFrRuU]{,4}")), ["R14.21"]),
    ("C14", "f-prefix-in-the-middle-of-a-word", "rope/base/codeanalyze.py",
     replace_expr_where("get_formatted_string_pattern", _const_is(r"\b([rR]?[fF]|[fF][rR]?)"), const(r"(\b[rR]?[fF]|[fF][rR]?)")), ["R14.21"]),
    ("C14", "look-behind-for-a-bare-f", "rope/base/codeanalyze.py",
     replace_expr_where("get_string_pattern", _const_is(r"(?<!\b[fF])(?<!\b[rR][fF])(\b(?:[uUbB]?[rR]?|[rR][bB]))?"), const(r"(?<![fF])(\b(?:[uUbB]?[rR]?|[rR][bB]))?")), ["R14.21"]),
    ("C02", "f-prefix-in-the-middle-of-a-word", "rope/base/codeanalyze.py",
     replace_expr_where("get_formatted_string_pattern", _const_is(r"\b([rR]?[fF]|[fF][rR]?)"), const(r"(\b[rR]?[fF]|[fF][rR]?)")), ["R02.27"]),
]

# a chained assignment is refused (fix 9a856c9)
SPECS += [
    ("C17", "chained-assignment-not-refused", "rope/refactor/encapsulate_field.py",
     remove_stmt_where("_FindChangesForModule.get_changed_module", stmt_is("if self._is_in_a_chained_assignment(")), ["R17.16"]),
]

# the exit status of a version-control program (fix 94f9db6); git rm takes back what was just created (fix 5e71542)
def _drop_status_test(tree):
    f = find_func(tree, "_check_call")
    if f is None:
        return False
    f.body = [s_ for s_ in f.body if not isinstance(s_, ast.If)]
    return True


SPECS += [
    ("C10", "exit-status-not-tested", "rope/base/fscommands.py", _drop_status_test, ["R10.15"]),
    ("C10", "git-do-drops-the-status", "rope/base/fscommands.py",
     replace_expr_where("GITCommands._do", lambda n: isinstance(n, ast.Name) and n.id == "_check_call", _expr("_execute")), ["R10.15"]),
    ("C10", "git-rm-not-forced", "rope/base/fscommands.py",
     replace_expr_where("GITCommands.remove", _const_is("-f"), const("-q")), ["R10.16"]),
    ("C10", "git-remove-without-plain-fallback", "rope/base/fscommands.py",
     remove_stmt_where("GITCommands.remove", stmt_is("if os.path.lexists(path)")), ["R10.16"]),
]

# re-indenting leaves string literals alone (fix 86a1eab)
SPECS += [
    ("C19", "auto-indent-inside-strings", "rope/refactor/restructure.py",
     replace_expr_where("_ChangeComputer._auto_indent", _is("index != 0 and line.strip() and (not in_string)"), _expr("index != 0 and line.strip()")), ["R19.16"]),
    ("C04", "indent-lines-inside-strings", "rope/refactor/sourceutils.py",
     remove_stmt_where("indent_lines", stmt_is("if in_string")), ["R04.12"]),
    ("C19", "indent-lines-inside-strings", "rope/refactor/sourceutils.py",
     remove_stmt_where("indent_lines", stmt_is("if in_string")), ["R19.16"]),
    ("C04", "string-lines-measured", "rope/refactor/sourceutils.py",
     replace_expr_where("find_minimum_indents", _is("line.strip() == '' or in_string"), _expr("line.strip() == ''")), ["R04.12"]),
]

# the byte order mark and the import tools (fix 797adba)
SPECS += [
    ("C16", "statement-text-keeps-the-mark", "rope/refactor/importutils/module_imports.py",
     replace_expr_where("_GlobalImportFinder._get_text", _is("'\\n'.join(result).lstrip(_BOM)"), _expr("'\\n'.join(result)")), ["R16.15"]),
    ("C16", "mark-not-restored", "rope/refactor/importutils/module_imports.py",
     remove_stmt_where("ModuleImports.get_changed_source", stmt_is("if self.pymodule.source_code.startswith(_BOM)")), ["R16.15"]),
]

# nested calls of the changed function (fix 06543b9)
SPECS += [
    ("C06", "occurrences-rewritten-first-to-last", "rope/refactor/change_signature.py",
     replace_expr_where("_ChangeCallsInModule.get_changed_module", _is("reversed(occurrences)"), _expr("occurrences")), ["R06.17"]),
    ("C06", "changer-reads-the-original-text", "rope/refactor/change_signature.py",
     replace_expr_where("_ChangeCallsInModule.get_changed_module", _is("source[start:end_parens]"), _expr("self.source[start:end_parens]")), ["R06.17"]),
]
