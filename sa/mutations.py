"""Self-test of the checkers (thorough tier): every kept seeded change (/verif/seeded/*/patch.diff) whose
meta.json names detecting rules for this property is applied to a scratch copy of /repo's working tree
(under a temp dir, removed afterwards); the property's rules are re-run on the copy and must report a NEW
violation of one of the named rules.  Only the checker runs -- rope is never executed.
"""
from __future__ import annotations

import json
import os
import shutil
import subprocess
import tempfile
from typing import Dict, List

from . import report
from .core import repo_root

SEEDED = os.path.join(report.VERIF, "seeded")


def _seeds_for(prop: str) -> List[dict]:
    out = []
    if not os.path.isdir(SEEDED):
        return out
    for name in sorted(os.listdir(SEEDED)):
        d = os.path.join(SEEDED, name)
        mp = os.path.join(d, "meta.json")
        if not os.path.exists(mp):
            continue
        meta = json.load(open(mp))
        det = (meta.get("confirmed_by_me") or {}).get("detected_by") or ""
        rules = [r.strip() for r in det.replace(";", ",").split(",") if r.strip()]
        props = {("C" + r[1:3]) for r in rules if r.startswith("R") and r[1:3].isdigit()}
        if prop in props:
            out.append({"name": name, "dir": d, "rules": [r for r in rules if ("C" + r[1:3]) == prop]})
    return out


def run(prop: str, seed: int) -> Dict:
    from .run import Ctx, load_rules

    seeds = _seeds_for(prop)
    result = {"variants": 0, "detected": 0, "failed": [], "skipped": [], "names": []}
    if not seeds:
        result["note"] = "no kept seeded change names a rule of this property"
        return result
    known = {k["key"] for k in report.load_known() if k.get("property") == prop and k.get("status") == "open"}
    for sd in seeds:
        tmp = tempfile.mkdtemp(prefix=f"verif-selftest-{prop}-")
        try:
            shutil.copytree(os.path.join(repo_root(), "rope"), os.path.join(tmp, "rope"),
                            ignore=shutil.ignore_patterns("__pycache__"))
            p = subprocess.run(["git", "apply", "--unsafe-paths", f"--directory={tmp}", os.path.join(sd["dir"], "patch.diff")],
                               cwd=tmp, capture_output=True, text=True)
            if p.returncode != 0:
                p = subprocess.run(["patch", "-p1", "-s", "-d", tmp, "-i", os.path.join(sd["dir"], "patch.diff")],
                                   capture_output=True, text=True)
            if p.returncode != 0:
                result["skipped"].append(f"{sd['name']}: patch no longer applies to the working tree")
                continue
            result["variants"] += 1
            ctx = Ctx("quick", seed, root=tmp)
            res = report.Results(prop)
            load_rules(prop).check(ctx, res)
            new = [i for i in res.instances if i.status == report.FAIL and i.key not in known]
            hit = [i for i in new if i.rule in sd["rules"]]
            if hit:
                result["detected"] += 1
                result["names"].append(f"{sd['name']}: {hit[0].key}")
            else:
                result["failed"].append(f"{sd['name']}: expected a new violation of {sd['rules']}, got {[i.key for i in new]}")
        except Exception as e:  # analysis error on the variant counts as a failure of the self-test
            result["failed"].append(f"{sd['name']}: {type(e).__name__}: {e}")
        finally:
            shutil.rmtree(tmp, ignore_errors=True)
    return result
