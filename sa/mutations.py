"""Self-test of the checkers (thorough tier): (1) AST-computed single edits from sa/astmut.py, and (2) every kept seeded change (/verif/seeded/*/patch.diff) whose
meta.json names detecting rules for this property is applied to a scratch copy of /repo's working tree
(under a temp dir, removed afterwards); the property's rules are re-run on the copy and must report a NEW
violation of one of the named rules.  Only the checker runs -- rope is never executed.
"""
from __future__ import annotations

import json
import os
import shutil
import subprocess
import tempfile
from typing import Dict, List

from . import report
from .core import repo_root

SEEDED = os.path.join(report.VERIF, "seeded")


def _seeds_for(prop: str) -> List[dict]:
    out = []
    if not os.path.isdir(SEEDED):
        return out
    for name in sorted(os.listdir(SEEDED)):
        d = os.path.join(SEEDED, name)
        mp = os.path.join(d, "meta.json")
        if not os.path.exists(mp):
            continue
        meta = json.load(open(mp))
        det = (meta.get("confirmed_by_me") or {}).get("detected_by") or ""
        rules = [r.strip() for r in det.replace(";", ",").split(",") if r.strip()]
        props = {("C" + r[1:3]) for r in rules if r.startswith("R") and r[1:3].isdigit()}
        if prop in props:
            out.append({"name": name, "dir": d, "rules": [r for r in rules if ("C" + r[1:3]) == prop]})
    return out


def _ast_variants(prop: str, known, result) -> None:
    """AST-computed single edits (sa/astmut.py): each must yield a new violation of one of its expected rules."""
    import ast

    from . import astmut
    from .run import Ctx, load_rules

    specs = astmut.specs_for(prop)
    if not specs:
        return
    tmp = tempfile.mkdtemp(prefix=f"verif-astmut-{prop}-")
    try:
        shutil.copytree(os.path.join(repo_root(), "rope"), os.path.join(tmp, "rope"), ignore=shutil.ignore_patterns("__pycache__"))
        for _, name, rel, edit, rules in specs:
            path = os.path.join(tmp, rel)
            if not os.path.exists(path):
                result["skipped"].append(f"ast:{name}: {rel} missing")
                continue
            original = open(path, encoding="utf-8").read()
            try:
                tree = ast.parse(original)
                applied = edit(tree)
                if not applied:
                    result["skipped"].append(f"ast:{name}: edit no longer applies")
                    continue
                ast.fix_missing_locations(tree)
                new_src = ast.unparse(tree)
                compile(new_src, rel, "exec")
                open(path, "w", encoding="utf-8").write(new_src)
                result["variants"] += 1
                ctx = Ctx("quick", 0, root=tmp)
                res = report.Results(prop)
                load_rules(prop).check(ctx, res)
                new = [i for i in res.instances if i.status == report.FAIL and i.key not in known]
                hit = [i for i in new if i.rule in rules]
                if hit:
                    result["detected"] += 1
                    result["names"].append(f"ast:{name}: {hit[0].key}")
                else:
                    result["failed"].append(f"ast:{name}: expected a new violation of {rules}, got {[i.key for i in new][:4]}")
            except Exception as e:
                result["failed"].append(f"ast:{name}: {type(e).__name__}: {e}")
            finally:
                open(path, "w", encoding="utf-8").write(original)
    finally:
        shutil.rmtree(tmp, ignore_errors=True)


def run(prop: str, seed: int) -> Dict:
    from .run import Ctx, load_rules

    seeds = _seeds_for(prop)
    result = {"variants": 0, "detected": 0, "failed": [], "skipped": [], "names": []}
    known = {k["key"] for k in report.load_known() if k.get("property") == prop and k.get("status") == "open"}
    _ast_variants(prop, known, result)
    if not seeds:
        result["note"] = "no kept seeded change names a rule of this property"
        return result
    for sd in seeds:
        tmp = tempfile.mkdtemp(prefix=f"verif-selftest-{prop}-")
        try:
            shutil.copytree(os.path.join(repo_root(), "rope"), os.path.join(tmp, "rope"),
                            ignore=shutil.ignore_patterns("__pycache__"))
            p = subprocess.run(["git", "apply", "--unsafe-paths", f"--directory={tmp}", os.path.join(sd["dir"], "patch.diff")],
                               cwd=tmp, capture_output=True, text=True)
            if p.returncode != 0:
                p = subprocess.run(["patch", "-p1", "-s", "-d", tmp, "-i", os.path.join(sd["dir"], "patch.diff")],
                                   capture_output=True, text=True)
            if p.returncode != 0:
                result["skipped"].append(f"{sd['name']}: patch no longer applies to the working tree")
                continue
            result["variants"] += 1
            ctx = Ctx("quick", seed, root=tmp)
            res = report.Results(prop)
            load_rules(prop).check(ctx, res)
            new = [i for i in res.instances if i.status == report.FAIL and i.key not in known]
            hit = [i for i in new if i.rule in sd["rules"]]
            if hit:
                result["detected"] += 1
                result["names"].append(f"{sd['name']}: {hit[0].key}")
            else:
                result["failed"].append(f"{sd['name']}: expected a new violation of {sd['rules']}, got {[i.key for i in new]}")
        except Exception as e:  # analysis error on the variant counts as a failure of the self-test
            result["failed"].append(f"{sd['name']}: {type(e).__name__}: {e}")
        finally:
            shutil.rmtree(tmp, ignore_errors=True)
    return result
