"""E3 -- RCA: regular-language analysis of constant regex patterns.

Patterns are parsed with the interpreter's own `re._parser`, translated to an
epsilon-NFA (Thompson), and language inclusion L(A) <= L(B) is decided by a
lazy product of subset constructions over a finite partition of the alphabet
(characters with the same membership signature in every character class of
both patterns are interchangeable).  On failure the shortest counter-example
word is returned.

Zero-width assertions: `erase_assertions=True` drops them (this can only
ENLARGE the language, so it is sound to erase on the right-hand side of an
inclusion that is reported as FAILING, and unsound on the left-hand side; the
caller chooses).  A pattern with an assertion that may not be erased raises
Undecided.
"""
from __future__ import annotations

import re
from collections import deque
from typing import Callable, Dict, FrozenSet, List, Optional, Set, Tuple

try:  # 3.11+
    import re._parser as sre_parse
    import re._constants as sre_c
except ImportError:  # pragma: no cover
    import sre_parse
    import sre_constants as sre_c


class Undecided(Exception):
    pass


# universe: ASCII plus representatives of the non-ASCII classes that \w \d \s distinguish
UNIVERSE: List[str] = [chr(i) for i in range(128)] + ["é", "٣", " ", "中", "€"]

Pred = Callable[[str], bool]


def _category(cat) -> Pred:
    name = str(cat)
    table = {
        "CATEGORY_DIGIT": lambda c: c.isdecimal(),
        "CATEGORY_NOT_DIGIT": lambda c: not c.isdecimal(),
        "CATEGORY_WORD": lambda c: c.isalnum() or c == "_",
        "CATEGORY_NOT_WORD": lambda c: not (c.isalnum() or c == "_"),
        "CATEGORY_SPACE": lambda c: c.isspace(),
        "CATEGORY_NOT_SPACE": lambda c: not c.isspace(),
    }
    if name not in table:
        raise Undecided(f"category {name}")
    return table[name]


class NFA:
    def __init__(self):
        self.n = 0
        self.eps: Dict[int, Set[int]] = {}
        self.trans: Dict[int, List[Tuple[int, int]]] = {}  # state -> [(pred index, target)]
        self.preds: List[Pred] = []
        self.start = self.new()
        self.accept = self.new()

    def new(self) -> int:
        s = self.n
        self.n += 1
        self.eps[s] = set()
        self.trans[s] = []
        return s

    def add_eps(self, a, b):
        self.eps[a].add(b)

    def add(self, a, pred: Pred, b):
        self.preds.append(pred)
        self.trans[a].append((len(self.preds) - 1, b))


def build(pattern: str, flags: int = 0, erase_assertions: bool = False, dotall: bool = False) -> NFA:
    tree = sre_parse.parse(pattern, flags)
    ic = bool(tree.state.flags & re.IGNORECASE)
    da = dotall or bool(tree.state.flags & re.DOTALL)
    nfa = NFA()

    def lit(code: int) -> Pred:
        ch = chr(code)
        if ic:
            return lambda c, ch=ch: c.lower() == ch.lower()
        return lambda c, ch=ch: c == ch

    def in_pred(items) -> Pred:
        neg = False
        parts: List[Pred] = []
        for op, av in items:
            if op is sre_c.NEGATE:
                neg = True
            elif op is sre_c.LITERAL:
                parts.append(lit(av))
            elif op is sre_c.RANGE:
                lo, hi = av
                if ic:
                    parts.append(lambda c, lo=lo, hi=hi: lo <= ord(c) <= hi or lo <= ord(c.lower()) <= hi or lo <= ord(c.upper()[:1] or c) <= hi)
                else:
                    parts.append(lambda c, lo=lo, hi=hi: lo <= ord(c) <= hi)
            elif op is sre_c.CATEGORY:
                parts.append(_category(av))
            else:
                raise Undecided(f"set item {op}")
        if neg:
            return lambda c: not any(p(c) for p in parts)
        return lambda c: any(p(c) for p in parts)

    def seq(items, a: int, b: int) -> None:
        cur = a
        items = list(items)
        for i, (op, av) in enumerate(items):
            nxt = b if i == len(items) - 1 else nfa.new()
            one(op, av, cur, nxt)
            cur = nxt
        if not items:
            nfa.add_eps(a, b)

    def one(op, av, a: int, b: int) -> None:
        if op is sre_c.LITERAL:
            nfa.add(a, lit(av), b)
        elif op is sre_c.NOT_LITERAL:
            p = lit(av)
            nfa.add(a, lambda c, p=p: not p(c), b)
        elif op is sre_c.ANY:
            nfa.add(a, (lambda c: True) if da else (lambda c: c != "\n"), b)
        elif op is sre_c.IN:
            nfa.add(a, in_pred(av), b)
        elif op is sre_c.BRANCH:
            for alt in av[1]:
                s, e = nfa.new(), nfa.new()
                nfa.add_eps(a, s)
                seq(alt, s, e)
                nfa.add_eps(e, b)
        elif op is sre_c.SUBPATTERN:
            seq(av[3], a, b)
        elif op in (sre_c.MAX_REPEAT, sre_c.MIN_REPEAT) or str(op) == "POSSESSIVE_REPEAT":
            lo, hi, sub = av
            cur = a
            for _ in range(lo):
                nxt = nfa.new()
                seq(sub, cur, nxt)
                cur = nxt
            if hi == sre_c.MAXREPEAT:
                loop_s, loop_e = nfa.new(), nfa.new()
                nfa.add_eps(cur, loop_s)
                seq(sub, loop_s, loop_e)
                nfa.add_eps(loop_e, loop_s)
                nfa.add_eps(loop_e, b)
                nfa.add_eps(cur, b)
            else:
                nfa.add_eps(cur, b)
                for _ in range(hi - lo):
                    nxt = nfa.new()
                    seq(sub, cur, nxt)
                    nfa.add_eps(nxt, b)
                    cur = nxt
        elif op is sre_c.AT or op in (sre_c.ASSERT, sre_c.ASSERT_NOT):
            if not erase_assertions:
                raise Undecided(f"zero-width assertion {op} {av if op is sre_c.AT else ''}")
            nfa.add_eps(a, b)
        elif str(op) == "ATOMIC_GROUP":
            seq(av, a, b)
        else:
            raise Undecided(f"regex op {op}")

    seq(tree, nfa.start, nfa.accept)
    return nfa


def _closure(nfa: NFA, states: FrozenSet[int]) -> FrozenSet[int]:
    seen = set(states)
    todo = list(states)
    while todo:
        s = todo.pop()
        for t in nfa.eps[s]:
            if t not in seen:
                seen.add(t)
                todo.append(t)
    return frozenset(seen)


def _step(nfa: NFA, states: FrozenSet[int], ch: str) -> FrozenSet[int]:
    out = set()
    for s in states:
        for pi, t in nfa.trans[s]:
            if nfa.preds[pi](ch):
                out.add(t)
    return _closure(nfa, frozenset(out))


def _alphabet(a: NFA, b: NFA) -> List[str]:
    """One representative per membership signature."""
    reps: Dict[Tuple, str] = {}
    for ch in UNIVERSE:
        sig = tuple(p(ch) for p in a.preds) + tuple(p(ch) for p in b.preds)
        if sig not in reps:
            reps[sig] = ch
    return sorted(reps.values())


def included(a: NFA, b: NFA, max_states: int = 200000) -> Tuple[bool, Optional[str], int]:
    """L(a) <= L(b)?  Returns (ok, shortest counter-example, explored product states)."""
    sigma = _alphabet(a, b)
    sa, sb = _closure(a, frozenset({a.start})), _closure(b, frozenset({b.start}))
    seen = {(sa, sb)}
    dq = deque([(sa, sb, "")])
    while dq:
        xa, xb, w = dq.popleft()
        if a.accept in xa and b.accept not in xb:
            return False, w, len(seen)
        for ch in sigma:
            ya = _step(a, xa, ch)
            if not ya:
                continue
            yb = _step(b, xb, ch)
            if (ya, yb) not in seen:
                seen.add((ya, yb))
                if len(seen) > max_states:
                    raise Undecided("state explosion")
                dq.append((ya, yb, w + ch))
    return True, None, len(seen)


def accepts(nfa: NFA, word: str) -> bool:
    cur = _closure(nfa, frozenset({nfa.start}))
    for ch in word:
        cur = _step(nfa, cur, ch)
        if not cur:
            return False
    return nfa.accept in cur


def top_level_groups(pattern: str) -> Dict[str, str]:
    """name -> nothing useful textually; returns named groups present (by name)."""
    tree = sre_parse.parse(pattern)
    return dict(tree.state.groupdict)


def has_alternative(pattern: str, probe: str) -> bool:
    """Does some top-level alternative of `pattern` (assertions erased) accept `probe` entirely?"""
    return accepts(build(pattern, erase_assertions=True), probe)
