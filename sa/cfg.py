"""Hand-built statement-level control-flow graph for one function.

Nodes are simple statements, atomic branch conditions (compound boolean tests
are decomposed so that `and`/`or`/`not` become control flow), loop heads,
exception dispatch points and the three exits NORMAL / RAISE (exception leaves
the function).  Fault model: every statement containing a call (or an
`assert`/`raise`) may raise; the exceptional edge goes to the innermost
enclosing handler dispatch (through `finally` copies) or to the RAISE exit.
"""
from __future__ import annotations

import ast
from typing import Callable, Dict, Iterable, List, Optional, Set, Tuple

from .core import walk_local


class Node:
    __slots__ = ("id", "kind", "ast", "label")

    def __init__(self, id_, kind, ast_=None, label=""):
        self.id = id_
        self.kind = kind  # entry exit raise stmt test loop dispatch handler with join
        self.ast = ast_
        self.label = label

    @property
    def lineno(self):
        return getattr(self.ast, "lineno", 0)

    def __repr__(self):
        return f"<{self.id}:{self.kind}:{self.label or type(self.ast).__name__}@{self.lineno}>"


CATCH_ALL = {"Exception", "BaseException"}


def _may_raise_default(node: ast.AST) -> bool:
    if isinstance(node, (ast.Raise, ast.Assert)):
        return True
    if isinstance(node, ast.Call):
        return True
    for n in walk_local(node):
        if isinstance(n, (ast.Call, ast.Await, ast.Yield, ast.YieldFrom)):
            return True
    return False


class CFG:
    def __init__(self, fn: ast.AST, may_raise: Optional[Callable[[ast.AST], bool]] = None):
        self.fn = fn
        self.nodes: List[Node] = []
        self.succ: Dict[int, List[Tuple[int, str]]] = {}
        self.pred: Dict[int, List[Tuple[int, str]]] = {}
        self.may_raise = may_raise or _may_raise_default
        self.entry = self._new("entry")
        self.exit = self._new("exit")
        self.raise_exit = self._new("raise")
        ctx = {"exc": self.raise_exit.id, "ret": self.exit.id, "brk": None, "cont": None}
        self._named = self._named_conditions()
        body = fn.body if isinstance(fn.body, list) else [ast.Return(value=fn.body)]
        first = self._build_block(body, self.exit.id, ctx)
        self._edge(self.entry.id, first, "")
        self._by_ast: Dict[int, List[Node]] = {}
        for n in self.nodes:
            if n.ast is not None:
                self._by_ast.setdefault(id(n.ast), []).append(n)
        self._dom = None

    # ---- construction
    def _new(self, kind, ast_=None, label="") -> Node:
        n = Node(len(self.nodes), kind, ast_, label)
        self.nodes.append(n)
        self.succ[n.id] = []
        self.pred[n.id] = []
        return n

    def _edge(self, a: int, b: int, label: str) -> None:
        if b is None:
            return
        if (b, label) not in self.succ[a]:
            self.succ[a].append((b, label))
            self.pred[b].append((a, label))

    def _raises(self, node: ast.AST, ctx) -> bool:
        """may the evaluation of `node` raise?  By default calls (and raise / assert) do.  Directly inside the body of a
        `try` that has handlers the author says more can: a subscript, an attribute read, arithmetic, an import or an
        unpacking there gets its exception edge to the handlers as well (`try: x = d[k]` / `except KeyError:`)."""
        if self.may_raise(node):
            return True
        if ctx.get("in_try") and self.may_raise is _may_raise_default:
            for n in [node, *walk_local(node)]:
                if isinstance(n, (ast.Subscript, ast.Attribute, ast.BinOp, ast.Import, ast.ImportFrom, ast.Starred, ast.Tuple, ast.Delete, ast.UnaryOp)):
                    return True
        return False

    def _build_block(self, stmts: List[ast.stmt], succ: int, ctx) -> int:
        for st in reversed(stmts):
            succ = self._build_stmt(st, succ, ctx)
        return succ

    def _simple(self, st, succ, ctx, kind="stmt") -> int:
        if kind == "stmt" and isinstance(st, ast.Assign) and len(st.targets) == 1 and isinstance(st.targets[0], ast.Name) \
                and st.targets[0].id in self._named and self._named[st.targets[0].id] is st.value:
            kind = "cond"  # only names a condition (see _named_conditions)
        n = self._new(kind, st)
        self._edge(n.id, succ, "")
        if self._raises(st, ctx):
            self._edge(n.id, ctx["exc"], "exc")
        return n.id

    def _named_conditions(self) -> Dict[str, ast.expr]:
        """locals that only NAME a condition: bound exactly once, by `name = <comparison / boolean expression / not ... /
        call / attribute>`, and every read of the name stands in test position (the test of an if / while / conditional expression /
        assert, possibly under and / or / not).  `ok = a and not b` ... `if ok:` is then built exactly like
        `if a and not b:`, and the assignment is a node of kind "cond", not "stmt": rules see the same tests, guards and
        statements whether or not a condition was given a name."""
        defs: Dict[str, List[ast.expr]] = {}
        a = getattr(self.fn, "args", None)
        params = {p.arg for p in (a.posonlyargs + a.args + a.kwonlyargs)} if a is not None else set()
        if a is not None:
            params |= {x.arg for x in (a.vararg, a.kwarg) if x is not None}
        stores: Dict[str, int] = {}
        for x in ast.walk(self.fn):
            if isinstance(x, ast.Name) and isinstance(x.ctx, (ast.Store, ast.Del)):
                stores[x.id] = stores.get(x.id, 0) + 1
            if isinstance(x, ast.Assign) and len(x.targets) == 1 and isinstance(x.targets[0], ast.Name) \
                    and isinstance(x.value, (ast.Compare, ast.BoolOp, ast.UnaryOp, ast.Call, ast.Attribute)) \
                    and not (isinstance(x.value, ast.UnaryOp) and not isinstance(x.value.op, ast.Not)):
                defs.setdefault(x.targets[0].id, []).append(x.value)
        cand = {n: v[0] for n, v in defs.items() if len(v) == 1 and stores.get(n) == 1 and n not in params}
        if not cand:
            return {}
        in_test: Dict[str, int] = {n: 0 for n in cand}
        loads: Dict[str, int] = {n: 0 for n in cand}

        def mark(e):
            if isinstance(e, ast.BoolOp):
                for v in e.values:
                    mark(v)
            elif isinstance(e, ast.UnaryOp) and isinstance(e.op, ast.Not):
                mark(e.operand)
            elif isinstance(e, ast.Name) and e.id in in_test:
                in_test[e.id] += 1

        for x in ast.walk(self.fn):
            if isinstance(x, ast.Name) and isinstance(x.ctx, ast.Load) and x.id in loads:
                loads[x.id] += 1
            if isinstance(x, (ast.If, ast.While, ast.IfExp, ast.Assert)):
                mark(x.test)
        # a call result is a condition only when it is used as one and nowhere else; the others likewise
        return {n: v for n, v in cand.items() if loads[n] > 0 and loads[n] == in_test[n]}

    def _cond(self, expr: ast.expr, t: int, f: int, ctx) -> int:
        if isinstance(expr, ast.Name) and expr.id in self._named and not getattr(self, "_expanding", set()) & {expr.id}:
            self._expanding = getattr(self, "_expanding", set()) | {expr.id}
            try:
                return self._cond(self._named[expr.id], t, f, ctx)
            finally:
                self._expanding = self._expanding - {expr.id}
        if isinstance(expr, ast.BoolOp):
            vals = expr.values
            if isinstance(expr.op, ast.And):
                nxt = t
                for v in reversed(vals):
                    nxt = self._cond(v, nxt, f, ctx)
                return nxt
            else:
                nxt = f
                for v in reversed(vals):
                    nxt = self._cond(v, t, nxt, ctx)
                return nxt
        if isinstance(expr, ast.UnaryOp) and isinstance(expr.op, ast.Not):
            return self._cond(expr.operand, f, t, ctx)
        n = self._new("test", expr)
        self._edge(n.id, t, "true")
        self._edge(n.id, f, "false")
        if self._raises(expr, ctx):
            self._edge(n.id, ctx["exc"], "exc")
        return n.id

    def _build_stmt(self, st: ast.stmt, succ: int, ctx) -> int:
        if isinstance(st, ast.If):
            b = self._build_block(st.body, succ, ctx)
            o = self._build_block(st.orelse, succ, ctx) if st.orelse else succ
            return self._cond(st.test, b, o, ctx)
        if isinstance(st, ast.While):
            head = self._new("loop", st, "while")
            o = self._build_block(st.orelse, succ, ctx) if st.orelse else succ
            lctx = dict(ctx, brk=succ, cont=head.id)
            b = self._build_block(st.body, head.id, lctx)
            c = self._cond(st.test, b, o, ctx)
            self._edge(head.id, c, "")
            return head.id
        if isinstance(st, (ast.For, ast.AsyncFor)):
            it = self._new("stmt", st.iter, "iter")
            if self._raises(st.iter, ctx):
                self._edge(it.id, ctx["exc"], "exc")
            head = self._new("loop", st, "for")
            self._edge(it.id, head.id, "")
            # advancing an iterator may raise too (generators)
            self._edge(head.id, ctx["exc"], "exc")
            o = self._build_block(st.orelse, succ, ctx) if st.orelse else succ
            lctx = dict(ctx, brk=succ, cont=head.id)
            b = self._build_block(st.body, head.id, lctx)
            self._edge(head.id, b, "true")
            self._edge(head.id, o, "false")
            return it.id
        if isinstance(st, (ast.With, ast.AsyncWith)):
            n = self._new("with", st)
            b = self._build_block(st.body, succ, ctx)
            self._edge(n.id, b, "")
            self._edge(n.id, ctx["exc"], "exc")
            return n.id
        if isinstance(st, (ast.Try, getattr(ast, "TryStar", ast.Try))):
            return self._build_try(st, succ, ctx)
        if isinstance(st, ast.Return):
            n = self._new("stmt", st)
            self._edge(n.id, ctx["ret"], "return")
            if st.value is not None and self._raises(st.value, ctx):
                self._edge(n.id, ctx["exc"], "exc")
            return n.id
        if isinstance(st, ast.Raise):
            n = self._new("stmt", st)
            self._edge(n.id, ctx["exc"], "raise")
            return n.id
        if isinstance(st, ast.Break):
            n = self._new("stmt", st)
            self._edge(n.id, ctx["brk"], "break")
            return n.id
        if isinstance(st, ast.Continue):
            n = self._new("stmt", st)
            self._edge(n.id, ctx["cont"], "continue")
            return n.id
        if hasattr(ast, "Match") and isinstance(st, ast.Match):
            n = self._new("stmt", st.subject, "match")
            if self._raises(st.subject, ctx):
                self._edge(n.id, ctx["exc"], "exc")
            for case in st.cases:
                b = self._build_block(case.body, succ, ctx)
                self._edge(n.id, b, "case")
            self._edge(n.id, succ, "nomatch")
            return n.id
        if isinstance(st, (ast.FunctionDef, ast.AsyncFunctionDef, ast.ClassDef)):
            n = self._new("stmt", st, "def")
            self._edge(n.id, succ, "")
            return n.id
        return self._simple(st, succ, ctx)

    def _build_try(self, st, succ, ctx) -> int:
        memo: Dict[Tuple[str, int], int] = {}

        def fin(kind: str, target: Optional[int]) -> Optional[int]:
            if target is None:
                return None
            if not st.finalbody:
                return target
            key = (kind, target)
            if key not in memo:
                j = self._new("finally", st, kind)
                b = self._build_block(st.finalbody, target, ctx)
                self._edge(j.id, b, "")
                memo[key] = j.id
            return memo[key]

        inner = {
            "exc": fin("exc", ctx["exc"]),
            "ret": fin("ret", ctx["ret"]),
            "brk": fin("brk", ctx["brk"]),
            "cont": fin("cont", ctx["cont"]),
            "in_try": ctx.get("in_try", False),
        }
        after = fin("normal", succ)
        if st.handlers:
            d = self._new("dispatch", st)
            catch_all = False
            for h in st.handlers:
                hn = self._new("handler", h)
                hb = self._build_block(h.body, after, inner)
                self._edge(hn.id, hb, "")
                self._edge(d.id, hn.id, "catch")
                names = handler_names(h)
                if not names or (set(names) & CATCH_ALL):
                    catch_all = True
            if not catch_all:
                self._edge(d.id, inner["exc"], "exc")
            body_exc = d.id
        else:
            body_exc = inner["exc"]
        o = self._build_block(st.orelse, after, inner) if st.orelse else after
        bctx = dict(inner, exc=body_exc, in_try=bool(st.handlers))
        return self._build_block(st.body, o, bctx)

    # ---- lookup
    def nodes_for(self, a: ast.AST) -> List[Node]:
        return self._by_ast.get(id(a), [])

    def node_of_stmt(self, a: ast.AST) -> Optional[Node]:
        ns = self.nodes_for(a)
        return ns[0] if ns else None

    def find_nodes(self, pred: Callable[[Node], bool]) -> List[Node]:
        return [n for n in self.nodes if pred(n)]

    def node_containing(self, sub: ast.AST) -> List[Node]:
        """CFG nodes whose ast contains `sub` (by identity)."""
        out = []
        for n in self.nodes:
            if n.ast is None or n.kind in ("loop", "with", "dispatch", "handler", "finally"):
                if n.kind == "with" and any(sub is x for it in n.ast.items for x in ast.walk(it)):
                    out.append(n)
                continue
            if n.ast is sub or any(sub is x for x in ast.walk(n.ast)):
                out.append(n)
        return out

    # ---- reachability
    def reachable(self, start: int, avoid_nodes: Iterable[int] = (), avoid_edges: Iterable[Tuple[int, int, str]] = (),
                  labels: Optional[Set[str]] = None) -> Set[int]:
        avoid_nodes = set(avoid_nodes)
        avoid_edges = set(avoid_edges)
        seen = set()
        todo = [start]
        while todo:
            a = todo.pop()
            if a in seen or a in avoid_nodes:
                continue
            seen.add(a)
            for b, lab in self.succ[a]:
                if (a, b, lab) in avoid_edges:
                    continue
                if labels is not None and lab not in labels:
                    continue
                todo.append(b)
        return seen

    def exists_path(self, a: int, b: int, avoiding: Iterable[int] = ()) -> bool:
        # paths of length >= 1
        avoiding = set(avoiding)
        seen = set()
        todo = [x for x, _ in self.succ[a]]
        while todo:
            n = todo.pop()
            if n == b:
                return True
            if n in seen or n in avoiding:
                continue
            seen.add(n)
            todo.extend(x for x, _ in self.succ[n])
        return False

    def path(self, a: int, b: int, avoiding: Iterable[int] = ()) -> Optional[List[int]]:
        """Shortest path a -> b (node ids) avoiding the given nodes."""
        from collections import deque

        avoiding = set(avoiding)
        prev = {a: None}
        dq = deque([a])
        while dq:
            n = dq.popleft()
            for m, _ in self.succ[n]:
                if m in prev or (m in avoiding and m != b):
                    continue
                prev[m] = n
                if m == b:
                    out = [m]
                    while prev[out[-1]] is not None:
                        out.append(prev[out[-1]])
                    return list(reversed(out))
                dq.append(m)
        return None

    def describe_path(self, ids: List[int], rel: str = "") -> List[str]:
        out = []
        for i in ids:
            n = self.nodes[i]
            if n.ast is not None:
                out.append(f"{rel}:{n.lineno} {n.kind}{' ' + n.label if n.label else ''}")
            else:
                out.append(n.kind)
        return out

    # ---- domination
    def dominators(self) -> Dict[int, Set[int]]:
        if self._dom is not None:
            return self._dom
        reach = self.reachable(self.entry.id)
        allset = set(reach)
        dom = {n: set(allset) for n in reach}
        dom[self.entry.id] = {self.entry.id}
        changed = True
        order = sorted(reach)
        while changed:
            changed = False
            for n in order:
                if n == self.entry.id:
                    continue
                ps = [p for p, _ in self.pred[n] if p in reach]
                new = set.intersection(*(dom[p] for p in ps)) if ps else set()
                new = new | {n}
                if new != dom[n]:
                    dom[n] = new
                    changed = True
        self._dom = dom
        return dom

    def dominated_by(self, node: int, pred: Callable[[Node], bool]) -> bool:
        dom = self.dominators().get(node, set())
        return any(pred(self.nodes[d]) for d in dom if d != node)

    def must_pass_through(self, src: int, dst: int, pred: Callable[[Node], bool]) -> bool:
        """True iff every path src -> dst passes through a node satisfying pred
        (vacuously true if dst unreachable)."""
        avoid = [n.id for n in self.nodes if pred(n) and n.id not in (src, dst)]
        if pred(self.nodes[src]):
            return True
        return dst not in self.reachable(src, avoid_nodes=avoid)

    def guards(self, node: int) -> List[Tuple[ast.expr, bool]]:
        """Atomic conditions (test expr, polarity) that hold on every path from
        entry to `node`: removing the edge (test, polarity) makes node unreachable."""
        out = []
        full = self.reachable(self.entry.id)
        if node not in full:
            return out
        for t in self.nodes:
            if t.kind != "test" or t.id not in full:
                continue
            for b, lab in self.succ[t.id]:
                if lab not in ("true", "false"):
                    continue
                # remove all other outgoing edges => node must only be reachable via this edge?
                # definition: every path to node uses edge (t, lab)
                r = self.reachable(self.entry.id, avoid_edges=[(t.id, b, lab)])
                if node not in r:
                    out.append((t.ast, lab == "true"))
        # a test on a boolean local that names a condition (`ok = a and not b` ... `if ok:`): add the facts the named
        # condition implies, so that rules see the same guards whether or not the condition was given a name
        extra = []
        # the other direction: a test that IS the definition of a named condition also states the name
        rev = {id(v): n for n, v in self._named.items()}
        for t, pol in out:
            if id(t) in rev:
                extra.append((ast.copy_location(ast.Name(id=rev[id(t)], ctx=ast.Load()), t), pol))
        for t, pol in out:
            if isinstance(t, ast.Name):
                d = self._single_definition(t.id)
                if d is not None:
                    extra.extend(self._facts(d, pol))
        return out + extra

    def is_named_condition(self, t: ast.AST) -> bool:
        """a guard that is only the NAME of a condition whose facts guards() has already added"""
        return isinstance(t, ast.Name) and self._single_definition(t.id) is not None

    def _single_definition(self, name: str) -> Optional[ast.expr]:
        if not hasattr(self, "_defs"):
            self._defs = {}
            for x in ast.walk(self.fn):
                if isinstance(x, (ast.Assign, ast.AnnAssign, ast.AugAssign, ast.For, ast.comprehension, ast.NamedExpr, ast.withitem)):
                    tgts = x.targets if isinstance(x, ast.Assign) else [getattr(x, "target", None) or getattr(x, "optional_vars", None)]
                    for tg in tgts:
                        for nm in ast.walk(tg) if tg is not None else ():
                            if isinstance(nm, ast.Name):
                                val = x.value if isinstance(x, ast.Assign) and len(x.targets) == 1 and isinstance(tg, ast.Name) else None
                                self._defs.setdefault(nm.id, []).append(val)
            a = getattr(self.fn, "args", None)
            if a is not None:
                for p in a.posonlyargs + a.args + a.kwonlyargs + ([a.vararg] if a.vararg else []) + ([a.kwarg] if a.kwarg else []):
                    self._defs.setdefault(p.arg, []).append(None)
        ds = self._defs.get(name, [])
        if len(ds) == 1 and ds[0] is not None and not isinstance(ds[0], ast.Constant):
            return ds[0]
        return None

    def _facts(self, e: ast.expr, pol: bool, depth: int = 0) -> List[Tuple[ast.expr, bool]]:
        if depth > 4:
            return []
        if isinstance(e, ast.UnaryOp) and isinstance(e.op, ast.Not):
            return self._facts(e.operand, not pol, depth + 1)
        if isinstance(e, ast.BoolOp):
            if (isinstance(e.op, ast.And) and pol) or (isinstance(e.op, ast.Or) and not pol):
                out = []
                for v in e.values:
                    out.extend(self._facts(v, pol, depth + 1))
                return out
            return [(e, pol)]
        if isinstance(e, ast.Name):
            d = self._single_definition(e.id)
            return [(e, pol)] + (self._facts(d, pol, depth + 1) if d is not None else [])
        return [(e, pol)]

    def loop_guards(self, node: int) -> List[ast.AST]:
        """Loop statements whose body contains node on every path (for-loop 'true' edges)."""
        out = []
        for t in self.nodes:
            if t.kind != "loop" or t.label != "for":
                continue
            for b, lab in self.succ[t.id]:
                if lab == "true":
                    r = self.reachable(self.entry.id, avoid_edges=[(t.id, b, lab)])
                    if node not in r:
                        out.append(t.ast)
        return out


def handler_names(h: ast.ExceptHandler) -> List[str]:
    """Exception class names (last dotted component kept whole as written)."""
    from .core import dotted

    if h.type is None:
        return []
    elts = h.type.elts if isinstance(h.type, ast.Tuple) else [h.type]
    return [dotted(e) or "?" for e in elts]
