"""Static analysis of python-rope/rope: repository-specific checkers.

Everything in this package decides properties from the *source text* of the
working tree under $VERIF_REPO (default /repo), parsed with the stdlib `ast`
module on every run.  rope itself is never imported or executed.
"""
