"""E2: call graph over rope with the resolution scheme of DESIGN.md section 2.

Exact where the code says so (imports, constructors, super(), self.m through the
class hierarchy, attribute/local types from constructor assignments), and an
arity-filtered by-name over-approximation elsewhere.
"""
from __future__ import annotations

import ast
from dataclasses import dataclass, field
from typing import Dict, Iterable, List, Optional, Set, Tuple

from .core import ClassInfo, FuncInfo, Index, call_name, dotted, is_self_attr, walk_local

BUILTIN_CONTAINER_METHODS = {
    "append", "extend", "insert", "pop", "remove", "clear", "sort", "reverse", "index", "count", "copy",
    "add", "discard", "update", "union", "intersection", "difference", "get", "keys", "values", "items",
    "setdefault", "popitem", "join", "split", "strip", "startswith", "endswith", "replace", "format",
    "encode", "decode", "lower", "upper", "find", "rfind", "rindex", "splitlines", "isdigit", "lstrip", "rstrip",
    "read", "write", "close", "seek", "tell", "readline", "readlines", "flush", "group", "start", "end", "span",
    "match", "search", "finditer", "sub", "isalnum", "isalpha", "isspace", "isidentifier", "partition", "rpartition",
    "title", "capitalize", "expandtabs", "ljust", "rjust", "zfill", "center", "fileno", "issubset", "issuperset",
}


SINK_COLLIDING = {"write", "remove", "move", "create", "close"}


@dataclass
class CallSite:
    caller: str
    node: ast.AST  # ast.Call or ast.Attribute (property read)
    targets: List[str]
    how: str  # exact | cha | attrtype | byname | property


class CallGraph:
    def __init__(self, idx: Index):
        self.idx = idx
        self.sites: Dict[str, List[CallSite]] = {}
        self.edges: Dict[str, Set[str]] = {}
        self.methods_by_name: Dict[str, List[FuncInfo]] = {}
        self.props_by_name: Dict[str, List[FuncInfo]] = {}
        self.attr_types: Dict[Tuple[str, str], Set[str]] = {}  # (class, attr) -> class quals
        for f in idx.functions.values():
            if f.cls is not None:
                self.methods_by_name.setdefault(f.name, []).append(f)
                decs = f.decorator_names()
                if any(d.split(".")[-1] in ("property", "cached_property") for d in decs):
                    self.props_by_name.setdefault(f.name, []).append(f)
        self._collect_attr_types()
        for f in list(idx.functions.values()):
            self._scan(f)

    # ---- attribute types
    def _collect_attr_types(self) -> None:
        for c in self.idx.classes.values():
            for m in c.methods.values():
                ann = {}
                a = m.node.args
                for p in a.posonlyargs + a.args + a.kwonlyargs:
                    if p.annotation is not None:
                        t = self._class_of_expr(c.unit.modname, p.annotation)
                        if t:
                            ann[p.arg] = t
                for n in walk_local(m.node):
                    if isinstance(n, ast.Assign):
                        for t in n.targets:
                            if is_self_attr(t):
                                k = self._ctor_class(c.unit.modname, n.value)
                                if k is None and isinstance(n.value, ast.Name) and n.value.id in ann:
                                    k = ann[n.value.id]
                                if k:
                                    self.attr_types.setdefault((c.qualname, t.attr), set()).add(k)
                                else:
                                    self.attr_types.setdefault((c.qualname, t.attr), set()).add("?")

    def _class_of_expr(self, modname: str, e: ast.AST) -> Optional[str]:
        if isinstance(e, ast.Constant) and isinstance(e.value, str):
            q = self.idx.resolve_dotted(modname, e.value)
        else:
            q = self.idx.resolve(modname, e)
        return q if q in self.idx.classes else None

    def _ctor_class(self, modname: str, e: ast.AST) -> Optional[str]:
        if isinstance(e, ast.Call):
            q = self.idx.resolve(modname, e.func)
            if q in self.idx.classes:
                return q
        return None

    def attr_type(self, cls: str, attr: str) -> Optional[Set[str]]:
        """Classes an attribute may hold, if every assignment in the hierarchy is a known constructor."""
        out: Set[str] = set()
        found = False
        for q in self.idx.mro(cls) + self.idx.subclasses(cls):
            s = self.attr_types.get((q, attr))
            if s:
                found = True
                out |= s
        if not found or "?" in out:
            return None
        return out

    # ---- scanning
    def _scan(self, f: FuncInfo) -> None:
        idx = self.idx
        mod = f.unit.modname
        sites: List[CallSite] = []
        cls = f.cls
        if cls is None and f.parent is not None:
            # nested function inside a method: self refers to enclosing method's class
            p = f.parent
            while p is not None and p.cls is None:
                p = p.parent
            cls = p.cls if p is not None else None
        # local variable constructor types (flow-insensitive; all assignments must agree)
        local_types: Dict[str, Set[str]] = {}
        for n in walk_local(f.node):
            if isinstance(n, ast.Assign):
                for t in n.targets:
                    if isinstance(t, ast.Name):
                        k = self._ctor_class(mod, n.value)
                        local_types.setdefault(t.id, set()).add(k or "?")
            elif isinstance(n, (ast.For, ast.AsyncFor, ast.comprehension)):
                for t in ast.walk(n.target):
                    if isinstance(t, ast.Name):
                        local_types.setdefault(t.id, set()).add("?")
            elif isinstance(n, (ast.With, ast.AsyncWith)):
                for it in n.items:
                    if it.optional_vars is not None:
                        for t in ast.walk(it.optional_vars):
                            if isinstance(t, ast.Name):
                                local_types.setdefault(t.id, set()).add("?")
            elif isinstance(n, ast.NamedExpr) and isinstance(n.target, ast.Name):
                local_types.setdefault(n.target.id, set()).add("?")
        for p in f.node.args.posonlyargs + f.node.args.args + f.node.args.kwonlyargs:
            if p.annotation is not None:
                t = self._class_of_expr(mod, p.annotation)
                local_types.setdefault(p.arg, set()).add(t or "?")
            else:
                local_types.setdefault(p.arg, set()).add("?")
        nested = {x.name: x for x in self.idx.functions.values() if x.parent is f}

        for n in walk_local(f.node):
            if isinstance(n, ast.Call):
                sites.append(self._resolve_call(f, cls, mod, n, local_types, nested))
            elif isinstance(n, ast.Attribute) and isinstance(n.ctx, ast.Load):
                s = self._resolve_prop(f, cls, n, local_types)
                if s:
                    sites.append(s)
        # decorators of rope wrap the function: model as f -> wrapper inner defs
        for d in getattr(f.node, "decorator_list", []):
            dq = idx.resolve(mod, d.func if isinstance(d, ast.Call) else d)
            if dq in idx.functions:
                inner = [x.qualname for x in idx.functions.values() if x.parent is idx.functions[dq]]
                sites.append(CallSite(f.qualname, d, [dq] + inner, "exact"))
        self.sites[f.qualname] = sites
        self.edges[f.qualname] = {t for s in sites for t in s.targets}

    def _ctor_targets(self, q: str) -> List[str]:
        out = []
        for m in ("__init__", "__new__", "__call__x"):
            fi = self.idx.find_method(q, m)
            if fi:
                out.append(fi.qualname)
        return out

    def _cha(self, cls_q: str, name: str) -> List[str]:
        out = []
        fi = self.idx.find_method(cls_q, name)
        if fi:
            out.append(fi.qualname)
        for s in self.idx.subclasses(cls_q):
            c = self.idx.classes[s]
            if name in c.methods:
                out.append(c.methods[name].qualname)
        return out

    def _arity_ok(self, fi: FuncInfo, call: ast.Call) -> bool:
        a = fi.node.args
        if any(isinstance(x, ast.Starred) for x in call.args) or any(k.arg is None for k in call.keywords):
            return True
        params = a.posonlyargs + a.args
        is_static = any(d.split(".")[-1] == "staticmethod" for d in fi.decorator_names())
        npos = len(params) - (0 if is_static or fi.cls is None else 1)
        nreq = npos - len(a.defaults)
        given = len(call.args)
        kw = {k.arg for k in call.keywords}
        names = {p.arg for p in params} | {p.arg for p in a.kwonlyargs}
        if given > npos and a.vararg is None:
            return False
        if kw - names and a.kwarg is None:
            return False
        if given + len(kw) < nreq:
            return False
        return True

    def _byname(self, name: str, call: ast.Call) -> List[str]:
        if name.startswith("__") and name.endswith("__"):
            return []
        # method names of str / list / dict / set / file / re objects: a by-name edge from such a call to a rope
        # method of the same name is almost always spurious (pattern.search -> AutoImport.search).  The names that
        # are also effect sinks (write, remove, move, ...) are kept; C09 filters them by receiver evidence.
        if name in BUILTIN_CONTAINER_METHODS and name not in SINK_COLLIDING:
            return []
        return [m.qualname for m in self.methods_by_name.get(name, []) if self._arity_ok(m, call)]

    def _resolve_call(self, f, cls, mod, n: ast.Call, local_types, nested) -> CallSite:
        idx = self.idx
        fn = n.func
        q = f.qualname
        if isinstance(fn, ast.Name):
            if fn.id in nested:
                return CallSite(q, n, [nested[fn.id].qualname], "exact")
            # enclosing function's nested siblings
            p = f.parent
            while p is not None:
                sib = [x for x in idx.functions.values() if x.parent is p and x.name == fn.id]
                if sib:
                    return CallSite(q, n, [sib[0].qualname], "exact")
                p = p.parent
            r = idx.resolve_dotted(mod, fn.id)
            if r in idx.functions:
                return CallSite(q, n, [r], "exact")
            if r in idx.classes:
                return CallSite(q, n, self._ctor_targets(r), "exact")
            lt = local_types.get(fn.id)
            if lt:  # calling a local/parameter value: unknown callable
                return CallSite(q, n, [], "unknown")
            return CallSite(q, n, [], "builtin")
        if isinstance(fn, ast.Attribute):
            name = fn.attr
            recv = fn.value
            # super().m()
            if isinstance(recv, ast.Call) and isinstance(recv.func, ast.Name) and recv.func.id == "super" and cls:
                for b in idx.mro(cls.qualname)[1:]:
                    c = idx.classes.get(b)
                    if c and name in c.methods:
                        return CallSite(q, n, [c.methods[name].qualname], "exact")
                return CallSite(q, n, [], "external")
            # self.m()
            if isinstance(recv, ast.Name) and recv.id in ("self", "cls") and cls:
                t = self._cha(cls.qualname, name)
                if t:
                    return CallSite(q, n, t, "cha")
                at = self.attr_type(cls.qualname, name)
                if at:
                    return CallSite(q, n, [x for k in at for x in self._cha(k, "__call__")], "attrtype")
                # attribute holding a callable / unknown
                return CallSite(q, n, self._byname(name, n) if (cls.qualname, name) not in self.attr_types else [], "byname")
            # self.attr.m()
            if is_self_attr(recv) and cls:
                at = self.attr_type(cls.qualname, recv.attr)
                if at:
                    t = [x for k in at for x in self._cha(k, name)]
                    return CallSite(q, n, t, "attrtype")
            # local typed variable
            if isinstance(recv, ast.Name):
                lt = local_types.get(recv.id)
                if lt and "?" not in lt and None not in lt:
                    t = [x for k in lt for x in self._cha(k, name)]
                    return CallSite(q, n, t, "attrtype")
            # dotted resolution: module.func / module.Class / Class.method
            d = dotted(fn)
            if d:
                head = d.split(".")[0]
                if head not in local_types or head in idx.imports.get(mod, {}):
                    r = idx.resolve_dotted(mod, d)
                    if r in idx.functions:
                        return CallSite(q, n, [r], "exact")
                    if r in idx.classes:
                        return CallSite(q, n, self._ctor_targets(r), "exact")
                    if r is not None:
                        cq, _, m = r.rpartition(".")
                        if cq in idx.classes:
                            fi = idx.find_method(cq, m)
                            if fi:
                                return CallSite(q, n, [fi.qualname], "exact")
                        rm = r.split(".")[0]
                        # call into a non-rope module (os.path.join, re.compile ...)
                        if head in idx.imports.get(mod, {}) and not r.startswith(idx.package + "."):
                            return CallSite(q, n, [], "external")
                        if head in idx.imports.get(mod, {}) and r.rpartition(".")[0] in idx.units:
                            return CallSite(q, n, [], "unresolved-module-attr")
            # ClassCall(...).m()
            if isinstance(recv, ast.Call):
                k = self._ctor_class(mod, recv)
                if k:
                    return CallSite(q, n, self._cha(k, name), "attrtype")
            return CallSite(q, n, self._byname(name, n), "byname")
        return CallSite(q, n, [], "unknown")

    def _resolve_prop(self, f, cls, n: ast.Attribute, local_types) -> Optional[CallSite]:
        name = n.attr
        if name not in self.props_by_name:
            return None
        if isinstance(n.value, ast.Name) and n.value.id == "self" and cls:
            fi = self.idx.find_method(cls.qualname, name)
            t = []
            if fi and fi in self.props_by_name[name]:
                t.append(fi.qualname)
            for s in self.idx.subclasses(cls.qualname):
                c = self.idx.classes[s]
                if name in c.methods and c.methods[name] in self.props_by_name[name]:
                    t.append(c.methods[name].qualname)
            return CallSite(f.qualname, n, t, "property") if t else None
        if is_self_attr(n.value) and cls:
            at = self.attr_type(cls.qualname, n.value.attr)
            if at:
                t = []
                for k in at:
                    fi = self.idx.find_method(k, name)
                    if fi and fi in self.props_by_name[name]:
                        t.append(fi.qualname)
                return CallSite(f.qualname, n, t, "property") if t else None
        return CallSite(f.qualname, n, [p.qualname for p in self.props_by_name[name]], "property")

    # ---- queries
    def reach(self, starts: Iterable[str], stop: Optional[Set[str]] = None) -> Dict[str, Optional[str]]:
        """BFS; returns predecessor map (for path reconstruction)."""
        from collections import deque

        prev: Dict[str, Optional[str]] = {}
        dq = deque()
        for s in starts:
            if s not in prev:
                prev[s] = None
                dq.append(s)
        while dq:
            a = dq.popleft()
            if stop and a in stop:
                continue
            for b in sorted(self.edges.get(a, ())):
                if b not in prev:
                    prev[b] = a
                    dq.append(b)
        return prev

    @staticmethod
    def path_to(prev: Dict[str, Optional[str]], target: str) -> List[str]:
        out = [target]
        while prev.get(out[-1]) is not None:
            out.append(prev[out[-1]])
        return list(reversed(out))

    def stats(self) -> dict:
        how: Dict[str, int] = {}
        n = 0
        for ss in self.sites.values():
            for s in ss:
                if isinstance(s.node, ast.Call):
                    how[s.how] = how.get(s.how, 0) + 1
                    n += 1
        return {"functions": len(self.sites), "call_sites": n, "edges": sum(len(v) for v in self.edges.values()),
                "resolution": how}


def get(ctx) -> CallGraph:
    return ctx.memo("callgraph", lambda: CallGraph(ctx.idx))
