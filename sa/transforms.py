"""Behaviour-preserving whole-tree AST transformations used by the thorough tier (sa/selftest.py) and by
tools/robustness_transforms.py.  Each rewrites EVERY applicable site of a module:
  swap-if-else      `if c: A else: B`            ->  `if not c: B else: A`      (plain if/else only)
  else-after-return `if c: ...return else: B`    ->  `if c: ...return` ; B
  split-and         `if a and b: X` (no else)    ->  `if a:` / `if b: X`
  name-the-test     `if <compound test>:`        ->  `cond_k = <test>` ; `if cond_k:`
A verdict that changes under one of them depends on how the code is written, not on what it does.  (name-the-test
joined the thorough tier when the CFG learnt to read named conditions in place, DESIGN section 21.2.)"""
from __future__ import annotations

import ast


def terminates(body):
    return bool(body) and isinstance(body[-1], (ast.Return, ast.Raise, ast.Continue, ast.Break))


class Swap(ast.NodeTransformer):
    n = 0

    def visit_If(self, node):
        self.generic_visit(node)
        if node.orelse and not (len(node.orelse) == 1 and isinstance(node.orelse[0], ast.If)):
            Swap.n += 1
            t = node.test
            nt = t.operand if isinstance(t, ast.UnaryOp) and isinstance(t.op, ast.Not) else ast.UnaryOp(op=ast.Not(), operand=t)
            return ast.If(test=nt, body=node.orelse, orelse=node.body)
        return node


class ElseAfterReturn(ast.NodeTransformer):
    n = 0

    def _fix(self, stmts):
        out = []
        for st in stmts:
            if isinstance(st, ast.If) and st.orelse and terminates(st.body) and not (len(st.orelse) == 1 and isinstance(st.orelse[0], ast.If)):
                ElseAfterReturn.n += 1
                out.append(ast.If(test=st.test, body=st.body, orelse=[]))
                out.extend(st.orelse)
            else:
                out.append(st)
        return out

    def generic_visit(self, node):
        super().generic_visit(node)
        for f in ("body", "orelse", "finalbody"):
            v = getattr(node, f, None)
            if isinstance(v, list) and v and isinstance(v[0], ast.stmt):
                setattr(node, f, self._fix(v))
        return node


class NameTheTest(ast.NodeTransformer):
    """`if <compound test>: ...`  ->  `cond_k = <compound test>` ; `if cond_k: ...`   (the test is evaluated at the same
    point; only for plain `if` statements, never `while`)"""
    n = 0

    def _fix(self, stmts):
        out = []
        for st in stmts:
            if isinstance(st, ast.If) and not isinstance(st.test, (ast.Name, ast.Constant)):
                NameTheTest.n += 1
                nm = f"cond_{NameTheTest.n}"
                out.append(ast.Assign(targets=[ast.Name(id=nm, ctx=ast.Store())], value=st.test, lineno=st.lineno))
                out.append(ast.If(test=ast.Name(id=nm, ctx=ast.Load()), body=st.body, orelse=st.orelse))
            else:
                out.append(st)
        return out

    def generic_visit(self, node):
        super().generic_visit(node)
        for f in ("body", "orelse", "finalbody"):
            v = getattr(node, f, None)
            if isinstance(v, list) and v and isinstance(v[0], ast.stmt):
                setattr(node, f, self._fix(v))
        return node


class SplitAnd(ast.NodeTransformer):
    """`if a and b: X` (no else)  ->  `if a:` / `    if b: X`"""
    n = 0

    def visit_If(self, node):
        self.generic_visit(node)
        if not node.orelse and isinstance(node.test, ast.BoolOp) and isinstance(node.test.op, ast.And):
            SplitAnd.n += 1
            inner = node.body
            for v in reversed(node.test.values):
                inner = [ast.If(test=v, body=inner, orelse=[])]
            return inner[0]
        return node



TRANSFORMS = {"swap-if-else": Swap, "else-after-return": ElseAfterReturn, "split-and": SplitAnd, "name-the-test": NameTheTest}


def transform_tree(root: str, kind: str) -> int:
    """rewrite every module under root/rope in place; returns the number of sites transformed"""
    import os
    T = TRANSFORMS[kind]
    T.n = 0
    for d, _, fs in os.walk(os.path.join(root, "rope")):
        for f in fs:
            if f.endswith(".py"):
                p = os.path.join(d, f)
                t = T().visit(ast.parse(open(p, encoding="utf-8").read()))
                ast.fix_missing_locations(t)
                src = ast.unparse(t) + "\n"
                compile(src, p, "exec")
                open(p, "w", encoding="utf-8").write(src)
    return T.n


# ---------------------------------------------------------------------------------------------------------------------------------
# rename-private: every private function and private class of rope that a rule mentions BY NAME gets another name, consistently in the
# whole tree.  The rules must decide the same: the index recognises a renamed private function / class by its shape (sa/anchors.json,
# core.Index._canonicalise_renamed_anchors).

def names_mentioned_by_rules() -> set:
    """private function and class names of rope that occur as (part of) a string literal of the rule modules"""
    import glob, json, os, re
    here = os.path.dirname(os.path.abspath(__file__))
    pinned = json.load(open(os.path.join(here, "anchors.json")))
    known = {n for owner, names in pinned.items() if owner != "<classes>" for n in names} | {n for names in pinned.get("<classes>", {}).values() for n in names}
    out = set()
    for p in glob.glob(os.path.join(here, "rules", "*.py")) + glob.glob(os.path.join(here, "*.py")):
        if os.path.basename(p) in ("astmut.py", "transforms.py"):
            continue
        for c in ast.walk(ast.parse(open(p, encoding="utf-8").read())):
            if isinstance(c, ast.Constant) and isinstance(c.value, str) and len(c.value) < 200 and re.fullmatch(r"[A-Za-z_][\w.]*", c.value.strip()):
                out |= {part for part in c.value.strip().split(".") if part in known}
    return out


def rename_private_tree(root: str, suffix: str = "_rn") -> int:
    import os
    names = names_mentioned_by_rules()
    n = 0
    for d, _, fs in os.walk(os.path.join(root, "rope")):
        for f in fs:
            if not f.endswith(".py"):
                continue
            p = os.path.join(d, f)
            t = ast.parse(open(p, encoding="utf-8").read())
            for x in ast.walk(t):
                if isinstance(x, (ast.FunctionDef, ast.AsyncFunctionDef, ast.ClassDef)) and x.name in names:
                    x.name += suffix
                    n += 1
                elif isinstance(x, ast.Attribute) and x.attr in names:
                    x.attr += suffix
                elif isinstance(x, ast.Name) and x.id in names:
                    x.id += suffix
            src = ast.unparse(t) + "\n"
            compile(src, p, "exec")
            open(p, "w", encoding="utf-8").write(src)
    return n
