"""Rule instances, known findings, evidence and replay files."""
from __future__ import annotations

import json
import os
import time
from dataclasses import dataclass, field, asdict
from typing import Any, Dict, List, Optional

VERIF = os.path.dirname(os.path.dirname(os.path.abspath(__file__)))
EVIDENCE_DIR = os.path.join(VERIF, "evidence")
REPLAY_DIR = os.path.join(EVIDENCE_DIR, "replay")
KNOWN_FILE = os.path.join(VERIF, "known_findings.jsonl")

OK, FAIL, UNDECIDED = "ok", "fail", "undecided"


@dataclass
class Instance:
    rule: str  # e.g. R10.1
    key: str  # rule + construct, never a line number: "R10.1|ChangeSet.do"
    status: str  # ok | fail | undecided
    where: str  # file:line
    what: str  # one-sentence reason (for fail: what is wrong)
    detail: Dict[str, Any] = field(default_factory=dict)

    def to_json(self):
        return asdict(self)


class Results:
    """Collects rule instances of one property."""

    def __init__(self, prop: str):
        self.prop = prop
        self.instances: List[Instance] = []
        self.notes: List[str] = []
        self.analysed: Dict[str, Any] = {}

    def add(self, rule, construct, ok, where, what, **detail) -> Instance:
        status = OK if ok is True else FAIL if ok is False else UNDECIDED
        inst = Instance(rule, f"{rule}|{construct}", status, where, what, detail)
        self.instances.append(inst)
        return inst

    def ok(self, rule, construct, where, what, **d):
        return self.add(rule, construct, True, where, what, **d)

    def fail(self, rule, construct, where, what, **d):
        return self.add(rule, construct, False, where, what, **d)

    def undecided(self, rule, construct, where, what, **d):
        return self.add(rule, construct, None, where, what, **d)

    def floor(self, rule: str, what: str, got: int, need: int):
        """A rule matching fewer sites than confirmed by hand is analysis-broken."""
        from .core import AnalysisError

        self.analysed[f"floor:{rule}:{what}"] = {"got": got, "need": need}
        if got < need:
            raise AnalysisError(f"floor not met rule={rule} {what}: got {got} < {need}")


def load_known() -> List[dict]:
    out = []
    if os.path.exists(KNOWN_FILE):
        with open(KNOWN_FILE) as f:
            for line in f:
                line = line.strip()
                if line and not line.startswith("#"):
                    out.append(json.loads(line))
    return out


def finish(res: Results, tier: str, seed: int, t0: float, explanation: str, assumptions: List[str],
           extra: Optional[dict] = None, write: bool = True) -> int:
    """Classify instances against the known-findings file, print the
    KNOWN-FINDING / VIOLATION lines, write evidence, return the exit code."""
    known = {k["key"]: k for k in load_known() if k.get("property") == res.prop}
    fails = [i for i in res.instances if i.status == FAIL]
    new, listed = [], []
    for i in fails:
        k = known.get(i.key)
        if k is not None and k.get("status") == "open":
            listed.append((i, k))
        else:
            new.append(i)
    for i, k in listed:
        print(f"KNOWN-FINDING: property={res.prop} {i.key} {k.get('what', i.what)}")
    os.makedirs(REPLAY_DIR, exist_ok=True)
    # clear stale replay files of this property
    for fn in os.listdir(REPLAY_DIR):
        if fn.startswith(res.prop + "-"):
            try:
                os.unlink(os.path.join(REPLAY_DIR, fn))
            except OSError:
                pass
    for n, i in enumerate(new):
        path = os.path.join(REPLAY_DIR, f"{res.prop}-{n}.json")
        with open(path, "w") as f:
            json.dump({"property": res.prop, **i.to_json()}, f, indent=1, default=str)
        print(f"  {i.where}: [{i.rule}] {i.key}: {i.what}")
        print(f"VIOLATION property={res.prop} replay={path}")
    stale = [k for key, k in known.items() if k.get("status") == "open"
             and key not in {i.key for i in fails}]
    for k in stale:
        # An open finding whose instance no longer fails: say so (not an error;
        # the file is never written at run time).
        print(f"NOTE: listed finding no longer fires: property={res.prop} {k['key']}")
    inst = res.instances
    decided = [i for i in inst if i.status != UNDECIDED]
    cov = {
        "explanation": explanation,
        "obligations": len(inst),
        "discharged": len([i for i in inst if i.status == OK]),
        "known": len(listed),
        "undecided": len([i for i in inst if i.status == UNDECIDED]),
        "new_violations": len(new),
        "evaluations": len(inst),
        "distinct_nontrivial": len({i.key for i in decided}),
        "rule": "one evaluation = one rule instance (rule id + construct resolved from the "
                "working tree); non-trivial = decided (ok or fail) on a resolved construct; distinct by key",
        "samples": [i.to_json() for i in (fails[:4] + [i for i in inst if i.status == OK][:8])],
        "rules": sorted({i.rule for i in inst}),
        "per_rule": _per_rule(inst),
        "analysed": res.analysed,
        "notes": res.notes,
        "checker_cmd": f"/venv/bin/python -m sa.run {res.prop} --tier {tier}",
        "trusted_base": ["CPython ast/tokenize/token/re._parser", "oracle tables in sa/grammar.py",
                         "anchor resolution in sa/core.py"],
    }
    if extra:
        cov.update(extra)
    ev = {
        "property_id": res.prop,
        "tier": tier,
        "seed": seed,
        "level": "other",
        "coverage": cov,
        "assumptions": assumptions,
        "wall_s": round(time.time() - t0, 3),
        "violations": len(new),
    }
    if write:
        os.makedirs(EVIDENCE_DIR, exist_ok=True)
        tmp = os.path.join(EVIDENCE_DIR, f".{res.prop}.json.tmp")
        with open(tmp, "w") as f:
            json.dump(ev, f, indent=1, default=str)
        os.replace(tmp, os.path.join(EVIDENCE_DIR, f"{res.prop}.json"))
    return 1 if new else 0


def _per_rule(inst: List[Instance]) -> dict:
    out: Dict[str, Dict[str, int]] = {}
    for i in inst:
        d = out.setdefault(i.rule, {OK: 0, FAIL: 0, UNDECIDED: 0})
        d[i.status] += 1
    return out
