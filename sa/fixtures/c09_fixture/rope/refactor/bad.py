"""Positive fixture for R09.1 (parsed only, never imported): a refactoring whose get_changes performs."""
import os

from rope.base import change


class Bad:
    def __init__(self, project, resource):
        self.project = project
        self.resource = resource

    def get_changes(self):
        changes = change.ChangeSet("bad")
        self._apply(changes)
        return changes

    def _apply(self, changes):
        os.remove(self.resource.real_path)
        changes.do()
