class ChangeSet:
    def __init__(self, description):
        self.changes = []

    def do(self):
        pass
