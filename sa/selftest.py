"""Self-test of the rules (thorough tier), on scratch copies under a temp dir, removed afterwards:
(1) every AST-computed single edit and every kept seeded change that names a rule of the property must produce a NEW
    violation of that rule (sa/mutations.py);
(2) invariance: the (rule key, status) set of the property must be identical on a copy of the tree in which every module
    has been replaced by ast.unparse(ast.parse(source)) -- comments, layout, quoting and line numbers change, behaviour
    does not; and no instance may become fail/undecided (no anchor lost) on copies in which EVERY if/else has its arms
    swapped, every else after a terminating body is flattened, every `if a and b:` is split into nested ifs
    (sa/transforms.py).  A difference means a rule depends on the text's form: a false alarm (or a blind spot) in waiting;
(3) benign refactorings: every kept behaviour-preserving patch (/verif/benign/*/p*.diff, written by sub-agents who were
    asked for clean-up edits of the code that implements a property; the pinned suite passes with each) that touches a
    file this property is anchored in, applied to a scratch copy, must produce NO new fail/undecided instance and no
    lost anchor.  A patch that no longer applies to the working tree is skipped."""
from __future__ import annotations

import ast
import os
import shutil
import tempfile


def _invariance(prop: str) -> dict:
    from . import report
    from .core import repo_root
    from .run import Ctx, load_rules

    def keys(root):
        ctx = Ctx("quick", 0, root=root)
        r = report.Results(prop)
        load_rules(prop).check(ctx, r)
        return sorted((i.key, i.status) for i in r.instances)

    tmp = tempfile.mkdtemp(prefix=f"verif-invariance-{prop}-")
    try:
        shutil.copytree(os.path.join(repo_root(), "rope"), os.path.join(tmp, "rope"), ignore=shutil.ignore_patterns("__pycache__"))
        n = 0
        for d, _, fs in os.walk(os.path.join(tmp, "rope")):
            for f in fs:
                if f.endswith(".py"):
                    p = os.path.join(d, f)
                    src = open(p, encoding="utf-8").read()
                    open(p, "w", encoding="utf-8").write(ast.unparse(ast.parse(src)) + "\n")
                    n += 1
        a, b = keys(None), keys(tmp)
        diff = sorted(set(a) ^ set(b))
        out = {"modules_reformatted": n, "instances": len(a), "differences": [list(x) for x in diff[:10]], "structural": {}}
    finally:
        shutil.rmtree(tmp, ignore_errors=True)
    # structural transformations of the whole tree: instance keys may change, but nothing may become fail/undecided
    from . import transforms
    for kind in ("swap-if-else", "else-after-return", "split-and", "name-the-test", "rename-private"):
        tmp = tempfile.mkdtemp(prefix=f"verif-invariance-{prop}-")
        try:
            shutil.copytree(os.path.join(repo_root(), "rope"), os.path.join(tmp, "rope"), ignore=shutil.ignore_patterns("__pycache__"))
            # rename-private: every private function / class a rule mentions by name is renamed in the whole tree (found again by shape)
            sites = transforms.rename_private_tree(tmp) if kind == "rename-private" else transforms.transform_tree(tmp, kind)
            try:
                new = [list(x) for x in sorted(set(keys(tmp)) - set(a)) if x[1] != "ok"]
            except Exception as e:
                new = [[f"{type(e).__name__}: {str(e)[:160]}", "analysis-error"]]
            out["structural"][kind] = {"sites": sites, "new_alarms": new[:5]}
            out["differences"] += new[:5]
        finally:
            shutil.rmtree(tmp, ignore_errors=True)
    return out


def _anchor_files(prop: str) -> set:
    import json
    from . import report
    for line in open(os.path.join(report.VERIF, "properties.jsonl"), encoding="utf-8"):
        d = json.loads(line)
        if d.get("id") == prop:
            return set((d.get("anchors") or {}).get("files") or [])
    return set()


def _benign_one(args):
    """apply one patch to a scratch copy and return the (key, status) set of the property there (or an error string)"""
    import subprocess
    from . import report
    from .core import repo_root
    from .run import Ctx, load_rules
    prop, path = args
    tmp = tempfile.mkdtemp(prefix=f"verif-benign-{prop}-")
    try:
        shutil.copytree(os.path.join(repo_root(), "rope"), os.path.join(tmp, "rope"), ignore=shutil.ignore_patterns("__pycache__"))
        p = subprocess.run(["patch", "-p1", "-s", "-i", path], cwd=tmp, capture_output=True, text=True)
        if p.returncode != 0:
            return path, None
        try:
            res = report.Results(prop)
            load_rules(prop).check(Ctx("quick", 0, root=tmp), res)
            return path, {(i.key, i.status) for i in res.instances}
        except Exception as e:
            return path, f"{type(e).__name__}: {str(e)[:120]}"
    finally:
        shutil.rmtree(tmp, ignore_errors=True)


def _benign(prop: str) -> dict:
    import re
    from concurrent.futures import ProcessPoolExecutor
    from . import report
    from .run import Ctx, load_rules

    root = os.path.join(report.VERIF, "benign")
    out = {"patches": 0, "skipped": 0, "alarms": []}
    if not os.path.isdir(root):
        return out
    anchors = _anchor_files(prop)
    todo = []
    for d in sorted(os.listdir(root)):
        for f in sorted(os.listdir(os.path.join(root, d))):
            if not f.endswith(".diff"):
                continue
            path = os.path.join(root, d, f)
            touched = set(re.findall(r"^\+\+\+ b/(\S+)", open(path, encoding="utf-8").read(), re.M))
            if d.startswith(prop) or touched & anchors:
                todo.append((prop, path))
    if not todo:
        return out
    res = report.Results(prop)
    load_rules(prop).check(Ctx("quick", 0), res)
    base = {(i.key, i.status) for i in res.instances}
    workers = max(1, min(8, (os.cpu_count() or 2) // 2, len(todo)))
    with ProcessPoolExecutor(max_workers=workers) as ex:
        for path, new in ex.map(_benign_one, todo):
            name = os.path.join(os.path.basename(os.path.dirname(path)), os.path.basename(path))
            if new is None:
                out["skipped"] += 1
                continue
            out["patches"] += 1
            if isinstance(new, str):
                out["alarms"].append(f"{name}: {new}")
                continue
            bad = sorted(k for k, st in new - base if st != report.OK)
            if bad:
                out["alarms"].append(f"{name}: {bad[:3]}")
    return out


def run(prop: str, seed: int) -> dict:
    from . import mutations

    out = mutations.run(prop, seed)
    inv = _invariance(prop)
    out["invariance_under_reformatting"] = inv
    if inv["differences"]:
        out.setdefault("failed", []).append(f"verdicts differ on the reformatted tree: {inv['differences'][:3]}")
    ben = _benign(prop)
    out["benign_refactorings"] = ben
    for a in ben["alarms"]:
        out.setdefault("failed", []).append(f"alarm on a behaviour-preserving refactoring: {a}")
    return out
