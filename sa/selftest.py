"""Self-test of the rules: AST-computed single edits on scratch copies (thorough tier).  Filled per property."""
from __future__ import annotations


def run(prop: str, seed: int) -> dict:
    try:
        from . import mutations
    except ImportError:
        return {"variants": 0, "note": "no mutations defined yet"}
    return mutations.run(prop, seed)
