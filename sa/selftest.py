"""Self-test of the rules (thorough tier), on scratch copies under a temp dir, removed afterwards:
(1) every AST-computed single edit and every kept seeded change that names a rule of the property must produce a NEW
    violation of that rule (sa/mutations.py);
(2) invariance: the (rule key, status) set of the property must be identical on a copy of the tree in which every module
    has been replaced by ast.unparse(ast.parse(source)) -- comments, layout, quoting and line numbers change, behaviour
    does not.  A difference means a rule depends on the text's form: a false alarm (or a blind spot) in waiting."""
from __future__ import annotations

import ast
import os
import shutil
import tempfile


def _invariance(prop: str) -> dict:
    from . import report
    from .core import repo_root
    from .run import Ctx, load_rules

    def keys(root):
        ctx = Ctx("quick", 0, root=root)
        r = report.Results(prop)
        load_rules(prop).check(ctx, r)
        return sorted((i.key, i.status) for i in r.instances)

    tmp = tempfile.mkdtemp(prefix=f"verif-invariance-{prop}-")
    try:
        shutil.copytree(os.path.join(repo_root(), "rope"), os.path.join(tmp, "rope"), ignore=shutil.ignore_patterns("__pycache__"))
        n = 0
        for d, _, fs in os.walk(os.path.join(tmp, "rope")):
            for f in fs:
                if f.endswith(".py"):
                    p = os.path.join(d, f)
                    src = open(p, encoding="utf-8").read()
                    open(p, "w", encoding="utf-8").write(ast.unparse(ast.parse(src)) + "\n")
                    n += 1
        a, b = keys(None), keys(tmp)
        diff = sorted(set(a) ^ set(b))
        return {"modules_reformatted": n, "instances": len(a), "differences": [list(x) for x in diff[:10]]}
    finally:
        shutil.rmtree(tmp, ignore_errors=True)


def run(prop: str, seed: int) -> dict:
    from . import mutations

    out = mutations.run(prop, seed)
    inv = _invariance(prop)
    out["invariance_under_reformatting"] = inv
    if inv["differences"]:
        out.setdefault("failed", []).append(f"verdicts differ on the reformatted tree: {inv['differences'][:3]}")
    return out
