"""E1 -- VGC: visitor x grammar coverage.

rope re-implements Python's grammar in hand-written visitors dispatching on
"_" + node.__class__.__name__ with a generic-traversal fallback.  This engine
computes, from the source of such a visitor class:

* the handler table H(V): constructor -> method (through the MRO) or GENERIC;
* a summary per handler by a syntax-directed abstract interpretation that
  tracks which expressions denote the handled node, one of its fields, an
  element of a list field or a concatenation of fields (values are sets of
  *field paths* relative to the handled node): which paths are handed to which
  visitor (`visits`), which paths flow to a recording primitive (`binds`),
  which context managers / flags enclose a traversal (`ctx`), which paths
  escape to unknown callees (`escapes`);
* reachability over the grammar: which (constructor, field) positions a visitor
  reaches when started on given constructors, switching visitor where a handler
  hands a field to another visitor.

Soundness stance: reports under-approximate gaps -- a position counts as reached
whenever a handler, the generic traversal or an opaque escape may reach it.
"""
from __future__ import annotations

import ast
from dataclasses import dataclass, field
from typing import Dict, FrozenSet, Iterable, List, Optional, Set, Tuple

from .core import ClassInfo, FuncInfo, Index, call_name, dotted, is_self_attr, walk_local
from .grammar import G

GENERIC = "<generic>"
UNHANDLED = "<unhandled>"
ROPE_VISITOR = "rope.base.ast.RopeNodeVisitor"

Val = FrozenSet[str]
EMPTY: Val = frozenset()

PASS_THROUGH_CALLS = {"next", "deque", "list", "tuple", "reversed", "sorted", "enumerate", "zip", "iter", "set", "chain", "from_iterable",
                      "filter", "OrderedSet", "str"}
STR_METHODS = {"split", "strip", "lower", "upper", "rsplit", "partition", "rpartition", "lstrip", "rstrip", "replace"}
LIST_MUT = {"append", "extend", "insert", "add", "update"}
READ_METHODS = {"get", "index", "count", "keys", "values", "items", "copy", "__contains__"}
IGNORED_CALLS = {"getattr", "isinstance", "hasattr", "len", "str", "repr", "type", "id", "print", "bool", "int", "any", "all", "issubclass"}


@dataclass
class Effect:
    kind: str  # visit | bind | escape | generic
    target: str  # visitor class qualname ('?' unknown) | primitive name | callee
    paths: Val
    ctx: FrozenSet[str]
    lineno: int
    method: str


@dataclass
class Summary:
    effects: List[Effect] = field(default_factory=list)
    _seen: Set[Tuple] = field(default_factory=set)

    def add(self, e: "Effect") -> None:
        k = (e.kind, e.target, e.paths, e.ctx, e.lineno)
        if k not in self._seen:
            self._seen.add(k)
            self.effects.append(e)

    def visits(self) -> List[Effect]:
        return [e for e in self.effects if e.kind == "visit"]

    def binds(self) -> List[Effect]:
        return [e for e in self.effects if e.kind == "bind"]

    def escapes(self) -> List[Effect]:
        return [e for e in self.effects if e.kind == "escape"]


class VGC:
    def __init__(self, idx: Index, inline_bound: int = 4):
        self.idx = idx
        self.inline_bound = inline_bound
        self._sum_cache: Dict[Tuple[str, str], Summary] = {}
        self.sink_methods: Set[str] = set()

    # ------------------------------------------------------------------ visitors
    def is_visitor(self, cls_q: str) -> bool:
        return ROPE_VISITOR in self.idx.mro(cls_q)

    def visitor_classes(self) -> List[str]:
        if not hasattr(self, "_vc"):
            self._vc = sorted(q for q in self.idx.classes if self.is_visitor(q) and q != ROPE_VISITOR)
        return self._vc

    def handler(self, cls_q: str, ctor: str, prefix: str = "_") -> Optional[FuncInfo]:
        return self.idx.find_method(cls_q, prefix + ctor)

    def handler_table(self, cls_q: str, prefix: str = "_") -> Dict[str, Optional[FuncInfo]]:
        return {c: self.handler(cls_q, c, prefix) for c in G.ctors}

    def overrides_generic(self, cls_q: str) -> Optional[FuncInfo]:
        m = self.idx.find_method(cls_q, "generic_visit")
        return m

    # ------------------------------------------------------------------ summaries
    def summary(self, cls_q: str, method: FuncInfo) -> Summary:
        key = (cls_q, method.qualname)
        if key not in self._sum_cache:
            s = Summary()
            self._sum_cache[key] = s  # recursion guard
            params = [a.arg for a in method.node.args.posonlyargs + method.node.args.args]
            env: Dict[str, Val] = {}
            if len(params) >= 2:
                env[params[1]] = frozenset({""})
            self._interp(cls_q, method, env, frozenset(), 0, s, {})
        return self._sum_cache[key]

    def _interp(self, cls_q: str, m: FuncInfo, env: Dict[str, Val], ctx: FrozenSet[str], depth: int, out: Summary,
                vis_env: Dict[str, str]) -> None:
        env = dict(env)
        vis_env = dict(vis_env)  # local var -> visitor class
        # iterate twice so that loop-carried list building stabilises (flow-insensitive)
        for _ in range(2):
            self._block(cls_q, m, m.node.body, env, ctx, depth, out if _ == 1 else Summary(), vis_env)

    # -- expression evaluation: set of field paths
    def _eval(self, cls_q, m, e: ast.AST, env: Dict[str, Val]) -> Val:
        if e is None:
            return EMPTY
        if isinstance(e, ast.Name):
            return env.get(e.id, EMPTY)
        if isinstance(e, ast.Attribute):
            base = self._eval(cls_q, m, e.value, env)
            if base:
                return frozenset(_join(p, e.attr) for p in base)
            return EMPTY
        if isinstance(e, ast.Subscript):
            return self._eval(cls_q, m, e.value, env)
        if isinstance(e, ast.Starred):
            return self._eval(cls_q, m, e.value, env)
        if isinstance(e, (ast.List, ast.Tuple, ast.Set)):
            out: Set[str] = set()
            for x in e.elts:
                out |= self._eval(cls_q, m, x, env)
            return frozenset(out)
        if isinstance(e, ast.BinOp):
            return self._eval(cls_q, m, e.left, env) | self._eval(cls_q, m, e.right, env)
        if isinstance(e, ast.BoolOp):
            out = set()
            for x in e.values:
                out |= self._eval(cls_q, m, x, env)
            return frozenset(out)
        if isinstance(e, ast.IfExp):
            return self._eval(cls_q, m, e.body, env) | self._eval(cls_q, m, e.orelse, env)
        if isinstance(e, ast.NamedExpr):
            return self._eval(cls_q, m, e.value, env)
        if isinstance(e, (ast.ListComp, ast.GeneratorExp, ast.SetComp)):
            env2 = dict(env)
            for g in e.generators:
                self._bind_target(g.target, self._eval(cls_q, m, g.iter, env2), env2)
            return self._eval(cls_q, m, e.elt, env2)
        if isinstance(e, ast.Call):
            name = call_name(e)
            if name == "iter_child_nodes" and e.args:
                return frozenset(_join(p, "*") for p in self._eval(cls_q, m, e.args[0], env))
            if name == "getattr" and len(e.args) >= 2 and isinstance(e.args[1], ast.Constant):
                return frozenset(_join(p, e.args[1].value) for p in self._eval(cls_q, m, e.args[0], env))
            if name in PASS_THROUGH_CALLS:
                out = set()
                for a in e.args:
                    out |= self._eval(cls_q, m, a, env)
                return frozenset(out)
            if isinstance(e.func, ast.Attribute) and name in STR_METHODS:
                return self._eval(cls_q, m, e.func.value, env)
            return self._eval_call(cls_q, m, e, env)
        return EMPTY

    def _eval_call(self, cls_q, m, e: ast.Call, env) -> Val:
        """Paths returned by a call to a rope helper (self-method or module function) given node-derived args."""
        argvals = [self._eval(cls_q, m, a, env) for a in e.args]
        if not any(argvals):
            return EMPTY
        callee = None
        skip = 0
        if is_self_attr(e.func):
            callee = self.idx.find_method(cls_q, e.func.attr)
            skip = 1
        else:
            q = self.idx.resolve(m.unit.modname, e.func) if dotted(e.func) else None
            if q in self.idx.functions and self.idx.functions[q].cls is None:
                callee = self.idx.functions[q]
        if callee is None:
            return EMPTY
        depth = self.__dict__.setdefault("_eval_depth", 0)
        if depth >= 3:
            return EMPTY
        self._eval_depth = depth + 1
        try:
            ps = [a.arg for a in callee.node.args.posonlyargs + callee.node.args.args][skip:]
            env2: Dict[str, Val] = {p: v for p, v in zip(ps, argvals)}
            for _ in range(2):
                self._block(cls_q, callee, callee.node.body, env2, frozenset(), self.inline_bound, Summary(), {})
            out: Set[str] = set()
            for n in walk_local(callee.node):
                if isinstance(n, ast.Return) and n.value is not None:
                    out |= self._eval(cls_q, callee, n.value, env2)
                elif isinstance(n, (ast.Yield, ast.YieldFrom)) and n.value is not None:
                    out |= self._eval(cls_q, callee, n.value, env2)
            return frozenset(out)
        finally:
            self._eval_depth = depth

    def _bind_target(self, t: ast.AST, v: Val, env: Dict[str, Val]) -> None:
        if isinstance(t, ast.Name):
            env[t.id] = env.get(t.id, EMPTY) | v
        elif isinstance(t, (ast.Tuple, ast.List)):
            for x in t.elts:
                self._bind_target(x, v, env)
        elif isinstance(t, ast.Starred):
            self._bind_target(t.value, v, env)

    def _visitor_of(self, cls_q, m, recv: ast.AST, vis_env: Dict[str, str]) -> Optional[str]:
        """Which visitor class does `recv` denote in `recv.visit(...)`?"""
        if isinstance(recv, ast.Name):
            if recv.id == "self":
                return cls_q
            return vis_env.get(recv.id)
        if isinstance(recv, ast.Call):
            q = self.idx.resolve(m.unit.modname, recv.func)
            if q in self.idx.classes:
                return q
            if isinstance(recv.func, ast.Name) and recv.func.id == "type":
                return cls_q
            return None
        return None

    def _block(self, cls_q, m, body, env, ctx, depth, out: Summary, vis_env) -> None:
        for st in body:
            self._stmt(cls_q, m, st, env, ctx, depth, out, vis_env)

    @staticmethod
    def _none_test(m, test, env) -> Optional[bool]:
        """the truth of `<param> is None` / `<param> is not None` for a parameter of `m` whose default is None, when the environment
        of this call decides it (bound to node-derived values: not None; not bound at all: the default)"""
        if not (isinstance(test, ast.Compare) and len(test.ops) == 1 and isinstance(test.ops[0], (ast.Is, ast.IsNot)) and isinstance(test.left, ast.Name)
                and isinstance(test.comparators[0], ast.Constant) and test.comparators[0].value is None):
            return None
        a = m.node.args
        pos = a.posonlyargs + a.args
        defaults = dict(zip([p.arg for p in pos][len(pos) - len(a.defaults):], a.defaults))
        defaults.update({p.arg: d for p, d in zip(a.kwonlyargs, a.kw_defaults) if d is not None})
        d = defaults.get(test.left.id)
        if not (isinstance(d, ast.Constant) and d.value is None):
            return None
        if test.left.id in env and env[test.left.id]:
            is_none = False
        elif test.left.id not in env:
            is_none = True
        else:
            return None
        return is_none if isinstance(test.ops[0], ast.Is) else not is_none

    def _stmt(self, cls_q, m, st, env, ctx, depth, out, vis_env) -> None:
        if isinstance(st, (ast.FunctionDef, ast.AsyncFunctionDef, ast.ClassDef)):
            return
        if isinstance(st, ast.Assign):
            self._expr_effects(cls_q, m, st.value, env, ctx, depth, out, vis_env)
            v = self._eval(cls_q, m, st.value, env)
            for t in st.targets:
                if isinstance(t, ast.Name) and isinstance(st.value, ast.Call):
                    q = self.idx.resolve(m.unit.modname, st.value.func)
                    if q in self.idx.classes and self.is_visitor(q):
                        vis_env[t.id] = q
                self._bind_target(t, v, env)
                # recording: self.attr[K] = ...   /  <x>.names[K] = ...
                if isinstance(t, ast.Subscript) and isinstance(t.value, ast.Attribute):
                    k = self._eval(cls_q, m, t.slice, env)
                    if k:
                        out.add(Effect("bind", f"[{t.value.attr}]", k, ctx, st.lineno, m.name))
                # self.X = node.f : node-valued state kept for later use (e.g. assigned_ast): not a traversal
            return
        if isinstance(st, ast.AugAssign):
            self._expr_effects(cls_q, m, st.value, env, ctx, depth, out, vis_env)
            if isinstance(st.target, ast.Name):
                env[st.target.id] = env.get(st.target.id, EMPTY) | self._eval(cls_q, m, st.value, env)
            return
        if isinstance(st, ast.AnnAssign):
            if st.value is not None:
                self._expr_effects(cls_q, m, st.value, env, ctx, depth, out, vis_env)
                self._bind_target(st.target, self._eval(cls_q, m, st.value, env), env)
            return
        if isinstance(st, (ast.For, ast.AsyncFor)):
            self._expr_effects(cls_q, m, st.iter, env, ctx, depth, out, vis_env)
            self._bind_target(st.target, self._eval(cls_q, m, st.iter, env), env)
            self._block(cls_q, m, st.body, env, ctx, depth, out, vis_env)
            self._block(cls_q, m, st.orelse, env, ctx, depth, out, vis_env)
            return
        if isinstance(st, ast.While):
            self._expr_effects(cls_q, m, st.test, env, ctx, depth, out, vis_env)
            self._block(cls_q, m, st.body, env, ctx, depth, out, vis_env)
            self._block(cls_q, m, st.orelse, env, ctx, depth, out, vis_env)
            return
        if isinstance(st, ast.If):
            self._expr_effects(cls_q, m, st.test, env, ctx, depth, out, vis_env)
            # `if children is None: children = ast.iter_child_nodes(node)` on a parameter that defaults to None: at THIS call the
            # parameter was handed a value (or was not), so only one side is taken -- a helper that walks "all children unless told
            # which" must not count as walking all children where it was told which
            verdict = self._none_test(m, st.test, env)
            if verdict is not False:
                self._block(cls_q, m, st.body, env, ctx, depth, out, vis_env)
            if verdict is not True:
                self._block(cls_q, m, st.orelse, env, ctx, depth, out, vis_env)
            return
        if isinstance(st, (ast.With, ast.AsyncWith)):
            c2 = set(ctx)
            for it in st.items:
                ce = it.context_expr
                if isinstance(ce, ast.Call) and is_self_attr(ce.func):
                    c2.add(ce.func.attr)
                else:
                    self._expr_effects(cls_q, m, ce, env, ctx, depth, out, vis_env)
            self._block(cls_q, m, st.body, env, frozenset(c2), depth, out, vis_env)
            return
        if isinstance(st, ast.Try):
            for blk in [st.body, st.orelse, st.finalbody] + [h.body for h in st.handlers]:
                self._block(cls_q, m, blk, env, ctx, depth, out, vis_env)
            return
        if isinstance(st, (ast.Expr, ast.Return)):
            if st.value is not None:
                self._expr_effects(cls_q, m, st.value, env, ctx, depth, out, vis_env)
            return
        if isinstance(st, ast.Assert):
            return
        for c in ast.iter_child_nodes(st):
            if isinstance(c, ast.expr):
                self._expr_effects(cls_q, m, c, env, ctx, depth, out, vis_env)

    def _expr_effects(self, cls_q, m, e: ast.AST, env, ctx, depth, out: Summary, vis_env) -> None:
        """Find calls inside expression e (evaluation order ignored) and record their effects."""
        if isinstance(e, (ast.ListComp, ast.GeneratorExp, ast.SetComp, ast.DictComp)):
            env = dict(env)
            for g in e.generators:
                self._expr_effects(cls_q, m, g.iter, env, ctx, depth, out, vis_env)
                self._bind_target(g.target, self._eval(cls_q, m, g.iter, env), env)
                for c in g.ifs:
                    self._expr_effects(cls_q, m, c, env, ctx, depth, out, vis_env)
            for x in ([e.key, e.value] if isinstance(e, ast.DictComp) else [e.elt]):
                self._expr_effects(cls_q, m, x, env, ctx, depth, out, vis_env)
            return
        if isinstance(e, ast.Lambda):
            return
        if isinstance(e, ast.Call):
            self._call_effects(cls_q, m, e, env, ctx, depth, out, vis_env)
            # nested calls in arguments / receiver
            for a in list(e.args) + [k.value for k in e.keywords]:
                self._expr_effects(cls_q, m, a, env, ctx, depth, out, vis_env)
            if isinstance(e.func, ast.Attribute):
                self._expr_effects(cls_q, m, e.func.value, env, ctx, depth, out, vis_env)
            return
        for c in ast.iter_child_nodes(e):
            if isinstance(c, ast.expr):
                self._expr_effects(cls_q, m, c, env, ctx, depth, out, vis_env)

    def _call_effects(self, cls_q, m, c: ast.Call, env, ctx, depth, out: Summary, vis_env) -> None:
        name = call_name(c)
        argvals = [self._eval(cls_q, m, a, env) for a in c.args]
        kwvals = {k.arg: self._eval(cls_q, m, k.value, env) for k in c.keywords if k.arg}
        anyval = frozenset().union(*argvals, *kwvals.values()) if (argvals or kwvals) else EMPTY
        f = c.func
        # --- visitor.visit(X)
        if isinstance(f, ast.Attribute) and name == "visit" and c.args:
            w = self._visitor_of(cls_q, m, f.value, vis_env)
            if argvals[0]:
                out.add(Effect("visit", w or "?", argvals[0], ctx, c.lineno, m.name))
            return
        # --- generic_visit
        if name == "generic_visit":
            v = argvals[-1] if argvals else EMPTY
            if v:
                out.add(Effect("visit", cls_q, frozenset(_join(p, "*") for p in v), ctx, c.lineno, m.name))
            return
        # --- local mutation: lst.append(X)
        if isinstance(f, ast.Attribute) and isinstance(f.value, ast.Name) and name in LIST_MUT and f.value.id != "self":
            if f.value.id in env or anyval:
                env[f.value.id] = env.get(f.value.id, EMPTY) | anyval
            # also a recording primitive if the receiver is not node-derived (e.g. globals_.add(...))
            return
        # --- self.attr.add(X) / self.attr.append(X): recording into visitor state
        if isinstance(f, ast.Attribute) and is_self_attr(f.value) and name in LIST_MUT | {"add"}:
            if anyval:
                out.add(Effect("bind", f"[{f.value.attr}]", anyval, ctx, c.lineno, m.name))
            return
        # --- designated sink methods (e.g. the patched-AST walker's _handle(node, children))
        if is_self_attr(f) and name in self.sink_methods:
            rest = argvals[1:] if argvals and "" in argvals[0] else argvals
            v = frozenset().union(*rest, *kwvals.values()) if (rest or kwvals) else EMPTY
            out.add(Effect("sink", name, v, ctx, c.lineno, m.name))
            return
        # --- self.method(...): inline
        if is_self_attr(f) or (isinstance(f, ast.Attribute) and isinstance(f.value, (ast.Name, ast.Attribute))
                               and self.idx.resolve(m.unit.modname, f.value) in self.idx.classes and c.args
                               and isinstance(c.args[0], ast.Name) and c.args[0].id == "self"):
            explicit_cls = None
            args = list(c.args)
            vals = list(argvals)
            if not is_self_attr(f):
                explicit_cls = self.idx.resolve(m.unit.modname, f.value)
                args, vals = args[1:], vals[1:]
            callee = self.idx.find_method(explicit_cls or cls_q, name)
            if callee is not None and (anyval or True):
                if depth >= self.inline_bound:
                    if anyval:
                        out.add(Effect("escape", f"self.{name}", anyval, ctx, c.lineno, m.name))
                    return
                ps = [a.arg for a in callee.node.args.posonlyargs + callee.node.args.args][1:]
                env2: Dict[str, Val] = {}
                for p, v in zip(ps, vals):
                    env2[p] = v
                for k, v in kwvals.items():
                    if k in ps:
                        env2[k] = v
                if callee.node.args.vararg and len(vals) > len(ps):
                    env2[callee.node.args.vararg.arg] = frozenset().union(*vals[len(ps):])
                # the dispatcher itself
                if name == "visit" and callee.qualname.startswith(ROPE_VISITOR):
                    return
                post = self._inline(cls_q, callee, env2, ctx, depth + 1, out, vis_env)
                # call-by-reference: list parameters extended inside the callee are visible to the caller
                if post:
                    for p, a in zip(ps, args):
                        if isinstance(a, ast.Name) and post.get(p) and not post[p] <= env.get(a.id, EMPTY):
                            env[a.id] = env.get(a.id, EMPTY) | post[p]
                return
            if anyval:
                out.add(Effect("bind" if name.startswith("_") and "visit" not in name else "escape",
                                          f"self.{name}", anyval, ctx, c.lineno, m.name))
            return
        # --- self.<attr>.<m>(...): method of a collaborating visitor, resolved by name among visitor classes
        if isinstance(f, ast.Attribute) and is_self_attr(f.value) and anyval and depth < self.inline_bound:
            cands = [q for q in self.visitor_classes() if name in self.idx.classes[q].methods]
            if cands:
                for q in cands:
                    callee = self.idx.classes[q].methods[name]
                    ps = [a.arg for a in callee.node.args.posonlyargs + callee.node.args.args][1:]
                    env2 = {p: v for p, v in zip(ps, argvals)}
                    env2.update({k: v for k, v in kwvals.items() if k in ps})
                    self._inline(q, callee, env2, ctx, depth + 1, out, vis_env)
                return
        # --- other.attr method with node-derived args: recording primitive or escape
        if anyval:
            if name in IGNORED_CALLS and isinstance(f, ast.Name):
                return
            if name in ("iter_child_nodes", "iter_fields", "walk"):
                return
            if isinstance(f, ast.Attribute) and is_self_attr(f.value) and name in READ_METHODS:
                return
            d = dotted(f) or name
            q = self.idx.resolve(m.unit.modname, f) if dotted(f) else None
            # helper function in rope taking the node: summarise as a plain function (param -> paths)
            if q in self.idx.functions and self.idx.functions[q].cls is None and depth < self.inline_bound:
                callee = self.idx.functions[q]
                ps = [a.arg for a in callee.node.args.posonlyargs + callee.node.args.args]
                env2 = {p: v for p, v in zip(ps, argvals)}
                env2.update({k: v for k, v in kwvals.items() if k in ps})
                self._inline(cls_q, callee, env2, ctx, depth + 1, out, vis_env, foreign=True)
                return
            out.add(Effect("escape", q or d, anyval, ctx, c.lineno, m.name))

    def _inline(self, cls_q, callee: FuncInfo, env2, ctx, depth, out: Summary, vis_env, foreign: bool = False) -> None:
        key = (cls_q, callee.qualname, tuple(sorted((k, tuple(sorted(v))) for k, v in env2.items())), ctx)
        stack = self.__dict__.setdefault("_stack", [])
        if key in stack:
            return None
        stack.append(key)
        try:
            self._inline2(cls_q, callee, env2, ctx, depth, out, vis_env)
            return env2
        finally:
            stack.pop()

    def _inline2(self, cls_q, callee: FuncInfo, env2, ctx, depth, out: Summary, vis_env) -> None:
        sub = Summary()
        for i in range(2):
            tmp = Summary()
            self._block(cls_q, callee, callee.node.body, env2, ctx, depth, tmp, dict(vis_env))
            sub = tmp
        # return value flows are ignored; effects are appended
        for e in sub.effects:
            out.add(e)

    # ------------------------------------------------------------------ reachability
    def resolve_paths(self, ctor: str, paths: Iterable[str]) -> Tuple[Set[Tuple[str, str]], bool, Set[str]]:
        """Resolve field paths relative to a node of constructor `ctor` to grammar
        positions {(owner ctor, field)}; returns (positions, includes_self, identifier_fields)."""
        pos: Set[Tuple[str, str]] = set()
        self_ = False
        idents: Set[str] = set()
        for p in paths:
            if p == "":
                self_ = True
                continue
            owners = [ctor]
            parts = p.split(".")
            for i, part in enumerate(parts):
                nxt: List[str] = []
                last = i == len(parts) - 1
                for o in owners:
                    c = G.ctors.get(o)
                    if c is None:
                        continue
                    if part == "*":
                        for f in c.fields:
                            if f.is_node:
                                if last:
                                    pos.add((o, f.name))
                                nxt.extend(G.ctors_of(f.type))
                        continue
                    f = c.field(part)
                    if f is None:
                        continue
                    if f.is_node:
                        if last:
                            pos.add((o, f.name))
                        nxt.extend(G.ctors_of(f.type))
                    else:
                        if last:
                            idents.add(f"{o}.{f.name}")
                owners = nxt
        return pos, self_, idents

    def reach(self, start_visitor: str, start_ctors: Iterable[str], scope_openers: Optional[Dict[str, str]] = None,
              prefix: str = "_") -> "Reach":
        r = Reach(self, start_visitor, prefix, scope_openers or {})
        for c in start_ctors:
            r.add(start_visitor, c, ("start", "", start_visitor))
        r.run()
        return r


def _join(p: str, attr: str) -> str:
    return attr if p == "" else f"{p}.{attr}"


class Reach:
    """Fixpoint: (visitor, ctor) pairs and covered positions (ctor, field) -> visitors."""

    def __init__(self, vgc: VGC, start: str, prefix: str, scope_openers: Dict[str, str]):
        self.vgc = vgc
        self.prefix = prefix
        self.scope_openers = scope_openers  # escape target class qualname -> visitor class of the new scope
        self.pairs: Dict[Tuple[str, str], Tuple] = {}
        self.todo: List[Tuple[str, str]] = []
        self.positions: Dict[Tuple[str, str], Set[str]] = {}  # (ctor, field) -> visitors reaching it
        self.pos_ctx: Dict[Tuple[str, str, str], Set[FrozenSet[str]]] = {}
        self.new_scope_positions: Dict[Tuple[str, str], Set[str]] = {}
        self.opaque: Set[Tuple[str, str, str]] = set()  # (visitor, ctor, callee)
        self.binds: Dict[Tuple[str, str], List[Effect]] = {}

    def add(self, v: str, c: str, why: Tuple) -> None:
        if (v, c) not in self.pairs and c in G.ctors:
            self.pairs[(v, c)] = why
            self.todo.append((v, c))

    def cover(self, owner: str, fld: str, v: str, ctx: FrozenSet[str], why: Tuple, new_scope: bool = False) -> None:
        self.positions.setdefault((owner, fld), set()).add(v)
        self.pos_ctx.setdefault((owner, fld, v), set()).add(ctx)
        if new_scope:
            self.new_scope_positions.setdefault((owner, fld), set()).add(v)
        f = G.ctors[owner].field(fld)
        for c in G.ctors_of(f.type):
            self.add(v, c, why)

    def run(self) -> None:
        idx = self.vgc.idx
        while self.todo:
            v, c = self.todo.pop()
            if v == "?" or v not in idx.classes:
                continue
            h = self.vgc.handler(v, c, self.prefix)
            if h is None:
                gv = self.vgc.overrides_generic(v)
                if gv is not None and not gv.qualname.startswith("ast."):
                    # class overrides generic_visit: summarise it like a handler
                    self._apply(v, c, gv)
                else:
                    for f in G.ctors[c].fields:
                        if f.is_node:
                            self.cover(c, f.name, v, frozenset(), ("generic", c, v))
                continue
            self._apply(v, c, h)

    def _apply(self, v: str, c: str, h: FuncInfo) -> None:
        s = self.vgc.summary(v, h)
        for e in s.effects:
            if e.kind == "visit":
                pos, self_, _ = self.vgc.resolve_paths(c, e.paths)
                tgt = e.target
                for (o, f) in pos:
                    self.cover(o, f, tgt, e.ctx, ("handler", h.qualname, e.lineno))
                if self_ and tgt != v:
                    self.add(tgt, c, ("redispatch", h.qualname, e.lineno))
            elif e.kind == "bind":
                _, _, idents = self.vgc.resolve_paths(c, e.paths)
                self.binds.setdefault((v, c), []).append(e)
            elif e.kind == "escape":
                pos, self_, _ = self.vgc.resolve_paths(c, e.paths)
                w = self.scope_openers.get(e.target)
                if w is not None and self_:
                    # node handed to a scope-creating object: its visitor walks all children in the NEW scope
                    for f in G.ctors[c].fields:
                        if f.is_node:
                            self.cover(c, f.name, w, e.ctx, ("scope", e.target, e.lineno), new_scope=True)
                else:
                    self.opaque.add((v, c, e.target))

    def pair_coverage(self, v: str, c: str, _seen=None) -> Dict[str, Set[str]]:
        """field -> visitors that receive that field when a node of constructor c arrives at visitor v
        (following re-dispatch of the whole node to other visitors).  '?' = escapes to unknown code."""
        _seen = _seen or set()
        if (v, c) in _seen or v not in self.vgc.idx.classes:
            return {}
        _seen.add((v, c))
        out: Dict[str, Set[str]] = {}
        h = self.vgc.handler(v, c, self.prefix)
        if h is None:
            gv = self.vgc.overrides_generic(v)
            if gv is None or gv.qualname.startswith("ast."):
                for f in G.ctors[c].fields:
                    if f.is_node:
                        out.setdefault(f.name, set()).add(v)
                return out
            h = gv
        ctor = G.ctors[c]
        for e in self.vgc.summary(v, h).effects:
            if e.kind == "visit":
                for p in e.paths:
                    if p == "":
                        if e.target != v:
                            for f, vs in self.pair_coverage(e.target, c, _seen).items():
                                out.setdefault(f, set()).update(vs)
                        continue
                    parts = p.split(".")
                    if parts[0] == "*":
                        for f in ctor.fields:
                            if f.is_node:
                                out.setdefault(f.name, set()).add(e.target)
                        continue
                    f0 = ctor.field(parts[0])
                    if f0 is None or not f0.is_node:
                        continue
                    if len(parts) == 1:
                        out.setdefault(f0.name, set()).add(e.target)
                    elif len(parts) == 2:
                        if parts[1] == "*":
                            out.setdefault(f0.name, set()).add(e.target)
                        else:
                            out.setdefault(f"{f0.name}.{parts[1]}", set()).add(e.target)
                    else:
                        out.setdefault(f"{f0.name}.{parts[1]}", set()).add("?")
            elif e.kind == "escape" and e.target not in self.scope_openers:
                if "" in e.paths:
                    for f in ctor.fields:
                        if f.is_node:
                            out.setdefault(f.name, set()).add("?")
        return out

    # ---- queries
    def handled(self, v: str, c: str) -> bool:
        return self.vgc.handler(v, c, self.prefix) is not None

    def reached_by(self, owner: str, fld: str) -> Set[str]:
        return self.positions.get((owner, fld), set())

    def bound_idents(self, v: str, c: str) -> Set[str]:
        out: Set[str] = set()
        for e in self.binds.get((v, c), []):
            _, _, idents = self.vgc.resolve_paths(c, e.paths)
            out |= idents
        return out

    def visitors_on(self, c: str) -> Set[str]:
        return {v for (v, cc) in self.pairs if cc == c}


def get(ctx) -> VGC:
    return ctx.memo("vgc", lambda: VGC(ctx.idx))
