"""Debug helper: /venv/bin/python -m sa.show C19  -- prints every instance."""
import sys
from .run import Ctx, load_rules
from . import report
def main():
    ctx = Ctx('quick', 0)
    for p in sys.argv[1:]:
        r = report.Results(p); load_rules(p).check(ctx, r)
        for i in r.instances: print(i.status, i.key, '@', i.where, '--', i.what[:200])
main()
