"""Shared analysis of code that destructures `ast.arguments`: which parameter slots are read, and whether
default values are paired with the parameter lists the language reference aligns them with
(defaults -> tail of posonlyargs + args;  kw_defaults -> kwonlyargs, element-wise, None = no default).

Forward, statement-ordered taint (sequential may-analysis: branches are walked in order, loops once), so
that 'args += [vararg]' *before* 'zip(args[-n:], defaults)' is distinguished from the same append after it.
"""
from __future__ import annotations

import ast
from typing import Dict, List, Optional, Set, Tuple

from .core import call_name
from .grammar import DEFAULT_ALIGNMENT, PARAM_SLOTS

UNIQUE = {"posonlyargs", "vararg", "kwonlyargs", "kw_defaults", "kwarg", "defaults"}
ALL = set(PARAM_SLOTS) | {"defaults", "kw_defaults"}


def reads(fn: ast.AST) -> Set[str]:
    """Fields of ast.arguments read in fn ('args' counted only on an expression that also yields a unique field)."""
    bases: Dict[str, Set[str]] = {}
    for x in ast.walk(fn):
        if isinstance(x, ast.Attribute) and x.attr in ALL:
            bases.setdefault(ast.dump(x.value), set()).add(x.attr)
        if isinstance(x, ast.Call) and call_name(x) == "getattr" and len(x.args) >= 2 and isinstance(x.args[1], ast.Constant) \
                and x.args[1].value in ALL:
            bases.setdefault(ast.dump(x.args[0]), set()).add(x.args[1].value)
    out: Set[str] = set()
    for b, fs in bases.items():
        if fs & UNIQUE:
            out |= fs
    return out


def destructures(fn: ast.AST) -> bool:
    return bool(reads(fn) & UNIQUE)


class Pairing:
    def __init__(self, which: str, paired_labels: Set[str], node: ast.AST, how: str, pad_labels: Optional[Set[str]] = None):
        self.which = which  # defaults | kw_defaults
        self.labels = paired_labels
        self.node = node
        self.how = how
        self.pad_labels = pad_labels  # padded idiom: the list whose length decides how many None are put in front

    @property
    def ok(self) -> bool:
        allowed = set(DEFAULT_ALIGNMENT[self.which])
        return self.labels == allowed and (self.pad_labels is None or self.pad_labels == allowed)


def pairings(fn: ast.AST) -> List[Pairing]:
    env: Dict[str, Set[str]] = {}
    out: List[Pairing] = []

    def labels(e: ast.AST, env=None) -> Set[str]:
        env_ = env if env is not None else ENV[0]
        s: Set[str] = set()
        for x in ast.walk(e):
            if isinstance(x, ast.Attribute) and x.attr in ALL:
                # 'args' of a Call node is not a parameter list: require an arguments-looking base
                if x.attr == "args" and not _looks_like_arguments(x.value):
                    continue
                s.add(x.attr)
            elif isinstance(x, ast.Name) and x.id in env_:
                s |= env_[x.id]
            elif isinstance(x, ast.Call) and call_name(x) == "getattr" and len(x.args) >= 2 and isinstance(x.args[1], ast.Constant) \
                    and x.args[1].value in ALL:
                s.add(x.args[1].value)
        return s

    ENV = [env]
    padded: Dict[str, Tuple[str, Set[str]]] = {}

    def pad_of(v: ast.AST) -> Optional[Tuple[str, Set[str]]]:
        """[None] * (len(X) - len(D)) + D   ->  (which, labels(X))"""
        if not (isinstance(v, ast.BinOp) and isinstance(v.op, ast.Add)):
            return None
        l = v.left
        if not (isinstance(l, ast.BinOp) and isinstance(l.op, ast.Mult)):
            return None
        lst, cnt = (l.left, l.right) if isinstance(l.left, ast.List) else (l.right, l.left)
        if not (isinstance(lst, ast.List) and len(lst.elts) == 1 and isinstance(lst.elts[0], ast.Constant) and lst.elts[0].value is None):
            return None
        if not (isinstance(cnt, ast.BinOp) and isinstance(cnt.op, ast.Sub)):
            return None
        lens = [c for c in (cnt.left, cnt.right) if isinstance(c, ast.Call) and call_name(c) == "len" and c.args]
        if len(lens) != 2:
            return None
        which = next((w for w in ("defaults", "kw_defaults") if w in labels(v.right)), None)
        if which is None:
            return None
        return which, labels(lens[0].args[0])

    def see_expr(e: ast.AST) -> None:
        for x in ast.walk(e):
            if isinstance(x, ast.Call) and call_name(x) == "zip" and len(x.args) == 2:
                for i, a in enumerate(x.args):
                    if isinstance(a, ast.Name) and a.id in padded:
                        which, padl = padded[a.id]
                        out.append(Pairing(which, labels(x.args[1 - i]) - {which}, x, "padded-zip", pad_labels=padl))
            if isinstance(x, ast.Call) and call_name(x) == "zip" and len(x.args) >= 2:
                if any(isinstance(a, ast.Name) and a.id in padded for a in x.args):
                    continue
                ls = [labels(a) for a in x.args]
                for i, l in enumerate(ls):
                    for which in ("defaults", "kw_defaults"):
                        if l == {which} or (which in l and len(l) == 1):
                            others: Set[str] = set()
                            for j, l2 in enumerate(ls):
                                if j != i:
                                    others |= l2
                            out.append(Pairing(which, others - {which}, x, "zip"))

    def assign(t: ast.AST, lab: Set[str], augment: bool) -> None:
        if isinstance(t, ast.Name):
            env[t.id] = (env.get(t.id, set()) | lab) if augment else set(lab)
        elif isinstance(t, (ast.Tuple, ast.List)):
            for x in t.elts:
                assign(x, lab, augment)

    def walk(stmts) -> None:
        for st in stmts:
            if isinstance(st, (ast.FunctionDef, ast.AsyncFunctionDef, ast.ClassDef)):
                continue
            if isinstance(st, ast.Assign):
                see_expr(st.value)
                # padded defaults:  [None] * (len(args) - len(defaults)) + list(defaults)  zipped later with args
                lab = labels(st.value)
                pd = pad_of(st.value)
                for t in st.targets:
                    assign(t, lab, False)
                    if isinstance(t, ast.Name):
                        if pd is not None:
                            padded[t.id] = pd
                        else:
                            padded.pop(t.id, None)
            elif isinstance(st, ast.AugAssign):
                see_expr(st.value)
                assign(st.target, labels(st.value), True)
            elif isinstance(st, ast.Expr):
                see_expr(st.value)
                c = st.value
                if isinstance(c, ast.Call) and isinstance(c.func, ast.Attribute) and isinstance(c.func.value, ast.Name) \
                        and c.func.attr in ("append", "extend", "insert"):
                    lab = set()
                    for a in c.args:
                        lab |= labels(a)
                    env[c.func.value.id] = env.get(c.func.value.id, set()) | lab
            elif isinstance(st, (ast.For, ast.AsyncFor)):
                see_expr(st.iter)
                assign(st.target, labels(st.iter), False)
                walk(st.body)
                walk(st.orelse)
            elif isinstance(st, (ast.If, ast.While)):
                see_expr(st.test)
                walk(st.body)
                walk(st.orelse)
            elif isinstance(st, (ast.With, ast.Try)):
                for f in ("body", "orelse", "finalbody"):
                    walk(getattr(st, f, []) or [])
                for h in getattr(st, "handlers", []):
                    walk(h.body)
            elif isinstance(st, ast.Return) and st.value is not None:
                see_expr(st.value)
            elif isinstance(st, ast.Delete):
                pass

    walk(fn.body)
    # padded-list idiom: a name whose labels are exactly {X, 'defaults'} built with len(X) - len(defaults) and
    # later zipped with X: report as a pairing of defaults with X
    for x in ast.walk(fn):
        if isinstance(x, ast.Call) and call_name(x) == "zip" and len(x.args) == 2:
            pass
    return out


def _looks_like_arguments(e: ast.AST) -> bool:
    s = ast.unparse(e)
    return s.endswith("arguments") or s.endswith(".args") or s in ("node", "arguments", "args") or s.endswith("ast.args")
