"""E0 constant folder: evaluates pure constant-building expressions and the small
pure functions rope uses to build regex pattern strings, by interpreting the AST
(never by importing rope).  Anything it cannot fold raises Unfoldable."""
from __future__ import annotations

import ast
from typing import Any, Dict, Optional

from .core import Index, dotted


class FuncRef:
    """a function of the analysed program used as a value"""

    def __init__(self, qualname: str):
        self.qualname = qualname


class Unfoldable(Exception):
    pass


_SAFE_STR_METHODS = {"replace", "join", "split", "format", "lower", "upper", "strip", "lstrip", "rstrip", "encode", "decode",
                     "startswith", "endswith", "casefold", "find", "count", "isalpha", "isidentifier"}
_SAFE_BUILTINS = {"frozenset": frozenset, "set": set, "tuple": tuple, "list": list, "dict": dict, "len": len,
                  "str": str, "sorted": sorted}


class Folder:
    def __init__(self, idx: Index, max_depth: int = 12):
        self.idx = idx
        self.max_depth = max_depth
        self.init_env: Dict[str, Dict[str, Any]] = {}  # class qualname -> values of __init__ parameters (symbolic runs)

    # ---- public
    def eval(self, modname: str, expr: ast.AST, env: Optional[Dict[str, Any]] = None, cls=None, depth: int = 0) -> Any:
        env = env or {}
        return self._e(modname, expr, env, cls, depth)

    def call_function(self, qual: str, args=(), kwargs=None, depth: int = 0) -> Any:
        f = self.idx.functions.get(qual)
        if f is None:
            raise Unfoldable(f"unknown function {qual}")
        return self._call(f, list(args), dict(kwargs or {}), depth)

    # ---- internals
    def _call(self, f, args, kwargs, depth):
        if depth > self.max_depth:
            raise Unfoldable("depth")
        a = f.node.args
        params = [p.arg for p in a.posonlyargs + a.args]
        if f.cls is not None and params and params[0] in ("self", "cls"):
            params = params[1:]
        env: Dict[str, Any] = {}
        defaults = a.defaults
        for p, d in zip(params[len(params) - len(defaults):], defaults):
            env[p] = self._e(f.unit.modname, d, {}, f.cls, depth + 1)
        for p, v in zip(params, args):
            env[p] = v
        for k, v in kwargs.items():
            env[k] = v
        missing = [p for p in params if p not in env]
        if missing:
            raise Unfoldable(f"missing args {missing}")
        return self._run(f.unit.modname, f.node.body, env, f.cls, depth + 1)

    class _Return(Exception):
        def __init__(self, v):
            self.v = v

    def _run(self, modname, body, env, cls, depth):
        try:
            self._block(modname, body, env, cls, depth)
        except Folder._Return as r:
            return r.v
        return None

    def _block(self, modname, body, env, cls, depth):
        for st in body:
            if isinstance(st, ast.Expr) and isinstance(st.value, ast.Constant):
                continue
            if isinstance(st, ast.Assign) and len(st.targets) == 1 and isinstance(st.targets[0], ast.Name):
                env[st.targets[0].id] = self._e(modname, st.value, env, cls, depth)
            elif isinstance(st, ast.Return):
                raise Folder._Return(self._e(modname, st.value, env, cls, depth) if st.value else None)
            elif isinstance(st, ast.If):
                t = self._e(modname, st.test, env, cls, depth)
                self._block(modname, st.body if t else st.orelse, env, cls, depth)
            else:
                raise Unfoldable(f"statement {type(st).__name__} at line {st.lineno}")

    def _e(self, modname, e, env, cls, depth):
        if depth > self.max_depth:
            raise Unfoldable("depth")
        if isinstance(e, ast.Constant):
            return e.value
        if isinstance(e, (ast.Tuple, ast.List, ast.Set)):
            vals = [self._e(modname, x, env, cls, depth) for x in e.elts]
            return tuple(vals) if isinstance(e, ast.Tuple) else vals if isinstance(e, ast.List) else set(vals)
        if isinstance(e, ast.Name):
            if e.id in env:
                return env[e.id]
            if e.id in ("None", "True", "False"):
                return {"None": None, "True": True, "False": False}[e.id]
            v = self.idx.module_assigns.get(modname, {}).get(e.id)
            if v is not None:
                return self._e(modname, v, {}, None, depth + 1)
            raise Unfoldable(f"name {e.id}")
        if isinstance(e, ast.Attribute):
            # self.CONST / cls.CONST / module.CONST
            if isinstance(e.value, ast.Name) and e.value.id in ("self", "cls") and cls is not None:
                for q in self.idx.mro(cls.qualname):
                    c = self.idx.classes.get(q)
                    if c and e.attr in c.class_attrs:
                        return self._e(c.unit.modname, c.class_attrs[e.attr], {}, c, depth + 1)
                # instance attribute assigned exactly once in __init__ from a foldable expression
                init = self.idx.find_method(cls.qualname, "__init__")
                if init is not None:
                    vals = [n.value for n in ast.walk(init.node) if isinstance(n, ast.Assign)
                            and any(isinstance(t, ast.Attribute) and isinstance(t.value, ast.Name) and t.value.id == "self"
                                    and t.attr == e.attr for t in n.targets)]
                    if len(vals) == 1:
                        ienv = dict(self.init_env.get(cls.qualname, {}))
                        # locals of __init__ bound (once, by a plain assignment) before the attribute is set
                        for st in init.node.body:
                            if isinstance(st, ast.Assign) and st.value is vals[0]:
                                break
                            if isinstance(st, ast.Assign) and len(st.targets) == 1 and isinstance(st.targets[0], ast.Name):
                                try:
                                    ienv[st.targets[0].id] = self._e(init.unit.modname, st.value, ienv, init.cls, depth + 1)
                                except Unfoldable:
                                    pass
                        return self._e(init.unit.modname, vals[0], ienv, init.cls, depth + 1)
                raise Unfoldable(f"self.{e.attr}")
            d = dotted(e)
            if d:
                r = self.idx.resolve_dotted(modname, d)
                if r:
                    m, _, n = r.rpartition(".")
                    if m in self.idx.units and n in self.idx.module_assigns.get(m, {}):
                        return self._e(m, self.idx.module_assigns[m][n], {}, None, depth + 1)
                    if m in self.idx.classes and n in self.idx.classes[m].class_attrs:
                        c = self.idx.classes[m]
                        return self._e(c.unit.modname, c.class_attrs[n], {}, c, depth + 1)
                if r in self.idx.functions:
                    return FuncRef(r)  # a function or method used as a value (`f = Class.helper` ... `f(x)`)
            raise Unfoldable(f"attribute {ast.unparse(e)}")
        if isinstance(e, ast.BinOp):
            l, r = self._e(modname, e.left, env, cls, depth), self._e(modname, e.right, env, cls, depth)
            try:
                if isinstance(e.op, ast.Add):
                    return l + r
                if isinstance(e.op, ast.Mod):
                    return l % r
                if isinstance(e.op, ast.Mult):
                    return l * r
                if isinstance(e.op, ast.BitOr):
                    return l | r
                if isinstance(e.op, ast.Sub):
                    return l - r
            except Exception as ex:
                raise Unfoldable(str(ex))
            raise Unfoldable(f"operator {type(e.op).__name__}")
        if isinstance(e, ast.JoinedStr):
            out = ""
            for v in e.values:
                if isinstance(v, ast.Constant):
                    out += v.value
                elif isinstance(v, ast.FormattedValue) and v.format_spec is None and v.conversion == -1:
                    out += str(self._e(modname, v.value, env, cls, depth))
                else:
                    raise Unfoldable("f-string spec")
            return out
        if isinstance(e, ast.Compare) and len(e.ops) == 1:
            l, r = self._e(modname, e.left, env, cls, depth), self._e(modname, e.comparators[0], env, cls, depth)
            op = e.ops[0]
            table = {ast.Is: lambda a, b: a is b, ast.IsNot: lambda a, b: a is not b, ast.Eq: lambda a, b: a == b,
                     ast.NotEq: lambda a, b: a != b, ast.In: lambda a, b: a in b, ast.NotIn: lambda a, b: a not in b}
            if type(op) in table:
                return table[type(op)](l, r)
            raise Unfoldable("compare")
        if isinstance(e, ast.IfExp):
            return self._e(modname, e.body if self._e(modname, e.test, env, cls, depth) else e.orelse, env, cls, depth)
        if isinstance(e, ast.BoolOp):
            v = None
            for x in e.values:
                v = self._e(modname, x, env, cls, depth)
                if isinstance(e.op, ast.Or) and v:
                    return v
                if isinstance(e.op, ast.And) and not v:
                    return v
            return v
        if isinstance(e, ast.UnaryOp) and isinstance(e.op, ast.Not):
            return not self._e(modname, e.operand, env, cls, depth)
        if isinstance(e, ast.Subscript) and isinstance(e.slice, ast.Slice):
            sl = e.slice
            part = lambda x: None if x is None else self._e(modname, x, env, cls, depth)
            base = self._e(modname, e.value, env, cls, depth)
            if not isinstance(base, (str, bytes, list, tuple)):
                raise Unfoldable("slice of a non-sequence")
            try:
                return base[slice(part(sl.lower), part(sl.upper), part(sl.step))]
            except Unfoldable:
                raise
            except Exception as ex:
                raise Unfoldable(str(ex))
        if isinstance(e, ast.Subscript) and not isinstance(e.slice, ast.Slice):
            try:
                return self._e(modname, e.value, env, cls, depth)[self._e(modname, e.slice, env, cls, depth)]
            except Unfoldable:
                raise
            except Exception as ex:
                raise Unfoldable(str(ex))
        if isinstance(e, ast.Call):
            args = [self._e(modname, a, env, cls, depth) for a in e.args]
            kwargs = {k.arg: self._e(modname, k.value, env, cls, depth) for k in e.keywords if k.arg}
            fn = e.func
            if isinstance(fn, ast.Name) and fn.id in _SAFE_BUILTINS and fn.id not in env:
                return _SAFE_BUILTINS[fn.id](*args, **kwargs)
            if isinstance(fn, ast.Attribute) and fn.attr in _SAFE_STR_METHODS:
                try:
                    recv = self._e(modname, fn.value, env, cls, depth)
                except Unfoldable:
                    recv = None
                if isinstance(recv, (str, bytes)):
                    return getattr(recv, fn.attr)(*args, **kwargs)
            if isinstance(fn, ast.Attribute) and fn.attr == "get":
                try:
                    recv = self._e(modname, fn.value, env, cls, depth)
                except Unfoldable:
                    recv = None
                if isinstance(recv, dict):
                    return recv.get(*args)
            if isinstance(fn, ast.Name) and isinstance(env.get(fn.id), FuncRef):
                return self._call(self.idx.functions[env[fn.id].qualname], args, kwargs, depth + 1)
            # self.method() within a class
            if isinstance(fn, ast.Attribute) and isinstance(fn.value, ast.Name) and fn.value.id in ("self", "cls") and cls is not None:
                m = self.idx.find_method(cls.qualname, fn.attr)
                if m:
                    return self._call(m, args, kwargs, depth + 1)
            q = self.idx.resolve(modname, fn)
            if q in ("re.compile",) and args:
                return args[0]  # a compiled pattern is represented by its source
            if q in self.idx.functions:
                return self._call(self.idx.functions[q], args, kwargs, depth + 1)
            raise Unfoldable(f"call {ast.unparse(fn)}")
        raise Unfoldable(f"expression {type(e).__name__}")


def get(ctx) -> Folder:
    return ctx.memo("folder", lambda: Folder(ctx.idx))
