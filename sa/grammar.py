"""Grammar model of the *running interpreter* (ASDL signatures from ast class
docstrings) plus the oracle tables written from the language reference.

The tables are facts about Python, not about rope; at import they are checked
against the grammar model in one direction (every constructor/field they name
must exist, or -- for constructors added in later versions -- be marked
optional), so they cannot silently rot.
"""
from __future__ import annotations

import ast
import re
import sys
from dataclasses import dataclass
from typing import Dict, List, Optional, Set, Tuple

from .core import AnalysisError

BUILTIN_TYPES = {"identifier", "int", "string", "constant"}


@dataclass(frozen=True)
class Field:
    name: str
    type: str  # sum type / product type / builtin
    mult: str  # '' | '?' | '*'

    @property
    def is_node(self) -> bool:
        return self.type not in BUILTIN_TYPES


@dataclass
class Ctor:
    name: str
    sum: str  # the sum type it belongs to, or its own name for product types
    fields: List[Field]

    def field(self, name: str) -> Optional[Field]:
        for f in self.fields:
            if f.name == name:
                return f
        return None


class Grammar:
    def __init__(self):
        self.ctors: Dict[str, Ctor] = {}
        self.sums: Dict[str, List[str]] = {}
        self.products: Set[str] = set()
        self._parse()

    def _parse(self) -> None:
        sig = re.compile(r"(\w+)\s*(?:\((.*?)\))?\s*$", re.S)
        for name in dir(ast):
            cls = getattr(ast, name)
            if not (isinstance(cls, type) and issubclass(cls, ast.AST)) or cls is ast.AST:
                continue
            doc = (cls.__doc__ or "").strip()
            if not doc or doc.startswith("Deprecated"):
                continue
            if "=" in doc.split("(")[0]:
                # sum type: "stmt = A(...) | B(...)"
                lhs, _, rhs = doc.partition("=")
                lhs = lhs.strip()
                alts = self._split_alts(rhs)
                self.sums[lhs] = []
                for alt in alts:
                    m = sig.match(alt.strip())
                    if not m:
                        continue
                    cname, fl = m.group(1), m.group(2)
                    self.sums[lhs].append(cname)
                    self.ctors[cname] = Ctor(cname, lhs, self._fields(fl))
            elif cls.__name__ == name and doc.startswith(name + "("):
                m = sig.match(doc)
                if m and name not in self.ctors:
                    # product type (arguments, arg, keyword, alias, withitem, comprehension, match_case, ...)
                    base = cls.__mro__[1].__name__
                    if base == "AST":
                        self.products.add(name)
                        self.ctors[name] = Ctor(name, name, self._fields(m.group(2)))
        if len(self.ctors) < 90:
            raise AnalysisError(f"grammar model too small: {len(self.ctors)} constructors")

    @staticmethod
    def _split_alts(rhs: str) -> List[str]:
        out, depth, cur = [], 0, ""
        for ch in rhs:
            if ch == "(":
                depth += 1
            elif ch == ")":
                depth -= 1
            if ch == "|" and depth == 0:
                out.append(cur)
                cur = ""
            else:
                cur += ch
        if cur.strip():
            out.append(cur)
        return out

    @staticmethod
    def _fields(fl: Optional[str]) -> List[Field]:
        out = []
        if not fl:
            return out
        for part in fl.split(","):
            part = part.strip()
            if not part:
                continue
            t, _, n = part.rpartition(" ")
            t = t.strip()
            mult = ""
            if t.endswith("?") or t.endswith("*"):
                mult, t = t[-1], t[:-1]
            out.append(Field(n.strip(), t, mult))
        return out

    # ---- queries
    def ctors_of(self, typ: str) -> List[str]:
        """Constructors of a field type (sum -> alternatives, product -> itself)."""
        if typ in self.sums:
            return list(self.sums[typ])
        if typ in self.ctors:
            return [typ]
        return []

    def has(self, ctor: str, field: Optional[str] = None) -> bool:
        c = self.ctors.get(ctor)
        return c is not None and (field is None or c.field(field) is not None)

    def reachable_ctors(self, start: str = "Module") -> Set[str]:
        seen, todo = set(), [start]
        while todo:
            c = todo.pop()
            if c in seen or c not in self.ctors:
                continue
            seen.add(c)
            for f in self.ctors[c].fields:
                if f.is_node:
                    todo.extend(self.ctors_of(f.type))
        return seen

    def stmt_list_fields(self) -> List[Tuple[str, str]]:
        return [(c.name, f.name) for c in self.ctors.values() for f in c.fields if f.type == "stmt" and f.mult == "*"]


G = Grammar()

# --------------------------------------------------------------------------
# oracle tables (language reference)

# (constructor, field) pairs whose value is an identifier (or Name target) bound in the current scope
BINDS: List[Tuple[str, str, str]] = [
    # ctor, field, kind
    ("Name", "id", "store-name"),  # with ctx=Store
    ("FunctionDef", "name", "def"),
    ("AsyncFunctionDef", "name", "def"),
    ("ClassDef", "name", "class"),
    ("alias", "name", "import"),  # bound name is asname or first component of name
    ("ExceptHandler", "name", "except"),
    ("MatchAs", "name", "match"),
    ("MatchStar", "name", "match"),
    ("MatchMapping", "rest", "match"),
    ("arg", "arg", "param"),
    ("TypeAlias", "name", "typealias"),
    ("TypeVar", "name", "typeparam"),
    ("ParamSpec", "name", "typeparam"),
    ("TypeVarTuple", "name", "typeparam"),
]
# statement-level binders whose *target expression* is stored into
TARGET_FIELDS: List[Tuple[str, str]] = [
    ("Assign", "targets"), ("AugAssign", "target"), ("AnnAssign", "target"), ("For", "target"),
    ("AsyncFor", "target"), ("withitem", "optional_vars"), ("NamedExpr", "target"), ("comprehension", "target"),
    ("Delete", "targets"),
]
PARAM_SLOTS = ["posonlyargs", "args", "vararg", "kwonlyargs", "kwarg"]
# alignment rule (language reference, function definitions):
#   defaults[i] belongs to (posonlyargs + args)[-len(defaults) + i];  kw_defaults[i] belongs to kwonlyargs[i]
DEFAULT_ALIGNMENT = {"defaults": ("posonlyargs", "args"), "kw_defaults": ("kwonlyargs",)}

SCOPES: Dict[str, List[str]] = {
    # scope-opening constructor -> fields evaluated in the ENCLOSING scope
    "FunctionDef": ["decorator_list", "returns", "args.defaults", "args.kw_defaults", "args.*.annotation", "type_params"],
    "AsyncFunctionDef": ["decorator_list", "returns", "args.defaults", "args.kw_defaults", "args.*.annotation", "type_params"],
    "Lambda": ["args.defaults", "args.kw_defaults"],
    "ClassDef": ["decorator_list", "bases", "keywords", "type_params"],
    "ListComp": ["generators[0].iter"],
    "SetComp": ["generators[0].iter"],
    "DictComp": ["generators[0].iter"],
    "GeneratorExp": ["generators[0].iter"],
}
REDIRECTS = ["Global", "Nonlocal"]
# fields whose execution is conditional on run-time values
CONDITIONAL: List[Tuple[str, str]] = [
    ("If", "body"), ("If", "orelse"), ("While", "body"), ("While", "orelse"), ("For", "body"), ("For", "orelse"),
    ("AsyncFor", "body"), ("AsyncFor", "orelse"), ("Try", "body"), ("Try", "handlers"), ("Try", "orelse"),
    ("TryStar", "body"), ("TryStar", "handlers"), ("TryStar", "orelse"), ("Match", "cases"),
]
LOOPS = ["For", "AsyncFor", "While"]
GENERATOR = ["Yield", "YieldFrom"]
TWINS = [("For", "AsyncFor"), ("With", "AsyncWith"), ("FunctionDef", "AsyncFunctionDef"), ("Yield", "YieldFrom"),
         ("Try", "TryStar"), ("ListComp", "SetComp"), ("ListComp", "GeneratorExp"), ("ListComp", "DictComp")]

# constructors that exist only from some version on: absent from older grammars without being an error
OPTIONAL_CTORS = {"TryStar", "TypeAlias", "TypeVar", "ParamSpec", "TypeVarTuple", "Match", "MatchAs", "MatchStar",
                  "MatchMapping", "match_case"}


def _crosscheck() -> None:
    def need(c, f=None):
        if c in OPTIONAL_CTORS and c not in G.ctors:
            return
        if not G.has(c, f):
            raise AnalysisError(f"oracle table names {c}.{f} which the interpreter's grammar ({sys.version.split()[0]}) does not have")

    for c, f, _ in BINDS:
        need(c, f)
    for c, f in TARGET_FIELDS + CONDITIONAL:
        need(c, f)
    for s in PARAM_SLOTS + list(DEFAULT_ALIGNMENT):
        need("arguments", s)
    for c in list(SCOPES) + REDIRECTS + LOOPS + GENERATOR:
        need(c)
    for c, fs in SCOPES.items():
        for f in fs:
            need(c, f.split(".")[0].split("[")[0])


_crosscheck()


def present(names) -> List[str]:
    return [n for n in names if n in G.ctors]
