"""C12 -- closing and reopening a project loses nothing (writer/reader agreement R12.1-R12.18)."""
from __future__ import annotations

import ast
from typing import Dict, List, Optional, Set, Tuple

from .. import report
from ..cfg import CFG
from ..core import AnalysisError, call_name, calls_in, const_str, is_self_attr, norm, walk_local, param_names
from . import common

EXPLANATION = (
    "Writer/reader table agreement.  R12.1: for every concrete Change kind, ChangeToData.convert<K> and "
    "DataToChange.make<K> both exist, tuple arity fits the reader's parameters, and the i-th tuple element is read "
    "from the same attribute of K that the i-th parameter flows into (taint through constructor and __init__).  "
    "R12.2: per (python type, version) the JSON representation the encoder emits is decoded back to the same type "
    "by the decoder (tag constants, version guards and asserts read from the CFG).  R12.3: inline-key predicate is "
    "the same method negated on both sides; reserved key rejected.  R12.4: __getstate__/__setstate__ tag and field "
    "order agree.  R12.5: every data-file name written is read and vice versa; dump/load act on the same path "
    "expression.  R12.6 (=R16.3): a content change rebuilt from data reads the file before writing it.  R12.7: the "
    "history writer's list order equals the loader's index order.  R12.10: a save is never skipped on a condition over the data (an empty history still rewrites the file).  R12.9: no saved field depends on the change's class identity against a class the reader does not rebuild.  R12.8: a non-inline dict key is stored under the "
    "index at which it was appended to the reference table (evaluation-order aware).  Value-level round-trip equality is not decided."
    ' R12.12 (=R11.9): saved history slots come back in the saved order and into the list they were written from.'
    ' R12.13: a reloaded create/remove change gets a Folder exactly when the saved folder flag is set.'
)
EXPLANATION += ' R12.15: what do() finds out and undo() needs is saved.  R12.16 (=R16.14): the newline convention is captured after a read.'
EXPLANATION += ' R12.14: a change kind that can hold a folder saves the kind and is reloaded with it.'
EXPLANATION += " R12.17: a table of an object whose entries are computed from another table of the object is dropped, entry by entry, wherever the source table changes."
EXPLANATION += " R12.18: in the history loader every round of the loop over the saved entries reaches the append into the history list (no entry is dropped at load time)."
ASSUMPTIONS = ["taint is flow-insensitive with control dependence on if-tests", "json.dumps/loads behave as documented"]


def _influence(fn: ast.AST, seeds: Dict[str, Set[str]]) -> Dict[str, Set[str]]:
    """Flow-insensitive taint: local name / 'self.attr' -> set of seed labels, with
    control dependence on if-tests and for-iterables."""
    inf: Dict[str, Set[str]] = {k: set(v) for k, v in seeds.items()}

    def labels(e: ast.AST) -> Set[str]:
        out: Set[str] = set()
        for x in ast.walk(e):
            if isinstance(x, ast.Name) and x.id in inf:
                out |= inf[x.id]
            elif is_self_attr(x) and f"self.{x.attr}" in inf:
                out |= inf[f"self.{x.attr}"]
        return out

    def visit(stmts, ctl: Set[str]):
        nonlocal changed
        for st in stmts:
            if isinstance(st, (ast.Assign, ast.AnnAssign, ast.AugAssign)):
                ts = st.targets if isinstance(st, ast.Assign) else [st.target]
                lab = (labels(st.value) if st.value is not None else set()) | ctl
                for t in ts:
                    for x in ast.walk(t):
                        key = x.id if isinstance(x, ast.Name) else f"self.{x.attr}" if is_self_attr(x) else None
                        if key and not lab <= inf.get(key, set()):
                            inf.setdefault(key, set()).update(lab)
                            changed = True
            elif isinstance(st, ast.If):
                c = ctl | labels(st.test)
                visit(st.body, c)
                visit(st.orelse, c)
            elif isinstance(st, (ast.For, ast.While)):
                c = ctl | labels(st.iter if isinstance(st, ast.For) else st.test)
                if isinstance(st, ast.For):
                    for x in ast.walk(st.target):
                        if isinstance(x, ast.Name) and not c <= inf.get(x.id, set()):
                            inf.setdefault(x.id, set()).update(c)
                            changed = True
                visit(st.body, c)
                visit(st.orelse, ctl)
            elif isinstance(st, (ast.With, ast.Try)):
                for f in ("body", "orelse", "finalbody"):
                    visit(getattr(st, f, []) or [], ctl)
                for h in getattr(st, "handlers", []):
                    visit(h.body, ctl)
            elif isinstance(st, ast.Expr) and isinstance(st.value, ast.Call):
                # receiver.mutator(args): receiver influenced by args
                c = st.value
                if isinstance(c.func, ast.Attribute) and c.func.attr in common.MUTATORS | {"add_change"}:
                    lab = set().union(*[labels(a) for a in c.args], ctl) if c.args else set(ctl)
                    r = c.func.value
                    key = r.id if isinstance(r, ast.Name) else f"self.{r.attr}" if is_self_attr(r) else None
                    if key and not lab <= inf.get(key, set()):
                        inf.setdefault(key, set()).update(lab)
                        changed = True

    changed = True
    n = 0
    while changed and n < 10:
        changed = False
        visit(fn.body, set())
        n += 1
    inf["__labels__"] = labels  # type: ignore
    return inf


def _param_to_attrs(idx, cls_q: str) -> Dict[str, Dict[int, Set[str]]]:
    """For class K: method -> positional param index (without self) -> attributes of self it flows into."""
    out: Dict[str, Dict[int, Set[str]]] = {}
    c = idx.classes[cls_q]
    for mname in ("__init__", "add_change"):
        m = idx.find_method(cls_q, mname)
        if not m:
            continue
        ps = m.call_params()
        inf = _influence(m.node, {p: {p} for p in ps})
        # super().__init__(x) forwarding
        fwd: Dict[str, Set[str]] = {}
        for call in calls_in(m.node):
            if isinstance(call.func, ast.Attribute) and call.func.attr == "__init__" and isinstance(call.func.value, ast.Call):
                base = idx.mro(cls_q)[1] if len(idx.mro(cls_q)) > 1 else None
                if base in idx.classes:
                    sub = _param_to_attrs(idx, base).get("__init__", {})
                    lab = inf["__labels__"]
                    for j, a in enumerate(call.args):
                        for p in lab(a):
                            fwd.setdefault(p, set()).update(sub.get(j, set()))
        res: Dict[int, Set[str]] = {}
        for i, p in enumerate(ps):
            attrs = {k[5:] for k, v in inf.items() if k.startswith("self.") and p in v}
            attrs |= fwd.get(p, set())
            res[i] = attrs
        out[mname] = res
    return out


def _root_attr(e: ast.AST, obj: str) -> Set[str]:
    """Attributes of `obj` an expression reads: change.resource.path -> {'resource'}."""
    out = set()
    for x in ast.walk(e):
        if isinstance(x, ast.Attribute) and isinstance(x.value, ast.Name) and x.value.id == obj:
            out.add(x.attr)
    return out


def check(ctx, res) -> None:
    _check_main(ctx, res)
    _save_is_unconditional(ctx, res)
    from .c18 import history_loader_rule

    history_loader_rule(ctx, res, "R12.11")
    from .c18 import history_order_rule

    history_order_rule(ctx, res, "R12.12")
    _resource_kind_rule(ctx, res)
    _kind_is_saved_rule(ctx, res)
    _undo_state_is_saved_rule(ctx, res)
    _every_saved_entry_is_loaded_rule(ctx, res)
    from .c16 import newline_capture_rule

    newline_capture_rule(ctx, res, "R12.16")
    from .common import derived_table_rule as _dt

    _dt(ctx, res, "R12.17", ('rope.base.oi.memorydb', 'rope.base.oi.objectdb', 'rope.base.history', 'rope.base.project', 'rope.base.change', 'rope.base.serializer'))


def _resource_kind_rule(ctx, res) -> None:
    """R12.13: a saved CreateResource / RemoveResource carries the flag "is a folder".  The change rebuilt from it is given
    a Folder exactly when the flag is set: every value the rebuilt resource can take comes from get_folder on the
    flag-true side and from get_file on the flag-false side (helpers read in place)."""
    idx = ctx.idx
    r = idx.need_class("rope.base.change.DataToChange")
    n = 0
    for mname, m in sorted(r.methods.items()):
        ps = param_names(m.node)
        flag = next((p for p in ps if "folder" in p), None)
        if not mname.startswith("make") or flag is None:
            continue
        n += 1
        node = common.inline_private_calls(idx, m)
        cfg = CFG(node)
        kinds = {}
        for nd in cfg.nodes:
            if nd.kind != "stmt" or nd.ast is None:
                continue
            for c in calls_in(nd.ast):
                for cn, cond, side in common.callee_names(node, c):  # (the getter may be picked by a conditional expression)
                    if cn in ("get_folder", "get_file"):
                        used = isinstance(nd.ast, (ast.Assign, ast.Return, ast.AnnAssign)) or any(
                            isinstance(p_, ast.Call) and c in p_.args for p_ in ast.walk(nd.ast))
                        pols = {pol for t, pol in cfg.guards(nd.id) if isinstance(t, ast.Name) and t.id == flag}
                        if isinstance(cond, ast.Name) and cond.id == flag:
                            pols = pols | {side}
                        kinds.setdefault(cn, []).append((used, pols, nd))
        bad = None
        for getter, want in (("get_folder", True), ("get_file", False)):
            uses = [(u, pols, nd) for u, pols, nd in kinds.get(getter, [])]
            if not any(u for u, _, _ in uses):
                bad = (f"the result of {getter}() is never used" if uses else f"{getter}() is never called", (uses[0][2] if uses else None))
            for u, pols, nd in uses:
                if u and pols != {want}:
                    bad = (f"{getter}() supplies the resource on a path where `{flag}` is {'not tested' if not pols else 'the opposite'}", nd)
        res.add("R12.13", f"DataToChange.{mname}|kind-follows-flag", bad is None, f"{m.unit.rel}:{(bad[1].lineno if bad and bad[1] is not None else m.node.lineno)}",
                f"the rebuilt resource is a Folder exactly when the saved `{flag}` flag is set" if bad is None else
                f"DataToChange.{mname}: {bad[0]}: a folder creation/removal reloaded from the saved history holds a File -- redoing it after a reopen creates "
                "a plain file where the folder was, and the data written at the next close says `False` where `True` was saved", function=m.qualname)
    res.floor("R12.13", "data-to-change constructors with a folder flag", n, 2)


def _check_main(ctx, res) -> None:
    idx = ctx.idx
    w = idx.need_class("rope.base.change.ChangeToData")
    r = idx.need_class("rope.base.change.DataToChange")
    wcall = w.methods.get("__call__")
    if not wcall:
        raise AnalysisError("anchor=ChangeToData.__call__ not found")
    # writer's aliasing: `if change_type in (A, B): change_type = C`
    alias: Dict[str, str] = {}
    wcfg0 = CFG(wcall.node)
    for nd in wcfg0.nodes:  # read off the guards, however the test is written
        if nd.kind == "stmt" and isinstance(nd.ast, ast.Assign) and isinstance(nd.ast.value, ast.Name):
            for t, pol in wcfg0.guards(nd.id):
                if pol and isinstance(t, ast.Compare) and isinstance(t.ops[0], ast.In) and isinstance(t.comparators[0], (ast.Tuple, ast.List, ast.Set)):
                    for e in t.comparators[0].elts:
                        if isinstance(e, ast.Name):
                            alias[e.id] = nd.ast.value.id
    # prefixes used by the dynamic dispatch
    def prefix(fn, cls) -> Optional[str]:
        for c in calls_in(fn):
            if call_name(c) == "getattr" and len(c.args) >= 2 and isinstance(c.args[1], ast.BinOp):
                k = idx.const_node(cls.unit.modname, c.args[1].left, cls)  # literal in place or a named class/module constant
                if k is not None and isinstance(k.value, str):
                    return k.value
        return None

    wp, rp = prefix(wcall.node, w), prefix(r.methods["__call__"].node, r) if "__call__" in r.methods else None
    if not wp or not rp:
        raise AnalysisError("anchor=dynamic dispatch prefixes of ChangeToData/DataToChange not found")

    kinds = []
    for c in common.change_classes(idx):
        k = alias.get(c.name, c.name)
        if k not in kinds:
            kinds.append(k)
    res.analysed["change_kinds"] = kinds
    for k in kinds:
        kq = f"rope.base.change.{k}"
        wm, rm = w.methods.get(wp + k), r.methods.get(rp + k)
        if not wm or not rm:
            res.fail("R12.1", f"{k}|exists", (wm or rm or w).where,
                     f"change kind {k} has no {'writer ' + wp + k if not wm else 'reader ' + rp + k}: "
                     "a history containing it cannot be " + ("saved" if not wm else "reloaded"))
            continue
        wnode = common.inlined(idx, wm)  # (`return _helper(change)` with a one-line helper reads like the tuple it returns)
        rets = [n for n in walk_local(wnode) if isinstance(n, ast.Return)]
        if len(rets) != 1 or not isinstance(rets[0].value, ast.Tuple):
            res.undecided("R12.1", f"{k}|arity", wm.where, "writer does not return a single tuple literal")
            continue
        elts = rets[0].value.elts
        obj = (wm.call_params() or [None])[0]  # the change object (first parameter a caller fills; the writer may be a static method)
        if obj is None:
            res.undecided("R12.1", f"{k}|arity", wm.where, "writer takes no change object")
            continue
        # resolve local names in the writer to attributes of the change
        winf = _influence(wm.node, {})
        loc: Dict[str, Set[str]] = {}
        for n in walk_local(wm.node):
            if isinstance(n, ast.Assign) and isinstance(n.targets[0], ast.Name):
                loc[n.targets[0].id] = _root_attr(n.value, obj)
        roots = []
        for e in elts:
            rs = _root_attr(e, obj)
            for x in ast.walk(e):
                if isinstance(x, ast.Name) and x.id in loc:
                    rs |= loc[x.id]
            roots.append(rs)
        # R12.9 the saved fields are functions of state the reader restores.  The reader rebuilds an object of the classes
        # it constructs; a writer field that depends on the change's CLASS identity (isinstance / type / __class__) against
        # a class the reader never constructs has a different value once the history has been reloaded and is saved again.
        built = {call_name(c) for c in calls_in(rm.node)}
        cls_tests = []
        for x in ast.walk(wm.node):
            if isinstance(x, ast.Call) and call_name(x) == "isinstance" and len(x.args) == 2 and isinstance(x.args[0], ast.Name) and x.args[0].id == obj:
                kk = x.args[1]
                for e in (kk.elts if isinstance(kk, ast.Tuple) else [kk]):
                    nm = e.attr if isinstance(e, ast.Attribute) else getattr(e, "id", None)
                    if nm and nm not in built:
                        cls_tests.append((x, nm))
            if isinstance(x, ast.Call) and call_name(x) == "type" and len(x.args) == 1 and isinstance(x.args[0], ast.Name) and x.args[0].id == obj:
                cls_tests.append((x, "type()"))
            if isinstance(x, ast.Attribute) and x.attr == "__class__" and isinstance(x.value, ast.Name) and x.value.id == obj:
                cls_tests.append((x, "__class__"))
        res.add("R12.9", f"{k}|class-identity", not cls_tests, f"{wm.unit.rel}:{(cls_tests[0][0] if cls_tests else wm.node).lineno}",
                "saved fields depend only on attributes of the change" if not cls_tests else
                f"{wp}{k} computes a saved field from the change's class identity ({ast.unparse(cls_tests[0][0])}), but {rp}{k} rebuilds "
                f"{sorted(b for b in built if b[:1].isupper())}: after one close/reopen the reloaded change is saved with a different value "
                "(a folder creation comes back as a file creation), so redo after the second reopen does something else")
        a = rm.node.args
        ps = rm.call_params()  # (the reader may be a static method)
        nreq = len(ps) - len(a.defaults)
        ok = nreq <= len(elts) <= len(ps) or (a.vararg is not None and len(elts) >= nreq)
        res.add("R12.1", f"{k}|arity", ok, rm.where,
                f"writer tuple has {len(elts)} element(s), reader accepts {nreq}..{len(ps)}" if ok else
                f"{wp}{k} returns {len(elts)} element(s) but {rp}{k} accepts {nreq}..{len(ps)} positional parameter(s): "
                "reloading the saved history raises TypeError")
        if not ok:
            continue
        # reader: param -> attributes of K
        rinf = _influence(rm.node, {p: {p} for p in ps})
        lab = rinf["__labels__"]
        p2a: Dict[str, Set[str]] = {p: set() for p in ps}
        for c in calls_in(rm.node):
            q = idx.resolve(rm.unit.modname, c.func)
            if q in idx.classes and (q == kq or idx.is_subclass(q, kq) or idx.is_subclass(kq, q)):
                table = _param_to_attrs(idx, q).get("__init__", {})
                init = idx.find_method(q, "__init__")
                iparams = param_names(init.node)[1:] if init else []
                ctl_ps = set()
                for st_ in walk_local(rm.node):  # `if flag: return K(a) else: return K(b)`: the flag decides what the argument is
                    if isinstance(st_, (ast.If, ast.IfExp)) and any(y is c for part in ([st_.body, st_.orelse] if isinstance(st_, ast.IfExp) else st_.body + st_.orelse) for y in ast.walk(part)):
                        ctl_ps |= lab(st_.test)
                for j, arg in enumerate(c.args):
                    for p in lab(arg) | ctl_ps:
                        p2a[p] |= table.get(j, set())
                for kw in c.keywords:
                    if kw.arg in iparams:
                        for p in lab(kw.value):
                            p2a[p] |= table.get(iparams.index(kw.arg), set())
            elif isinstance(c.func, ast.Attribute) and c.func.attr == "add_change":
                table = _param_to_attrs(idx, kq).get("add_change", {})
                for j, arg in enumerate(c.args):
                    for p in lab(arg):
                        p2a[p] |= table.get(j, set())
        # a field the constructor does not take, set on the rebuilt object: `result._x = x`
        for a_ in walk_local(rm.node):
            if isinstance(a_, ast.Assign) and len(a_.targets) == 1 and isinstance(a_.targets[0], ast.Attribute) and isinstance(a_.targets[0].value, ast.Name) \
                    and a_.targets[0].value.id != "self":
                for p in lab(a_.value):
                    p2a[p].add(a_.targets[0].attr)
        for i, (rs, p) in enumerate(zip(roots, ps)):
            if not rs or not p2a.get(p):
                res.undecided("R12.1", f"{k}|field{i}", rm.where, f"flow of element {i} / parameter '{p}' not resolved")
                continue
            ok = bool(rs & p2a[p])
            res.add("R12.1", f"{k}|field{i}", ok, rm.where,
                    f"element {i} read from {sorted(rs)} flows back into {sorted(rs & p2a[p])} via parameter '{p}'" if ok else
                    f"element {i} of {wp}{k} is read from attribute(s) {sorted(rs)} but parameter '{p}' of {rp}{k} flows into "
                    f"{sorted(p2a[p])}: a reloaded {k} has its fields swapped or dropped")
    res.floor("R12.1", "change kinds", len(kinds), 5)

    _serializer(ctx, res)
    _state_pair(ctx, res)
    _data_files(ctx, res)

    # ---- R12.6 = R16.3
    from . import c16

    tmp = report.Results("C16")
    c16.check(ctx, tmp)
    for i in tmp.instances:
        if i.rule == "R16.3":
            res.add("R12.6", i.key.split("|", 1)[1], i.status == report.OK if i.status != report.UNDECIDED else None,
                    i.where, i.what, **i.detail)

    # ---- R12.7 history writer order == loader index order: decided by the abstract writer/loader comparison of
    # history_order_rule (R12.12); R12.7 is its slot-index part
    from .c18 import history_order_rule

    tmp7 = report.Results("C12")
    history_order_rule(ctx, tmp7, "R12.7")
    swapped = [i for i in tmp7.instances if i.status == report.FAIL and ("rebuilt from slot" in i.what or "places of _load_history" in i.what)]
    und = [i for i in tmp7.instances if i.status == report.UNDECIDED]
    hist = idx.need_class("rope.base.history.History")
    ld = hist.methods["_load_history"]
    if und:
        res.undecided("R12.7", "History.write|_load_history", ld.where, und[0].what)
    else:
        res.add("R12.7", "History.write|_load_history", not swapped, swapped[0].where if swapped else ld.where,
                "every saved slot is restored into the list it was written from" if not swapped else
                f"{swapped[0].what}: undo and redo lists are swapped or lost on reload")


def _serializer(ctx, res) -> None:
    idx = ctx.idx
    enc = idx.need_func("rope.base.serializer._py2js")
    dec = idx.need_func("rope.base.serializer._js2py")
    top = idx.need_func("rope.base.serializer.python_to_json")
    versions: Set[int] = set()
    for n in walk_local(common.inlined(idx, top)):  # the version guard may live in a private helper
        if isinstance(n, ast.Compare) and isinstance(n.ops[0], (ast.NotIn, ast.In)) and isinstance(n.comparators[0], (ast.Tuple, ast.List, ast.Set)):
            versions = {e.value for e in n.comparators[0].elts if isinstance(e, ast.Constant)}
    if not versions:
        raise AnalysisError("anchor=serializer version domain not found")

    def facts(cfg: CFG, node) -> Tuple[Set[str], Set[int], Optional[str], bool]:
        """(isinstance types true, possible versions, tag tested equal, '$' in o) at node."""
        types, vs, tag, has_dollar = set(), set(versions), None, None
        gs = list(cfg.guards(node.id))
        for d in cfg.dominators().get(node.id, ()):
            dn = cfg.nodes[d]
            if dn.kind == "stmt" and isinstance(dn.ast, ast.Assert):
                gs.append((dn.ast.test, True))
        for t, pol in gs:
            if isinstance(t, ast.Call) and call_name(t) == "isinstance" and pol:
                k = t.args[1]
                for e in (k.elts if isinstance(k, ast.Tuple) else [k]):
                    if isinstance(e, ast.Name):
                        types.add(e.id)
            elif isinstance(t, ast.Compare) and isinstance(t.left, ast.Name) and t.left.id == "version" \
                    and isinstance(t.comparators[0], ast.Constant):
                v = t.comparators[0].value
                eq = isinstance(t.ops[0], ast.Eq)
                vs &= {v} if eq == pol else versions - {v}
            elif isinstance(t, ast.Compare) and isinstance(t.left, ast.Subscript) and const_str(t.left.slice) == "$" \
                    and isinstance(t.ops[0], ast.Eq) and pol:
                tag = const_str(t.comparators[0])
            elif isinstance(t, ast.Compare) and const_str(t.left) == "$" and isinstance(t.ops[0], ast.In):
                has_dollar = pol
        return types, vs, tag, has_dollar

    def shape(v: ast.AST) -> Optional[Tuple[str, Optional[str]]]:
        if isinstance(v, ast.Dict):
            for k, val in zip(v.keys, v.values):
                if const_str(k) == "$":
                    return ("tagged", const_str(val))
            return ("dict", None)
        if isinstance(v, ast.ListComp):
            return ("list", None)
        if isinstance(v, ast.Call) and call_name(v) in ("list", "tuple"):
            return (call_name(v), None)
        if isinstance(v, ast.Name) and v.id in dict_locals:
            return ("dict", None)
        if isinstance(v, ast.Name):
            return ("scalar", None)
        return None

    dict_locals = {n.targets[0].id for fn in (enc, dec) for n in walk_local(fn.node)
                   if isinstance(n, ast.Assign) and isinstance(n.targets[0], ast.Name) and isinstance(n.value, ast.Dict) and not n.value.keys}
    ecfg, dcfg = CFG(common.inline_private_calls(idx, enc)), CFG(common.inline_private_calls(idx, dec))  # loops moved into private helpers are read in place
    emit: Dict[Tuple[str, int], Tuple[str, Optional[str]]] = {}
    for n in ecfg.nodes:
        if n.kind == "stmt" and isinstance(n.ast, ast.Return) and n.ast.value is not None:
            types, vs, _, _ = facts(ecfg, n)
            sh = shape(n.ast.value)
            for t in types:
                for v in vs:
                    if t in ("tuple", "list") and sh:
                        emit[(t, v)] = sh
    accept: Dict[Tuple[Tuple[str, Optional[str]], int], str] = {}
    for n in dcfg.nodes:
        if n.kind == "stmt" and isinstance(n.ast, ast.Return) and n.ast.value is not None:
            types, vs, tag, has_dollar = facts(dcfg, n)
            sh = shape(n.ast.value)
            if sh is None or sh[0] not in ("list", "tuple"):
                continue
            for v in vs:
                if "list" in types:
                    accept[(("list", None), v)] = sh[0]
                elif "dict" in types and tag is not None:
                    accept[(("tagged", tag), v)] = sh[0]
    res.analysed["serializer_emit"] = {f"{k}": v for k, v in emit.items()}
    res.analysed["serializer_accept"] = {f"{k}": v for k, v in accept.items()}
    n = 0
    for (t, v), sh in sorted(emit.items()):
        n += 1
        back = accept.get((sh, v))
        res.add("R12.2", f"{t}|v{v}", back == t, enc.where,
                f"{t} (version {v}) is emitted as {sh} and decoded back to {back}" if back == t else
                f"a Python {t} encoded with version {v} is emitted as {sh} but the decoder turns that into {back}: "
                "the value changes type (or is rejected) after a JSON round trip")
    res.floor("R12.2", "(type, version) pairs", n, 4)
    etags = {sh[1] for sh in emit.values() if sh[0] == "tagged"}
    dtags = {k[0][1] for k in accept if k[0][0] == "tagged"}
    res.add("R12.2", "tags", etags == dtags, dec.where,
            f"encoder and decoder agree on the tag set {sorted(etags)}" if etags == dtags else
            f"encoder emits tags {sorted(etags)}, decoder accepts {sorted(dtags)}")

    # R12.3 key predicate
    def key_stores(cfg: CFG, fn):
        out = []
        for n in cfg.nodes:
            if n.kind == "stmt" and isinstance(n.ast, ast.Assign) and isinstance(n.ast.targets[0], ast.Subscript) \
                    and isinstance(n.ast.targets[0].value, ast.Name) and n.ast.targets[0].value.id in dict_locals:
                keyexpr = n.ast.targets[0].slice
                preds = []
                for t, pol in cfg.guards(n.id):
                    if isinstance(t, ast.Call) and isinstance(t.func, ast.Attribute) and isinstance(t.func.value, ast.Name) \
                            and t.func.attr.startswith("is") and not t.args:
                        preds.append((t.func.attr, pol, t.func.value.id))
                out.append((keyexpr, preds, n))
        return out

    es, ds = key_stores(ecfg, enc), key_stores(dcfg, dec)
    e_inline = [p for k, ps, n in es if isinstance(k, ast.Name) for p in ps]
    d_inline = [p for k, ps, n in ds for p in ps if isinstance(k, ast.Name) and not p[1]]
    d_ref = [p for k, ps, n in ds for p in ps if p[1]]
    ok = bool(e_inline) and bool(d_inline) and bool(d_ref) and \
        {(m, pol) for m, pol, _ in e_inline} == {(m, pol) for m, pol, _ in d_inline} and \
        {m for m, _, _ in d_ref} == {m for m, _, _ in e_inline}
    res.add("R12.3", "inline-key-predicate", ok, enc.where,
            f"inline keys are those with {e_inline[0][0]}() false on both sides" if ok else
            f"encoder stores a key inline under {[(m, p) for m, p, _ in e_inline]} but the decoder treats a key as inline under "
            f"{[(m, p) for m, p, _ in d_inline]}: some string keys are decoded as reference ids (or vice versa)")
    _refid_rule(ctx, res, enc)
    reserved = any(isinstance(n.ast, ast.Raise) and any(
        isinstance(t, ast.Compare) and const_str(t.comparators[0]) == "$" and pol for t, pol in ecfg.guards(n.id))
        for n in ecfg.nodes if n.kind == "stmt")
    res.add("R12.3", "reserved-key", reserved, enc.where,
            'the encoder rejects the reserved key "$"' if reserved else
            'the encoder accepts a dict containing the reserved key "$": the decoder then misreads the dict as a tagged object')


def _eval_order(node: ast.AST) -> List[ast.AST]:
    """Sub-expressions of a statement in Python's evaluation order (value before targets for assignments,
    operands before the operation, arguments before the call)."""
    out: List[ast.AST] = []
    if isinstance(node, ast.Assign):
        out += _eval_order(node.value)
        for t in node.targets:
            out += _eval_order(t)
        return out
    if isinstance(node, ast.AugAssign):
        return _eval_order(node.target) + _eval_order(node.value)
    for c in ast.iter_child_nodes(node):
        out += _eval_order(c)
    out.append(node)
    return out


def _refid_rule(ctx, res, enc) -> None:
    """R12.8: a dict entry with a non-inline key is stored under the index at which that key was appended to the
    reference table (the decoder looks the key up at exactly that index)."""
    ps = param_names(enc.node)
    if len(ps) < 2:
        raise AnalysisError("anchor=_py2js(o, references, version) signature changed")
    refs = ps[1]
    loops = [n for n in walk_local(enc.node) if isinstance(n, ast.For) and isinstance(n.iter, ast.Call)
             and call_name(n.iter) == "items" and isinstance(n.target, ast.Tuple) and len(n.target.elts) == 2]
    if not loops:
        raise AnalysisError("anchor=_py2js dict loop 'for key, value in o.items()' not found")
    keyv, valv = (e.id for e in loops[0].target.elts)

    def is_len(n):
        return isinstance(n, ast.Call) and call_name(n) == "len" and n.args and isinstance(n.args[0], ast.Name) and n.args[0].id == refs

    def is_app(n):
        return isinstance(n, ast.Call) and isinstance(n.func, ast.Attribute) and n.func.attr == "append" \
            and isinstance(n.func.value, ast.Name) and n.func.value.id == refs

    def is_rec_value(n):
        return isinstance(n, ast.Call) and not is_len(n) and not is_app(n) \
            and any(isinstance(a, ast.Name) and a.id == refs for a in n.args) \
            and any(isinstance(x, ast.Name) and x.id == valv for a in n.args for x in ast.walk(a))

    # the block containing the append
    blocks = []
    for n in ast.walk(loops[0]):
        for f in ("body", "orelse"):
            b = getattr(n, f, None)
            if isinstance(b, list) and any(is_app(x) for st in b for x in ast.walk(st) if isinstance(st, ast.stmt)) \
                    and any(isinstance(st, (ast.Expr, ast.Assign)) and any(is_app(x) for x in ast.walk(st)) for st in b):
                blocks.append(b)
    if not blocks:
        raise AnalysisError("anchor=_py2js 'references.append(<encoded key>)' not found")
    blk = blocks[-1]
    events: List[ast.AST] = []
    for st in blk:
        events += _eval_order(st)
    app_i = next(i for i, e in enumerate(events) if is_app(e))
    # the store result[K] = V and the id expression
    stores = [st for st in blk if isinstance(st, ast.Assign) and isinstance(st.targets[0], ast.Subscript)
              and isinstance(st.targets[0].value, ast.Name) and st.targets[0].value.id in
              {n.targets[0].id for n in walk_local(enc.node) if isinstance(n, ast.Assign) and isinstance(n.targets[0], ast.Name)
               and isinstance(n.value, ast.Dict) and not n.value.keys}]
    if not stores:
        res.undecided("R12.8", "refid", enc.where, "store into the encoded dict not found next to the reference append")
        return
    K = stores[-1].targets[0].slice
    id_expr = None
    if any(is_len(x) for x in ast.walk(K)):
        id_expr = K
    else:
        names = {x.id for x in ast.walk(K) if isinstance(x, ast.Name)}
        for st in blk:
            if isinstance(st, ast.Assign) and isinstance(st.targets[0], ast.Name) and st.targets[0].id in names \
                    and any(is_len(x) for x in ast.walk(st.value)):
                id_expr = st.value
    if id_expr is None:
        res.undecided("R12.8", "refid", enc.where, "reference id is not computed from len(references)")
        return
    len_node = next(x for x in ast.walk(id_expr) if is_len(x))
    len_i = next(i for i, e in enumerate(events) if e is len_node)
    minus_one = any(isinstance(x, ast.BinOp) and isinstance(x.op, ast.Sub) and x.left is len_node
                    and isinstance(x.right, ast.Constant) and x.right.value == 1 for x in ast.walk(id_expr))
    lo, hi = sorted((len_i, app_i))
    between = [e for e in events[lo + 1:hi] if is_rec_value(e)]
    if len_i < app_i:
        ok = not minus_one and not between
    else:
        ok = minus_one and not between
    res.add("R12.8", "refid", ok, f"{enc.unit.rel}:{stores[-1].lineno}",
            "the reference id is the index at which the key is appended (computed with no value-encoding in between)" if ok else
            "the reference id under which a dict entry is stored is computed " + ("after" if len_i > app_i else "before")
            + " the key is appended" + (", with the entry's value being encoded in between (Python evaluates the right-hand side before the subscript)"
                                        if between else "") + (" without the matching -1/+0 adjustment" if not between else "")
            + ": a nested dict with a non-string key shifts the table and the entry decodes under the wrong key")


def _state_pair(ctx, res) -> None:
    idx = ctx.idx
    n = 0
    for c in sorted(idx.classes.values(), key=lambda c: c.qualname):
        g, s = c.methods.get("__getstate__"), c.methods.get("__setstate__")
        if not (g and s):
            continue
        n += 1
        wtag = [const_str(x.value) for x in walk_local(g.node) if isinstance(x, ast.Assign)
                and isinstance(x.targets[0], ast.Subscript) and const_str(x.targets[0].slice) == "$"]
        rtag = [const_str(x.comparators[0]) for x in walk_local(s.node) if isinstance(x, ast.Compare)
                and isinstance(x.left, ast.Subscript) and const_str(x.left.slice) == "$"]
        if wtag or rtag:
            ok = bool(wtag) and set(wtag) == set(rtag)
            res.add("R12.4", f"{c.name}|tag", ok, s.where,
                    f"__getstate__ writes tag {wtag} and __setstate__ checks {rtag}" if ok else
                    f"{c.name}.__getstate__ writes tag {wtag} but __setstate__ expects {rtag}: saved object information is rejected on reload")
        # field order: tuple packed == tuple unpacked
        packed = [x.value for x in walk_local(g.node) if isinstance(x, ast.Assign) and isinstance(x.value, ast.Tuple)
                  and all(is_self_attr(e) for e in x.value.elts)]
        unpacked = [x.targets[0] for x in walk_local(s.node) if isinstance(x, ast.Assign) and isinstance(x.targets[0], ast.Tuple)
                    and all(is_self_attr(e) for e in x.targets[0].elts)]
        if packed and unpacked:
            po = [e.attr for e in packed[0].elts]
            ok = all([e.attr for e in u.elts] == po for u in unpacked)
            res.add("R12.4", f"{c.name}|fields", ok, s.where,
                    f"state fields are packed and unpacked in the same order {po}" if ok else
                    f"{c.name}: __getstate__ packs {po} but __setstate__ unpacks {[[e.attr for e in u.elts] for u in unpacked]}")
        # codec pair
        enc = {call_name(x) for x in calls_in(g.node)} & {"python_to_json", "json_to_python"}
        dec = {call_name(x) for x in calls_in(s.node)} & {"python_to_json", "json_to_python"}
        if enc or dec:
            ok = enc == {"python_to_json"} and dec == {"json_to_python"}
            res.add("R12.4", f"{c.name}|codec", ok, g.where,
                    "state is encoded with python_to_json and decoded with json_to_python" if ok else
                    f"{c.name}: state encoded with {sorted(enc)} but decoded with {sorted(dec)}")
    res.floor("R12.4", "__getstate__/__setstate__ pairs", n, 1)


def _data_files(ctx, res) -> None:
    idx = ctx.idx
    names_w, names_r = {}, {}
    for f in idx.functions.values():
        for c in calls_in(f.node):
            if isinstance(c.func, ast.Attribute) and c.func.attr in ("write_data", "read_data") and c.args:
                nm = const_str(c.args[0])
                if nm is None:
                    continue
                (names_w if c.func.attr == "write_data" else names_r).setdefault(nm, []).append(f"{f.unit.rel}:{c.lineno}")
    for nm in sorted(set(names_w) | set(names_r)):
        ok = nm in names_w and nm in names_r
        res.add("R12.5", f"datafile|{nm}", ok, (names_w.get(nm) or names_r.get(nm))[0],
                f"data file '{nm}' is both written and read" if ok else
                f"data file '{nm}' is {'written but never read' if nm in names_w else 'read but never written'}: what is saved at close is not what is loaded at open")
    res.floor("R12.5", "data-file names", len(set(names_w) | set(names_r)), 2)
    df = idx.need_class("rope.base.project._DataFiles")
    rd, wr = df.methods.get("read_data"), df.methods.get("write_data")
    if not rd or not wr:
        raise AnalysisError("anchor=_DataFiles.read_data/write_data not found")

    def stream_path(fn, api: str) -> Optional[str]:
        """path expression of the open() whose handle is passed to pickle.<api>."""
        handles = {}
        singles: Dict[str, List[ast.expr]] = {}
        for n in walk_local(fn):
            if isinstance(n, ast.Assign):
                for t in n.targets:
                    if isinstance(t, ast.Name):
                        singles.setdefault(t.id, []).append(n.value)

        class _Sub(ast.NodeTransformer):
            def visit_Name(self, node):
                v = singles.get(node.id)
                if isinstance(node.ctx, ast.Load) and v is not None and len(v) == 1 and not any(isinstance(x, ast.Call) and call_name(x) == "open" for x in ast.walk(v[0])):
                    import copy
                    return self.visit(copy.deepcopy(v[0])) if sum(1 for _ in ast.walk(v[0])) < 40 else node
                return node

        def pnorm(e):  # a path held in a local that is bound once reads like the expression it was bound to
            import copy
            return norm(_Sub().visit(copy.deepcopy(e)))
        for n in walk_local(fn):
            if isinstance(n, ast.With):
                for it in n.items:
                    if isinstance(it.context_expr, ast.Call) and call_name(it.context_expr) == "open" and it.optional_vars is not None:
                        handles[it.optional_vars.id] = pnorm(it.context_expr.args[0])
            if isinstance(n, ast.Assign) and isinstance(n.value, ast.Call):
                for x in ast.walk(n.value):
                    if isinstance(x, ast.Call) and call_name(x) == "open" and x.args and isinstance(n.targets[0], ast.Name):
                        handles[n.targets[0].id] = pnorm(x.args[0])
        for c in calls_in(fn):
            if isinstance(c.func, ast.Attribute) and c.func.attr == api and isinstance(c.func.value, ast.Name) \
                    and c.func.value.id == "pickle":
                h = c.args[0] if api == "load" else c.args[1]
                if isinstance(h, ast.Name) and h.id in handles:
                    return handles[h.id]
        return None

    # (the pickle loop may live in a private helper that is handed the open stream: read in place)
    a, b = stream_path(common.inlined(idx, rd), "load"), stream_path(common.inlined(idx, wr), "dump")
    if a is None or b is None:
        res.undecided("R12.5", "codec-path", rd.where, "pickle stream path not resolved")
    else:
        res.add("R12.5", "codec-path", a == b, rd.where,
                "pickle.dump and pickle.load act on the same path expression" if a == b else
                "pickle.dump writes a different path than pickle.load reads: saved data is never loaded")
    # both derive the file from the same helper with the name parameter
    ga = [norm(c) for c in calls_in(rd.node) if is_self_attr(c.func)]
    gb = [norm(c) for c in calls_in(wr.node) if is_self_attr(c.func)]
    if not set(ga) & set(gb):
        # the helper may have been inlined into both: then the two compute the file from the name by the same expression
        def from_name(fn):
            node = common.inlined(idx, fn)
            ps = fn.call_params()
            out = set()
            for a_ in walk_local(node):
                if isinstance(a_, ast.Assign):
                    v = common._subst_single_locals(node, a_.value)
                    if ps and any(isinstance(x, ast.Name) and x.id == ps[0] for x in ast.walk(v)) and any(isinstance(x, ast.Call) for x in ast.walk(v)):
                        out.add(norm(v))
            return out
        ga, gb = list(from_name(rd)), list(from_name(wr))
    res.add("R12.5", "file-of-name", bool(set(ga) & set(gb)), wr.where,
            "reader and writer map the data name to a file with the same helper call" if set(ga) & set(gb) else
            "reader and writer map the data-file name to a path differently")


def _save_is_unconditional(ctx, res) -> None:
    """R12.10: when saving is enabled, the data file is REWRITTEN at every save -- also when there is nothing to keep.
    A save that is skipped for empty data leaves the file of an earlier session on disk, and the dropped changes / stale
    object information come back on reopen.  Every guard of a write_data call is a configuration flag, never the data."""
    from ..cfg import CFG

    idx = ctx.idx
    n = 0
    for f in sorted(idx.functions.values(), key=lambda f: f.qualname):
        if not f.unit.modname.startswith("rope.base."):
            continue
        sites = [c for c in calls_in(f.node) if call_name(c) == "write_data" and len(c.args) >= 2]
        if not sites:
            continue
        cfg = CFG(f.node)

        def is_config(t: ast.AST) -> bool:
            """`self.<prop>` where <prop> is a property of the class that reads the project preferences"""
            if not (is_self_attr(t) and f.cls is not None):
                return False
            m = idx.find_method(f.cls.qualname, t.attr)
            return m is not None and "property" in m.decorator_names() and any(
                call_name(c) == "get" and isinstance(c.func, ast.Attribute) and "prefs" in ast.unparse(c.func.value) for c in calls_in(m.node))

        for c in sites:
            n += 1
            wnodes = [nd.id for nd in cfg.node_containing(c)]
            cfg_false = [(nd.id, d, l) for nd in cfg.nodes if nd.kind == "test" and nd.ast is not None and is_config(nd.ast)
                         for d, l in cfg.succ[nd.id] if l == "false"]
            free = cfg.reachable(cfg.entry.id, avoid_nodes=wnodes, avoid_edges=cfg_false,
                                 labels={"", "true", "false", "return", "case", "nomatch", "break", "continue"})
            skipping = cfg.exit.id in free
            short = f.qualname.split(".", 2)[-1]
            other = [ast.unparse(nd.ast) for nd in cfg.nodes if nd.kind == "test" and nd.ast is not None and not is_config(nd.ast) and nd.id in free]
            res.add("R12.10", f"{short}|unconditional-save", not skipping, f"{f.unit.rel}:{c.lineno}",
                    "with saving enabled every normal path rewrites the data file" if not skipping else
                    f"{short} can return without calling write_data although saving is enabled (tests on the way: {other[:3]}): when the history / object "
                    "information is empty at close, the file written by an earlier session stays on disk and its contents reappear when the project is reopened",
                    function=f.qualname)
    res.floor("R12.10", "write_data call sites in rope/base", n, 2)
    # ... and inside the writer itself: with a rope folder, every normal path dumps.  "Equal to what was last read or
    # written" is no reason to skip: the consumer mutates the very object it was handed (MemoryDB keeps the dict that
    # read_data returned), so such a comparison compares the data with itself.
    wd = idx.need_func("rope.base.project._DataFiles.write_data")
    wcfg = CFG(common.inlined(idx, wd))
    dumps = [nd.id for nd in wcfg.nodes if nd.ast is not None and nd.kind == "stmt" and any(
        isinstance(c.func, ast.Attribute) and c.func.attr == "dump" for c in calls_in(nd.ast))]
    if not dumps:
        raise AnalysisError("anchor=_DataFiles.write_data: dump not found")
    folder_off = [(nd.id, d, l) for nd in wcfg.nodes if nd.kind == "test" and nd.ast is not None and "ropefolder" in ast.unparse(nd.ast)
                  for d, l in wcfg.succ[nd.id]
                  if l == ("false" if isinstance(nd.ast, ast.Compare) and isinstance(nd.ast.ops[0], ast.IsNot) else "true" if isinstance(nd.ast, ast.Compare) else "false")]
    free = wcfg.reachable(wcfg.entry.id, avoid_nodes=dumps, avoid_edges=folder_off,
                          labels={"", "true", "false", "return", "case", "nomatch", "break", "continue"})
    skipping = wcfg.exit.id in free
    tests = [ast.unparse(nd.ast) for nd in wcfg.nodes if nd.kind == "test" and nd.ast is not None and nd.id in free and "ropefolder" not in ast.unparse(nd.ast)]
    res.add("R12.10", "_DataFiles.write_data|always-dumps", not skipping, wd.where,
            "with a rope folder every normal path of write_data dumps the data" if not skipping else
            f"write_data can return without dumping although the project has a rope folder (tests on the way: {tests[:2]}): data that changed in place since it was "
            "read -- the object database is the very dict read_data returned -- compares equal to the remembered object and is never saved", function=wd.qualname)


def _kind_is_saved_rule(ctx, res) -> None:
    """R12.14: a Resource is a path AND a kind (File / Folder); containment, equality and the dependency closure of undo depend on
    the kind.  A change class that can hold a folder -- its own code asks `is_folder()` or builds with `get_folder` -- must
    come back from the saved data with the same kind: its reader (`DataToChange.make<K>`) chooses `get_folder` /
    `get_file` by a saved flag (R12.13 then decides that the flag is used the right way round), and its writer stores one
    (`is_folder()` in the returned tuple).  A reader that always calls `get_file` turns a saved folder move into a file move."""
    idx = ctx.idx
    w = idx.need_class("rope.base.change.ChangeToData")
    r = idx.need_class("rope.base.change.DataToChange")
    n = 0
    for c in common.change_classes(idx):
        own = [m.node for m in c.methods.values()]
        handles_folders = any(isinstance(x, ast.Call) and call_name(x) in ("is_folder", "get_folder") for fn in own for x in ast.walk(fn))
        wm, rm = w.methods.get("convert" + c.name), r.methods.get("make" + c.name)
        if not handles_folders or wm is None or rm is None:
            continue
        n += 1
        rnode = common.inlined(idx, rm)
        called = {cn for x in calls_in(rnode) for cn, _, _ in common.callee_names(rnode, x)}
        reader_chooses = {"get_folder", "get_file"} <= called
        writer_saves = any(isinstance(x, ast.Call) and call_name(x) == "is_folder" for x in ast.walk(common.inlined(idx, wm)))
        ok = reader_chooses and writer_saves
        res.add("R12.14", f"{c.name}|kind-saved-and-restored", ok, rm.where,
                "the kind of the resource is saved and the reader rebuilds a Folder or a File accordingly" if ok else
                f"{c.name} can hold a folder, but " + ("its saved form has no kind flag" if not writer_saves else "") + (" and " if not writer_saves and not reader_chooses else "") +
                (f"make{c.name} always rebuilds the resource with get_file" if not reader_chooses else "") +
                ": after closing and reopening the project a folder move is a change of File objects -- `File('pkg')` contains nothing and equals no Folder, so a selective "
                "undo of the move no longer takes the edits inside the folder along and leaves a tree that never existed", function=rm.qualname)
    res.floor("R12.14", "change kinds that can hold a folder", n, 1)


def _undo_state_is_saved_rule(ctx, res) -> None:
    """R12.15: a performed change sits in the undo list; what its `undo()` needs is partly found out by `do()` (the old
    contents, the newline convention the file had).  After closing and reopening the project the change is rebuilt from the
    saved tuple and `do()` is NOT run again.  Every attribute that `do()` assigns and `undo()` reads is therefore part
    of what the writer (`ChangeToData.convert<K>`) saves."""
    idx = ctx.idx
    w = idx.need_class("rope.base.change.ChangeToData")
    n = 0
    for c in common.change_classes(idx):
        do, undo = c.methods.get("do"), c.methods.get("undo")
        wm = w.methods.get("convert" + c.name)
        if do is None or undo is None or wm is None:
            continue
        set_by_do = {t.attr for x in walk_local(common.inlined(idx, do)) if isinstance(x, ast.Assign) for t in x.targets if is_self_attr(t)}
        read_by_undo = {x.attr for x in ast.walk(common.inlined(idx, undo)) if is_self_attr(x) and isinstance(x.ctx, ast.Load)}
        saved = {x.attr for x in ast.walk(common.inlined(idx, wm)) if isinstance(x, ast.Attribute)}
        for attr in sorted(set_by_do & read_by_undo):
            n += 1
            ok = attr in saved
            res.add("R12.15", f"{c.name}.{attr}|found-out-by-do-needed-by-undo-saved", ok, wm.where,
                    f"{c.name}.{attr} is saved" if ok else
                    f"{c.name}.do() finds out `self.{attr}` and undo() uses it, but convert{c.name} does not save it: a change reloaded from the history has the "
                    "initial value -- e.g. a CRLF file overwritten with text that has no line break, close, reopen, undo: the old text comes back with LF line ends",
                    function=wm.qualname)
    res.floor("R12.15", "attributes found out by do() and needed by undo()", n, 1)


def _every_saved_entry_is_loaded_rule(ctx, res) -> None:
    """R12.18: what was on the undo and redo lists when the project was closed is on them after it is reopened -- ALL of it: whether a
    saved change can still be undone is found out when it is undone (and refused there), not guessed at load time from what is
    on disk now (an earlier change on a path that a later entry of the same history moved or removed "has no existing resource"
    and is perfectly undoable once the later ones are undone).  In the loader every iteration over the saved entries reaches the
    append into the history list: no `continue` / condition in front of it, no filtering comprehension."""
    idx = ctx.idx
    hist = idx.need_class("rope.base.history.History")
    ld = hist.methods.get("_load_history")
    if ld is None:
        raise AnalysisError("anchor=History._load_history missing")
    node = common.inlined(idx, ld)
    cfg = CFG(node)
    n = 0
    for lp in [x for x in cfg.nodes if x.kind == "loop" and isinstance(x.ast, ast.For)]:
        inside = {id(y) for st in lp.ast.body for y in ast.walk(st)}
        appends = [nd.id for nd in cfg.nodes if nd.ast is not None and id(nd.ast) in inside and nd.kind in ("stmt", "test") and any(
            isinstance(c.func, ast.Attribute) and c.func.attr in ("append", "insert", "appendleft") and is_self_attr(c.func.value) for c in calls_in(nd.ast))]
        if not appends:
            continue
        n += 1
        body_entry = [b for b, lab in cfg.succ[lp.id] if lab == "true"]
        # from the start of the body, can the loop header be reached again (next round) or the loop be left without passing the append?
        skipped = bool(body_entry) and any(t in cfg.reachable(body_entry[0], avoid_nodes=appends) for t in [lp.id] + [b for b, lab in cfg.succ[lp.id] if lab != "true"]) \
            and body_entry[0] not in appends
        res.add("R12.18", f"History._load_history|every-saved-entry-is-loaded#{n}", not skipped, f"{ld.unit.rel}:{lp.ast.lineno}",
                "every saved entry reaches the append into the history list" if not skipped else
                "a round of the loop over the saved entries can end without appending the rebuilt change: entries are dropped at load time (by a test of what exists on disk NOW, "
                "...), so the undo list after a reopen is shorter than the one that was saved -- an edit of `mod.py` followed by a rename of `mod.py` loses the edit, and the "
                "second undo() is refused with 'Undo list is empty'", function=ld.qualname)
    # the same written as `<list>.extend(to_change(d) for d in saved)` / a list comprehension: no `if` in it
    for x in walk_local(node):
        if isinstance(x, (ast.ListComp, ast.GeneratorExp)) and isinstance(x.elt, ast.Call) and len(x.generators) == 1 \
                and any(isinstance(y, ast.Subscript) or isinstance(y, ast.Name) for y in ast.walk(x.generators[0].iter)):
            n += 1
            filtered = bool(x.generators[0].ifs)
            res.add("R12.18", f"History._load_history|every-saved-entry-is-loaded#{n}", not filtered, f"{ld.unit.rel}:{x.lineno}",
                    "every saved entry is rebuilt into the history list" if not filtered else
                    f"`{ast.unparse(x)[:70]}` filters the saved entries while rebuilding them: the history after a reopen is shorter than the one saved", function=ld.qualname)
    res.floor("R12.18", "loops that rebuild saved history entries", n, 1)
