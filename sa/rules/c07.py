"""C07 -- import tidying never changes what a name means (R07.1-R07.20)."""
from __future__ import annotations

import ast
from typing import List, Set

from .. import vgc as vgc_mod
from ..cfg import CFG
from ..core import AnalysisError, call_name, calls_in, const_str, dotted, is_self_attr, norm, walk_local
from ..grammar import G, SCOPES

EXPLANATION = (
    "R07.1: the used-name computation (unbound-name visitors) must resolve names in the scope where Python evaluates "
    "them: for a function/class definition, the fields evaluated in the ENCLOSING scope (decorators, defaults, "
    "annotations, bases, keywords) must not be handed to the child-scope finder (visitor x grammar coverage against "
    "the SCOPES oracle).  R07.2: FilteringVisitor never filters a __future__ import (CFG guard domination) and "
    "sort_imports places the future group first.  R07.3: the selector of remove_unused_imports is a union that "
    "includes the __all__ list and the literal '__all__'.  R07.4: every concrete ImportInfo subclass has a "
    "visit<Name> method on the base visitor (dispatch is by class name).  R07.5: the used-name recorder adds every "
    "dotted prefix of a used primary (the one-time selector needs prefix-closure).  R07.6: in the star-import branch the "
    "stateful selector is consulted only until its first acceptance.  R07.7: a from-import is identified by (module_name, level): "
    "module_name equality between two infos is always paired with level equality, and a rebuilt FromImport keeps the level of its source.  R07.8: `import a.b` is covered by `import a` only on a dotted prefix that ends in the dot.  R07.9: the resource the self-import visitor compares with is its constructor argument, unchanged.  R07.10: relative module lookup climbs (level - 1) packages on every path.  R07.11: merging from-imports decides 'already imported' on (name, alias) pairs.  R07.12: the local unbound-name finder tells global declarations from local bindings.  R07.13: the import rewriter cuts the source into lines at '\\n' only.  Idempotence, re-emitted text and sort keys "
    "are not decided."
    ' R07.15: the self-import rewrite is refused as soon as ANY character between the name and the next dot is foreign.'
)
EXPLANATION += " R07.17: an import statement is managed as whole lines only if every path to its registration consulted a comparison with the neighbouring statements' lines."
EXPLANATION += " R07.18: the reader of `__all__` takes names from a list display and from a tuple display alike."
EXPLANATION += " R07.19: the used-name finder visits every non-body child of a def / class (decorators, parameters, annotations, bases, keywords, type parameters) in the enclosing scope."
EXPLANATION += " R07.20: in the function that qualifies the uses of from-imported names no handler swallows a lookup error."
ASSUMPTIONS = ["scope-opening constructors without a handler in the finder (async def, lambda, comprehensions) only make more names count as used: conservative, not armed"]

FINDER = "rope.refactor.importutils.module_imports._UnboundNameFinder"
LOCAL = "rope.refactor.importutils.module_imports._LocalUnboundNameFinder"
GLOBAL = "rope.refactor.importutils.module_imports._GlobalUnboundNameFinder"


def check(ctx, res) -> None:
    _check_main(ctx, res)
    _from_import_identity_rule(ctx, res)
    _self_identity_rule(ctx, res)
    _alias_pair_rule(ctx, res)
    _global_declaration_rule(ctx, res)
    _import_rewriter_lines_rule(ctx, res)
    from .c16 import first_import_line_rule

    first_import_line_rule(ctx, res, "R07.14")
    from .common import relative_level_rule

    relative_level_rule(ctx, res, "R07.10")
    from .common import prefix_boundary_rule

    prefix_boundary_rule(ctx, res, "R07.8", ["rope.refactor.importutils.actions.AddingVisitor.visitNormalImport"])
    _qualifier_gap_rule(ctx, res)
    _use_regardless_of_ctx_rule(ctx, res)
    _whole_line_ownership_rule(ctx, res)
    _all_literal_forms_rule(ctx, res)
    header_children_rule(ctx, res, "R07.19")
    _from_to_normal_stops_at_an_error_rule(ctx, res)


def _use_regardless_of_ctx_rule(ctx, res) -> None:
    """R07.16: whether an import is USED is decided by the names that occur in the module -- in any expression context.
    `total += 1` and `del plugin` have Store / Del context and still need the binding the import made; a name that only
    occurs that way must count.  The unbound-name finder's Name handler records a name without looking at `node.ctx`."""
    from ..cfg import CFG
    from .common import with_private_helpers

    idx = ctx.idx
    f = idx.need_func("rope.refactor.importutils.module_imports._UnboundNameFinder._Name")
    n = 0
    for g in with_private_helpers(idx, f):
        cfg = CFG(g.node)
        for nd in cfg.nodes:
            if nd.ast is None or nd.kind != "stmt" or not any(call_name(c) == "add_unbound" for c in calls_in(nd.ast)):
                continue
            n += 1
            ctx_tests = [t for t, pol in cfg.guards(nd.id) if any(isinstance(y, ast.Attribute) and y.attr == "ctx" for y in ast.walk(t))]
            ok = not ctx_tests
            res.add("R07.16", f"_UnboundNameFinder.{g.name}|any-context#{n}", ok, f"{g.unit.rel}:{nd.lineno}",
                    "a name is recorded as used whatever its expression context" if ok else
                    f"a name is recorded as used only under `{ast.unparse(ctx_tests[0])}`: the target of an augmented assignment (`total += 1`) or of `del` is not a "
                    "Load, so an imported name that is only used that way counts as unused and organize-imports deletes its import (NameError at run time)",
                    function=g.qualname)
    res.floor("R07.16", "places where the unbound-name finder records a plain name", n, 1)


def _qualifier_gap_rule(ctx, res) -> None:
    """R07.15: dissolving `import mod` inside mod deletes `mod.` at every use -- the text from the name up to the NEXT dot.
    That is only right when nothing but white space and line continuations stands between the name and that dot; the
    rewrite is refused (ValueError) as soon as ANY other character is found there.  "Refuse when every character is
    foreign" lets `return mod` + blank + `os.path` through: everything up to the dot of `os.path` is deleted."""
    from ..cfg import CFG
    from .common import with_private_helpers

    idx = ctx.idx
    f = idx.need_func("rope.refactor.importutils.ImportTools._rename_in_module")
    n = 0
    for g in with_private_helpers(idx, f):
        cfg = CFG(g.node)
        for nd in cfg.nodes:
            if not (nd.kind == "stmt" and isinstance(nd.ast, ast.Raise) and "ValueError" in ast.unparse(nd.ast)):
                continue
            n += 1
            gs = cfg.guards(nd.id)
            char_test = lambda t: any(isinstance(c, ast.Call) and call_name(c) == "isspace" for c in ast.walk(t))
            quant = [(call_name(t), pol) for t, pol in gs if isinstance(t, ast.Call) and call_name(t) in ("any", "all") and char_test(t)]
            in_loop = any(isinstance(l, ast.For) for l in cfg.loop_guards(nd.id)) and any(char_test(t) and not isinstance(t, ast.Call) or
                                                                                          (isinstance(t, ast.Call) and call_name(t) == "isspace") for t, pol in gs)
            if quant:
                ok = quant[0] == ("any", True)
                how = f"{quant[0][0]}(...) {'holds' if quant[0][1] else 'fails'}"
            elif in_loop:
                ok, how = True, "a loop over the characters raises at the first foreign one"
            else:
                res.undecided("R07.15", f"{g.name}|gap-check#{n}", f"{g.unit.rel}:{nd.lineno}", "shape of the test that guards the refusal not recognised")
                continue
            res.add("R07.15", f"{g.name}|gap-check#{n}", ok, f"{g.unit.rel}:{nd.lineno}",
                    "the rewrite is refused as soon as one character between the name and the dot is neither white space nor a backslash" if ok else
                    f"the rewrite is refused only when {how}: a bare use of the self-imported name followed, anywhere later, by a dot (with a blank or a line "
                    "break in between) is not refused -- everything up to that dot is deleted from the module", function=g.qualname)
    res.floor("R07.15", "refusals in the self-import rewriter", n, 1)


def _check_main(ctx, res) -> None:
    idx = ctx.idx
    v = vgc_mod.get(ctx)
    for q in (FINDER, LOCAL, GLOBAL):
        idx.need_class(q)

    # ---- R07.1
    n = 0
    for T in ("FunctionDef", "ClassDef", "AsyncFunctionDef", "Lambda"):
        h = v.handler(GLOBAL, T)
        if h is None:
            res.analysed.setdefault("R07.1_conservative", []).append(f"{T}: no handler (locals looked up as globals -> imports only kept)")
            continue
        s = v.summary(GLOBAL, h)
        handed: Set[str] = set()
        own: Set[str] = set()
        for e in s.visits():
            tgt = handed if e.target == LOCAL else own
            for p in e.paths:
                tgt.add(p.split(".")[0])
        fields = sorted({e.split(".")[0].split("[")[0] for e in SCOPES[T] if not e.startswith("type_params")})
        for fld in fields:
            if not G.has(T, fld):
                continue
            n += 1
            wrong = ("*" in handed or fld in handed) and not ("*" in own or fld in own)
            res.add("R07.1", f"{T}.{fld}", not wrong, h.where,
                    f"{T}.{fld} is not resolved in the child scope" if not wrong else
                    f"{T}.{fld} is evaluated by Python in the enclosing scope, but the used-name finder resolves the names in it against the "
                    f"{'function' if 'Function' in T else 'class'}'s own locals ({h.qualname} hands every child to the child-scope finder): a module-level "
                    "import used only there is judged unused when the body binds a local of the same name, and organize-imports deletes it")
    res.floor("R07.1", "enclosing-evaluated fields of scope-opening handlers", n, 5)

    # ---- R07.2
    fv = idx.need_func("rope.refactor.importutils.actions.FilteringVisitor.visitFromImport")
    cfg = CFG(fv.node)
    builds = [nd for nd in cfg.nodes if nd.kind == "stmt" and isinstance(nd.ast, ast.Return) and isinstance(nd.ast.value, ast.Call)
              and call_name(nd.ast.value) == "FromImport"]
    if not builds:
        raise AnalysisError("anchor=FilteringVisitor.visitFromImport: construction of the filtered FromImport not found")
    for b in builds:
        ok = any(isinstance(t, ast.Call) and call_name(t) == "_is_future" and not pol for t, pol in cfg.guards(b.id))
        res.add("R07.2", "FilteringVisitor.visitFromImport|future", ok, f"{fv.unit.rel}:{b.lineno}",
                "a filtered from-import is only built when the statement is not a __future__ import" if ok else
                "FilteringVisitor can filter names out of a `from __future__ import ...` statement: an apparently unused future feature "
                "is removed and the module's semantics change")
    isf = idx.need_func("rope.refactor.importutils.actions._is_future")
    okf = any(const_str(x) == "__future__" for x in ast.walk(isf.node))
    res.add("R07.2", "_is_future", okf, isf.where, "future test compares the module name with '__future__'" if okf else
            "_is_future no longer tests for the module name '__future__'")
    si = idx.need_func("rope.refactor.importutils.module_imports.ModuleImports.sort_imports")
    moves = [c for c in calls_in(si.node) if call_name(c) == "_move_imports"]  # a method or a module-level helper
    src = {}
    for nd in walk_local(si.node):
        if isinstance(nd, ast.Assign) and isinstance(nd.targets[0], ast.Name):
            attrs = [x.attr for x in ast.walk(nd.value) if isinstance(x, ast.Attribute) and isinstance(x.value, ast.Name)
                     and x.attr in ("future", "standard", "third_party", "in_project")]
            if attrs:
                src[nd.targets[0].id] = attrs[0]
    if not moves:
        raise AnalysisError("anchor=sort_imports: _move_imports calls not found")
    first = moves[0]
    ok = isinstance(first.args[0], ast.Name) and src.get(first.args[0].id) == "future"
    res.add("R07.2", "sort_imports|future-first", ok, f"{si.unit.rel}:{first.lineno}",
            "the first group placed is the __future__ group" if ok else
            f"sort_imports places {src.get(getattr(first.args[0], 'id', ''), '?')} before the __future__ group: a future import not at the top is a SyntaxError")

    # ---- R07.3
    ru = idx.need_func("rope.refactor.importutils.module_imports.ModuleImports.remove_unused_imports")
    sel = [c for c in calls_in(ru.node) if call_name(c) == "_OneTimeSelector" and c.args]
    if not sel:
        raise AnalysisError("anchor=remove_unused_imports: selector construction not found")
    arg = sel[0].args[0]
    operands: List[ast.AST] = []

    def flat(e):
        if isinstance(e, ast.BinOp) and isinstance(e.op, ast.BitOr):
            flat(e.left)
            flat(e.right)
        elif isinstance(e, ast.Call) and call_name(e) == "union":
            flat(e.func.value)
            for a in e.args:
                flat(a)
        else:
            operands.append(e)

    flat(arg)
    has_unbound = any(isinstance(o, ast.Call) and call_name(o) == "_get_unbound_names" for o in operands)
    has_all = any(isinstance(o, ast.Call) and call_name(o) == "_get_all_star_list" for o in operands)
    has_lit = any(isinstance(o, (ast.Set, ast.List, ast.Tuple)) and any(const_str(e) == "__all__" for e in o.elts) for o in operands)
    ok = has_unbound and has_all and has_lit
    res.add("R07.3", "remove_unused_imports|selector", ok, f"{ru.unit.rel}:{sel[0].lineno}",
            "selectable names = unbound names | names listed in __all__ | {'__all__'}" if ok else
            "remove_unused_imports no longer protects " + ", ".join(x for x, b in (("used names", has_unbound), ("names listed in __all__", has_all), ("'__all__' itself", has_lit)) if not b)
            + ": imports that are re-exported through __all__ are deleted as unused")

    # ---- R07.4
    base = idx.need_class("rope.refactor.importutils.importinfo.ImportInfo")
    vis = idx.need_class("rope.refactor.importutils.actions.ImportInfoVisitor")
    disp = vis.methods.get("dispatch")
    prefix = None
    if disp:
        for x in ast.walk(disp.node):
            if isinstance(x, ast.BinOp) and const_str(x.left):
                prefix = const_str(x.left)
    if not prefix:
        raise AnalysisError("anchor=ImportInfoVisitor.dispatch name prefix not found")
    subs = idx.subclasses(base.qualname)
    for q in subs:
        c = idx.classes[q]
        ok = (prefix + c.name) in vis.methods
        res.add("R07.4", c.name, ok, c.where, f"{prefix}{c.name} exists on the base visitor" if ok else
                f"ImportInfoVisitor has no {prefix}{c.name}: dispatching an import statement of that kind raises AttributeError in every import action")
    res.floor("R07.4", "ImportInfo subclasses", len(subs), 3)

    # ---- R07.5 the used-name set is prefix-closed
    # An `import a.b.c` statement is kept when one of its dotted prefixes is in the used-name set and has not been
    # claimed by an earlier import (one-time selector).  That only works if, for a used primary a.b.c.d, EVERY prefix
    # a, a.b, a.b.c, ... is recorded.
    au = idx.need_func(GLOBAL + ".add_unbound")
    p0 = [a.arg for a in au.node.args.args][1]
    parts = None
    for nd in walk_local(au.node):
        if isinstance(nd, ast.Assign) and isinstance(nd.targets[0], ast.Name) and isinstance(nd.value, ast.Call) \
                and call_name(nd.value) == "split" and isinstance(nd.value.func.value, ast.Name) and nd.value.func.value.id == p0:
            parts = nd.targets[0].id
    kinds = []
    for c in calls_in(au.node):
        if not (isinstance(c.func, ast.Attribute) and c.func.attr == "add" and is_self_attr(c.func.value) and c.args):
            continue
        a = c.args[0]
        kind = "unknown"
        if isinstance(a, ast.Name) and a.id == p0:
            kind = "full"
        elif isinstance(a, ast.Subscript) and isinstance(a.slice, ast.Constant) and a.slice.value == 0:
            kind = "root"
        elif isinstance(a, ast.Call) and call_name(a) == "join" and a.args and isinstance(a.args[0], ast.Subscript) \
                and isinstance(a.args[0].slice, ast.Slice):
            sl = a.args[0].slice
            # names[: i + 1] (or names[:i]) inside a loop whose variable i ranges over range(len(names)) (or 1..len)
            ivars = {x.id for x in ast.walk(sl) if isinstance(x, ast.Name)}
            loops = [l for l in walk_local(au.node) if isinstance(l, ast.For) and isinstance(l.target, ast.Name) and l.target.id in ivars
                     and isinstance(l.iter, ast.Call) and call_name(l.iter) == "range"
                     and any(isinstance(y, ast.Call) and call_name(y) == "len" for y in ast.walk(l.iter))
                     and any(x is c for x in ast.walk(l))]
            kind = "all-prefixes" if loops and sl.lower is None else "unknown"
        elif isinstance(a, ast.Name) and a.id != p0:
            # loop variable accumulating prefixes (prefix = prefix + "." + part) is not recognised: undecided
            kind = "unknown"
        kinds.append(kind)
    if not kinds:
        raise AnalysisError("anchor=_GlobalUnboundNameFinder.add_unbound records nothing")
    if "all-prefixes" in kinds:
        res.ok("R07.5", "add_unbound|prefix-closed", au.where, "every dotted prefix of a used primary is recorded")
    elif "unknown" in kinds:
        res.undecided("R07.5", "add_unbound|prefix-closed", au.where, f"recording shape not recognised: {kinds}")
    else:
        res.fail("R07.5", "add_unbound|prefix-closed", au.where,
                 f"add_unbound records only {sorted(set(kinds))} of a used dotted name, not every prefix: with `import pkg.alpha` and `import pkg.beta.tools` "
                 "(used as pkg.beta.tools.f()), the first import claims `pkg` and the second matches no recorded name, so organize-imports deletes an import that is used")

    # ---- R07.6 the one-time selector is stateful: asking it about further names after it accepted one marks those
    # names as provided by this import.  In the star-import branch it must be consulted only until the first acceptance.
    sel = idx.need_class("rope.refactor.importutils.module_imports._OneTimeSelector")
    call = sel.methods.get("__call__")
    stateful = call is not None and any(isinstance(x, ast.Call) and isinstance(x.func, ast.Attribute) and x.func.attr in ("add", "append", "update")
                                        and any(is_self_attr(y) for y in ast.walk(x.func.value))
                                        for m in sel.methods.values() for x in ast.walk(m.node))
    if not stateful:
        res.undecided("R07.6", "visitFromImport|star", fv.where, "selector no longer looks stateful")
    else:
        parents = {}
        for n in ast.walk(fv.node):
            for ch in ast.iter_child_nodes(n):
                parents[id(ch)] = n
        cfg = CFG(fv.node)
        star_calls = []
        for c in calls_in(fv.node, local=False):
            if is_self_attr(c.func, "can_select"):
                # inside the star branch?  (decided on the CFG: the call is reached only over the TRUE edge of the
                # is_star_import() test, however the if/else is written)
                in_star = any("is_star_import" in ast.unparse(t) and pol
                              for nd in cfg.node_containing(c) for t, pol in cfg.guards(nd.id))
                if in_star:
                    star_calls.append(c)
        if not star_calls:
            # the star branch may be a private step of the visitor (`new_pairs = self._star_pair_if_selected(import_info)`): its
            # selector calls are the ones of the star branch, judged on the step's own flow graph
            for c in calls_in(fv.node, local=False):
                if is_self_attr(c.func) and c.func.attr.startswith("_") and fv.cls is not None and any(
                        "is_star_import" in ast.unparse(t) and pol for nd in cfg.node_containing(c) for t, pol in cfg.guards(nd.id)):
                    step = idx.find_method(fv.cls.qualname, c.func.attr)
                    if step is not None and any(is_self_attr(x.func, "can_select") for x in calls_in(step.node, local=False)):
                        cfg = CFG(step.node)
                        parents = {}
                        for n in ast.walk(step.node):
                            for ch in ast.iter_child_nodes(n):
                                parents[id(ch)] = n
                        star_calls = [x for x in calls_in(step.node, local=False) if is_self_attr(x.func, "can_select")]
                        break
        if not star_calls:
            raise AnalysisError("anchor=FilteringVisitor.visitFromImport: selector call in the star-import branch not found")
        for c in star_calls:
            ok = None
            n = c
            comp = None
            while id(n) in parents and not isinstance(n, ast.stmt):
                n = parents[id(n)]
                if isinstance(n, (ast.ListComp, ast.SetComp, ast.DictComp, ast.GeneratorExp)) and comp is None:
                    comp = n
            if comp is not None:
                par = parents.get(id(comp))
                lazy = isinstance(comp, ast.GeneratorExp) and isinstance(par, ast.Call) and call_name(par) in ("any", "next")
                ok = lazy
            else:
                nodes = cfg.node_containing(c)
                tn = next((x for x in nodes if x.kind == "test"), None)
                if tn is not None:
                    tgt = [b for b, l in cfg.succ[tn.id] if l == "true"]
                    ok = bool(tgt) and tn.id not in cfg.reachable(tgt[0])
            res.add("R07.6", "visitFromImport|star", ok, f"{fv.unit.rel}:{c.lineno}",
                    "in the star branch the selector is not consulted again after it accepted a name" if ok else
                    "in the star-import branch the stateful one-time selector is evaluated for every exported name (eager comprehension / no break after "
                    "acceptance): all used names the star module exports are marked as provided, so a later explicit import overriding one of them is "
                    "judged unused and removed -- the name silently resolves to the star module's object")


def _from_import_identity_rule(ctx, res, rule: str = "R07.7") -> None:
    """R07.7: a from-import is identified by (module_name, level).  (a) wherever two import infos are compared by
    module_name, the same two operands are also compared by level in the same conjunction (or a dominating test);
    (b) wherever a FromImport is rebuilt from another info's module_name, that info's level is passed along."""
    from ..cfg import CFG

    idx = ctx.idx
    na = nb = 0
    for f in sorted(idx.functions.values(), key=lambda f: f.qualname):
        if not (f.unit.modname.startswith("rope.refactor.importutils") or f.unit.modname == "rope.refactor.move"):
            continue
        short = f.qualname.split(".", 2)[-1]
        cfg = None
        ka = kb = 0
        for x in walk_local(f.node):
            # (a)
            if isinstance(x, ast.Compare) and len(x.ops) == 1 and isinstance(x.ops[0], (ast.Eq, ast.NotEq)) \
                    and isinstance(x.left, ast.Attribute) and x.left.attr == "module_name" \
                    and isinstance(x.comparators[0], ast.Attribute) and x.comparators[0].attr == "module_name":
                na += 1
                ka += 1
                A, B = norm(x.left.value), norm(x.comparators[0].value)

                def is_level_cmp(t) -> bool:
                    return isinstance(t, ast.Compare) and len(t.ops) == 1 and isinstance(t.ops[0], type(x.ops[0])) \
                        and isinstance(t.left, ast.Attribute) and t.left.attr == "level" and isinstance(t.comparators[0], ast.Attribute) \
                        and t.comparators[0].attr == "level" and {norm(t.left.value), norm(t.comparators[0].value)} == {A, B}

                ok = False
                for b in walk_local(f.node):
                    if isinstance(b, ast.BoolOp) and any(v is x for v in b.values) and any(is_level_cmp(v) for v in b.values):
                        ok = isinstance(b.op, ast.And) == isinstance(x.ops[0], ast.Eq)
                if not ok:
                    cfg = cfg or CFG(f.node)
                    for nd in cfg.node_containing(x):
                        if any(is_level_cmp(t) and pol for t, pol in cfg.guards(nd.id)):
                            ok = True
                if not ok:
                    # nested ifs / early returns: every STATEMENT that runs only when the module names compared equal
                    # also runs only when the levels compared equal
                    eq = isinstance(x.ops[0], ast.Eq)
                    under = []
                    for nd in cfg.nodes:
                        if nd.kind != "stmt" or nd.ast is None:
                            continue
                        gs = cfg.guards(nd.id)
                        if any(t is x and pol == eq for t, pol in gs):
                            under.append(any(is_level_cmp(t) and pol == eq for t, pol in gs))
                    ok = bool(under) and all(under)
                res.add(rule, f"{short}|same-module#{ka}", ok, f"{f.unit.rel}:{x.lineno}",
                        "module_name equality is paired with level equality of the same operands" if ok else
                        f"{short} treats two from-imports as the same module when their module_name is equal, without comparing .level: "
                        "`from . import a` and `from .. import b` (or `from .util import x` and `from util import y`) are merged into one statement, so a "
                        "name is afterwards imported from a different module", function=f.qualname)
            # (b)
            if isinstance(x, ast.Call) and call_name(x) == "FromImport" and x.args and isinstance(x.args[0], ast.Attribute) \
                    and x.args[0].attr == "module_name":
                nb += 1
                kb += 1
                src = norm(x.args[0].value)
                lvl = x.args[1] if len(x.args) > 1 else next((k.value for k in x.keywords if k.arg == "level"), None)
                ok = isinstance(lvl, ast.Attribute) and lvl.attr == "level" and norm(lvl.value) == src
                res.add(rule, f"{short}|rebuild#{kb}", ok, f"{f.unit.rel}:{x.lineno}",
                        "the rebuilt from-import keeps the level of the statement it replaces" if ok else
                        f"{short} rebuilds a from-import from {src}.module_name but passes {ast.unparse(lvl) if lvl is not None else 'no level'} as its level: "
                        "a relative import is re-emitted with a different number of leading dots and resolves to another module", function=f.qualname)
    res.floor(rule, "module_name comparisons between import infos", na, 1)
    res.floor(rule, "from-imports rebuilt from another info", nb, 5)


def _self_identity_rule(ctx, res) -> None:
    """R07.9: the self-import visitor empties every import whose imported resource equals `self.resource`.  That
    attribute must be the module that is being organised exactly as handed in: a package folder is not its
    `__init__.py` (`from . import sub` there imports a submodule, not a name of the module itself)."""
    idx = ctx.idx
    cls = idx.need_class("rope.refactor.importutils.actions.SelfImportVisitor")
    init = cls.methods.get("__init__")
    if init is None:
        raise AnalysisError("anchor=SelfImportVisitor.__init__ missing")
    # attributes compared with an imported resource on the way to empty_import / to_be_fixed
    compared = set()
    for m in cls.methods.values():
        for x in ast.walk(m.node):
            if isinstance(x, ast.Compare) and len(x.ops) == 1 and isinstance(x.ops[0], ast.Eq):
                for side in (x.left, x.comparators[0]):
                    if is_self_attr(side):
                        compared.add(side.attr)
    ps = [a.arg for a in init.node.args.args][1:]
    n = 0
    for attr in sorted(compared):
        stores = [x for x in walk_local(init.node) if isinstance(x, ast.Assign) and any(is_self_attr(t, attr) for t in x.targets)]
        if not stores:
            continue
        n += 1
        bad = None
        for st in stores:
            if not (isinstance(st.value, ast.Name) and st.value.id in ps):
                bad = f"it is stored as `{ast.unparse(st.value)}`"
            else:
                p = st.value.id
                re = [x for x in walk_local(init.node) if isinstance(x, (ast.Assign, ast.AugAssign)) and any(
                    isinstance(t, ast.Name) and t.id == p for t in (x.targets if isinstance(x, ast.Assign) else [x.target]))]
                if re:
                    bad = f"the parameter `{p}` is rebound (`{ast.unparse(re[0])[:60]}`) before it is stored"
        res.add("R07.9", f"SelfImportVisitor|identity:{attr}", bad is None, f"{init.unit.rel}:{stores[0].lineno}",
                f"self.{attr} is the constructor argument, unchanged" if bad is None else
                f"SelfImportVisitor compares imported resources with self.{attr} to decide that an import is a self-import, but {bad}: in a package's "
                "__init__.py `from . import sub` / `from pkg import sub` are taken for imports of the module's own names and deleted, so the "
                "submodule names stop resolving (NameError on import of the package)", function=init.qualname)
    res.floor("R07.9", "identity attributes of the self-import visitor", n, 1)


def _alias_pair_rule(ctx, res, rule: str = "R07.11") -> None:
    """R07.11: an import binds its alias when it has one: `from m import helper as h` does NOT provide `helper`.  Where a
    from-import is merged into an existing statement, "already there" is decided on the whole (name, alias) pair."""
    idx = ctx.idx
    f = idx.need_func("rope.refactor.importutils.actions.AddingVisitor.visitFromImport")
    n = 0
    for lp in [x for x in walk_local(f.node) if isinstance(x, ast.For)]:
        if not any(isinstance(y, ast.Attribute) and y.attr == "names_and_aliases" for y in ast.walk(lp.iter)):
            continue
        tvars = {t.id for t in ast.walk(lp.target) if isinstance(t, ast.Name)}
        whole = lp.target.id if isinstance(lp.target, ast.Name) else None
        for x in [y for s_ in lp.body for y in [s_, *walk_local(s_)]]:
            if isinstance(x, ast.Compare) and len(x.ops) == 1 and isinstance(x.ops[0], (ast.In, ast.NotIn)) and \
                    any(isinstance(y, ast.Name) and y.id in tvars for y in ast.walk(x.left)):
                n += 1
                ok = (isinstance(x.left, ast.Name) and x.left.id == whole) or \
                    (isinstance(x.left, ast.Tuple) and len(x.left.elts) == 2 and all(isinstance(e, ast.Name) and e.id in tvars for e in x.left.elts))
                res.add(rule, f"AddingVisitor.visitFromImport|pair-membership#{n}", ok, f"{f.unit.rel}:{x.lineno}",
                        "'already imported' is decided on the whole (name, alias) pair" if ok else
                        f"AddingVisitor.visitFromImport decides that a name is already imported with `{ast.unparse(x)}` (not on the whole (name, alias) pair): "
                        "an existing `from m import helper as h` is taken to provide `helper`, the needed `from m import helper` is dropped and the "
                        "bare name is unbound afterwards (NameError)", function=f.qualname)
    res.floor(rule, "membership tests while merging from-imports", n, 1)


def _global_declaration_rule(ctx, res, rule: str = "R07.12") -> None:
    """R07.12: the scope visitors enter a name declared `global` into the function's name table (they must: R01.2).  A
    consumer that asks "is this name bound in the local scope?" by membership in that table therefore has to tell a
    global declaration from a local binding, or a function that uses a module-level import through `global` looks as if
    it did not use it.  The local finder's truthy answer is conjoined with such a distinction (an identity comparison
    with the module scope's entry, or an inspection of Global nodes)."""
    from ..cfg import CFG

    idx = ctx.idx
    f = idx.need_func("rope.refactor.importutils.module_imports._LocalUnboundNameFinder.is_bound")
    cls = f.cls

    def distinguishes(fn, depth=0) -> bool:
        for x in ast.walk(fn.node):
            if isinstance(x, ast.Compare) and any(isinstance(o, (ast.Is, ast.IsNot)) for o in x.ops) and \
                    any(isinstance(y, ast.Call) and call_name(y) in ("get_module", "_get_global_scope") for y in ast.walk(fn.node)):
                return True
            if isinstance(x, ast.Attribute) and x.attr in ("Global", "Nonlocal") and isinstance(x.value, ast.Name) and x.value.id == "ast":
                return True
        if depth < 2 and cls is not None:
            for c in calls_in(fn.node):
                if is_self_attr(c.func) and c.func.attr in cls.methods and cls.methods[c.func.attr] is not fn:
                    if distinguishes(cls.methods[c.func.attr], depth + 1):
                        return True
        return False

    # the predicates that make the distinction stay calls; every other private step is read in place
    from . import common
    predicates = {n_ for n_, m_ in cls.methods.items() if m_ is not f and distinguishes(m_, depth=2)}
    fnode = common.inline_private_calls(idx, f, keep=tuple(predicates))
    # a private step that ANSWERS (its call is the test of an `if`, so it is not read in place) is judged on its own returns
    bodies = [fnode]
    seen_steps = set()
    frontier = [fnode]
    while frontier:
        b = frontier.pop()
        for c in ast.walk(b):
            if isinstance(c, ast.Call) and is_self_attr(c.func) and c.func.attr in cls.methods and c.func.attr not in predicates \
                    and c.func.attr not in seen_steps and c.func.attr != f.name and c.func.attr.startswith("_"):
                seen_steps.add(c.func.attr)
                step = common.inline_private_calls(idx, cls.methods[c.func.attr], keep=tuple(predicates))
                bodies.append(step)
                frontier.append(step)
    n = 0
    for fnode in bodies:
        n = _global_declaration_sites(res, rule, f, fnode, predicates, n)
    if n == 0:
        raise AnalysisError("anchor=_LocalUnboundNameFinder.is_bound: answer by membership in the scope's names not found")


def _global_declaration_sites(res, rule, f, fnode, predicates, n: int) -> int:
    from ..cfg import CFG
    cfg = CFG(fnode)

    def facts(t, pol, depth=0):
        if depth > 6:
            return
        if isinstance(t, ast.UnaryOp) and isinstance(t.op, ast.Not):
            yield from facts(t.operand, not pol, depth + 1)
        elif isinstance(t, ast.BoolOp) and ((isinstance(t.op, ast.And) and pol) or (isinstance(t.op, ast.Or) and not pol)):
            for v in t.values:
                yield from facts(v, pol, depth + 1)
        else:
            yield t, pol

    looked_up = {tg.id for a in walk_local(fnode) if isinstance(a, ast.Assign) and isinstance(a.value, ast.Call) and call_name(a.value) == "get"
                 for tg in a.targets if isinstance(tg, ast.Name)}

    def is_membership(t, pol) -> bool:
        if isinstance(t, ast.Compare) and len(t.ops) == 1 and isinstance(t.ops[0], ast.In) and pol:
            return True
        if isinstance(t, ast.Compare) and len(t.ops) == 1 and isinstance(t.ops[0], (ast.IsNot, ast.Is)) and isinstance(t.comparators[0], ast.Constant) \
                and t.comparators[0].value is None and ((isinstance(t.left, ast.Name) and t.left.id in looked_up) or (isinstance(t.left, ast.Call) and call_name(t.left) == "get")):
            return pol == isinstance(t.ops[0], ast.IsNot)
        return False

    def is_distinction(t, pol) -> bool:
        if isinstance(t, ast.Call) and is_self_attr(t.func) and t.func.attr in predicates:
            return not pol
        if isinstance(t, ast.Compare) and len(t.ops) == 1 and isinstance(t.ops[0], (ast.Is, ast.IsNot)) and not isinstance(t.comparators[0], ast.Constant):
            return pol == isinstance(t.ops[0], ast.IsNot)  # `module_names.get(name) is not pyname`
        return False

    # the places where "bound here" is decided: a truthy return, or a binding of the local that a truthy return tests
    sites = []
    for nd in cfg.nodes:
        if nd.kind != "stmt" or nd.ast is None:
            continue
        if isinstance(nd.ast, ast.Return) and nd.ast.value is not None and not (isinstance(nd.ast.value, ast.Constant) and not nd.ast.value.value):
            conds = list(cfg.guards(nd.id)) + ([] if isinstance(nd.ast.value, ast.Constant) else list(facts(nd.ast.value, True)))
            tested = [t.id for t, pol in conds if isinstance(t, ast.Name) and pol]
            sites.append((nd, [c for c in conds if not (isinstance(c[0], ast.Name) and c[0].id in tested)]))
            for d in cfg.nodes:
                if d.kind == "stmt" and isinstance(d.ast, ast.Assign) and any(isinstance(tg, ast.Name) and tg.id in tested for tg in d.ast.targets) \
                        and not (isinstance(d.ast.value, ast.Constant) and not d.ast.value.value):
                    sites.append((d, list(cfg.guards(d.id)) + list(facts(d.ast.value, True))))
    for nd, conds in sites:
        flat = [(t2, p2) for t, pol in conds for t2, p2 in facts(t, pol)]
        if not any(is_membership(t, pol) for t, pol in flat):
            continue
        n += 1
        ok = any(is_distinction(t, pol) for t, pol in flat)
        res.add(rule, f"_LocalUnboundNameFinder.is_bound|global-declarations#{n}", ok, f"{f.unit.rel}:{nd.lineno}",
                "membership in the local name table is qualified by a test for global declarations" if ok else
                f"_LocalUnboundNameFinder.is_bound answers 'bound locally' at `{ast.unparse(nd.ast)[:70]}` for every name in the function's name table (here: without the test for "
                "global declarations), and the table also holds the names the function declares `global`: `global os` + a use of `os` in a nested function is not counted as a use "
                "of the module-level `import os`, and organize_imports removes the import (NameError at run time)", function=f.qualname)
    return n


def _import_rewriter_lines_rule(ctx, res, rule: str = "R07.13") -> None:
    """R07.13: the import rewriter locates statements by the parser's line numbers, so wherever it cuts the module's
    source into lines it must cut at '\\n' only (never str.splitlines(), which also ends a line at form feed, U+2028,
    \\x1c-\\x1e, \\x85)."""
    idx = ctx.idx
    n = 0
    for f in sorted(idx.functions.values(), key=lambda f: f.qualname):
        if f.unit.modname != "rope.refactor.importutils.module_imports":
            continue
        cuts = []
        for c in calls_in(f.node):
            mentions = any(isinstance(y, ast.Attribute) and y.attr == "source_code" for y in ast.walk(c))
            if not mentions:
                continue
            if isinstance(c.func, ast.Attribute) and c.func.attr in ("splitlines", "split"):
                cuts.append(c)
            elif isinstance(c.func, ast.Name) and "line" in c.func.id.lower() and "split" in c.func.id.lower():
                cuts.append(c)
        for k, c in enumerate(cuts, 1):
            n += 1
            bad = isinstance(c.func, ast.Attribute) and c.func.attr == "splitlines"
            res.add(rule, f"{f.qualname.split('.', 3)[-1]}|cut#{k}", not bad, f"{f.unit.rel}:{c.lineno}",
                    "the source is cut into lines at '\\n' only" if not bad else
                    f"{f.name} cuts the module source with str.splitlines() and then indexes the pieces with the parser's line numbers: with a form feed "
                    "or U+2028 in a comment/string above the imports every import statement is looked for on the wrong line (imports duplicated, header text lost)",
                    function=f.qualname)
    res.floor(rule, "places where the import rewriter cuts the source into lines", n, 2)
    # the helper itself
    for f in idx.functions.values():
        if f.unit.modname == "rope.refactor.importutils.module_imports" and "split" in f.name.lower() and "line" in f.name.lower():
            uses = [c for c in calls_in(f.node) if isinstance(c.func, ast.Attribute) and c.func.attr == "splitlines"]
            res.add(rule, f"{f.name}|helper", not uses, f.where, "the line-cutting helper splits at '\\n'" if not uses else
                    f"{f.name} itself uses str.splitlines()", function=f.qualname)


def _whole_line_ownership_rule(ctx, res) -> None:
    """R07.17: an import statement is recorded with the LINES of its logical line (start line, end line, their text) and is
    later rewritten, moved or dropped as those lines.  That is sound only for an import that is alone on its line:
    in `import os; main()` the call is part of the recorded text and goes where the import goes -- away, if the import is
    unused.  In the finder of module-level import statements every registration (`visit_import` / `visit_from`, or the
    construction of an ImportStatement) is reached only under a test that compares the node's lines with those of ANOTHER
    statement of the same body (an index into the statement list other than the node itself)."""
    from ..cfg import CFG
    from . import common
    idx = ctx.idx
    f = idx.need_func("rope.refactor.importutils.module_imports._GlobalImportFinder.find_import_statements")
    node = common.inlined(idx, f)
    cfg = CFG(node)
    # the statement list: the iterable of the loop (possibly under enumerate)
    bodies = set()
    for x in walk_local(node):
        if isinstance(x, ast.Assign) and len(x.targets) == 1 and isinstance(x.targets[0], ast.Name) and isinstance(x.value, ast.Attribute) and x.value.attr == "body":
            bodies.add(x.targets[0].id)
    cls = f.cls

    def compares_with_neighbour(t) -> bool:
        """does the test look at a line number and at another element of the statement list -- itself, or in a method of the
        class that is handed the list?"""
        has_line = any(isinstance(y, ast.Attribute) and y.attr in ("lineno", "end_lineno") for y in ast.walk(t))
        other = any(isinstance(y, ast.Subscript) and ((isinstance(y.value, ast.Name) and y.value.id in bodies) or (isinstance(y.value, ast.Attribute) and y.value.attr == "body"))
                    and not isinstance(y.slice, ast.Slice) for y in ast.walk(t))
        if has_line and other:
            return True
        for c in ast.walk(t):
            if isinstance(c, ast.Call) and ((is_self_attr(c.func) and cls is not None) or isinstance(c.func, ast.Name)):
                m = idx.find_method(cls.qualname, c.func.attr) if is_self_attr(c.func) else idx.functions.get(f"{f.unit.modname}.{c.func.id}")
                if m is None:
                    continue
                ps = m.call_params()
                lists = {ps[i] for i, a in enumerate(c.args) if i < len(ps) and isinstance(a, ast.Name) and a.id in bodies}
                if lists and any(isinstance(y, ast.Attribute) and y.attr in ("lineno", "end_lineno") for y in ast.walk(m.node)) \
                        and any(isinstance(y, ast.Subscript) and isinstance(y.value, ast.Name) and y.value.id in lists and not isinstance(y.slice, ast.Slice)
                                and not isinstance(y.slice, ast.Constant) for y in ast.walk(m.node)):
                    return True
        return False

    # the registrations happen for import nodes only: an edge "this is not an import" out of a type test that names both
    # kinds cannot lie on a path to one (the later `isinstance(node, ast.Import)` tests are correlated with it)
    infeasible = []
    for t in cfg.nodes:
        if t.kind == "test" and isinstance(t.ast, ast.Call) and call_name(t.ast) == "isinstance" and len(t.ast.args) == 2 and isinstance(t.ast.args[1], ast.Tuple) \
                and {"Import", "ImportFrom"} <= {(dotted(e) or "").split(".")[-1] for e in t.ast.args[1].elts}:
            infeasible += [(t.id, b_, lab) for b_, lab in cfg.succ[t.id] if lab == "false"]
    n = 0
    for nd in cfg.nodes:
        if nd.kind != "stmt" or nd.ast is None:
            continue
        regs = [c for c in calls_in(nd.ast) if call_name(c) in ("visit_import", "visit_from", "ImportStatement")]
        if not regs:
            continue
        n += 1
        # every path to the registration consults a comparison with a neighbouring statement (whichever way the answer
        # is then used: the comparison may be one test, several, or the call of a helper)
        consult = [t.id for t in cfg.nodes if t.kind in ("test", "cond") and t.ast is not None and compares_with_neighbour(t.ast)]
        ok = bool(consult) and nd.id not in cfg.reachable(cfg.entry.id, avoid_nodes=consult, avoid_edges=infeasible)
        # an import can span lines: the statement that FOLLOWS it shares its LAST line, so the comparison has to read the
        # import's own `end_lineno` (and not only whether a neighbour covers its first line)
        own_end = False
        if ok:
            texts = [node]  # the whole function (helpers read in place) and what it still calls
            for t in cfg.nodes:
                if t.ast is not None:
                    for c in ast.walk(t.ast):
                        if isinstance(c, ast.Call) and (is_self_attr(c.func) or isinstance(c.func, ast.Name)):
                            m = idx.find_method(cls.qualname, c.func.attr) if is_self_attr(c.func) and cls is not None else \
                                idx.functions.get(f"{f.unit.modname}.{c.func.id}") if isinstance(c.func, ast.Name) else None
                            if m is not None:
                                texts.append(m.node)
            own = {x.target.id for x in walk_local(node) if isinstance(x, ast.For) and isinstance(x.target, ast.Name)}
            own |= {e.id for x in walk_local(node) if isinstance(x, ast.For) and isinstance(x.target, ast.Tuple) for e in x.target.elts[-1:] if isinstance(e, ast.Name)}
            for tt in texts + [node]:  # (the helper's body may have been read into the function)
                for a_ in ast.walk(tt):
                    if isinstance(a_, ast.Assign) and len(a_.targets) == 1 and isinstance(a_.targets[0], ast.Name) and isinstance(a_.value, ast.Subscript) \
                            and isinstance(a_.value.slice, ast.Name):
                        own.add(a_.targets[0].id)
            for tt in texts:
                for a_ in ast.walk(tt):
                    if isinstance(a_, ast.Attribute) and a_.attr == "end_lineno":
                        v = a_.value
                        if (isinstance(v, ast.Name) and v.id in own) or (isinstance(v, ast.Subscript) and isinstance(v.slice, ast.Name)):
                            own_end = True
            if not own_end:
                ok = False
        res.add("R07.17", f"find_import_statements|import-alone-on-its-line#{n}", ok, f"{f.unit.rel}:{nd.lineno}",
                "an import is registered as whole lines only after its lines were compared with the neighbouring statements'" if ok else
                ("the comparison with the neighbouring statements never reads the import's own `end_lineno`: it asks whether a neighbour covers the import's FIRST line; for "
                 "`from helpers import (alpha,\\n    beta); LIMIT = alpha() + 1` the following statement shares the LAST line, the import is managed as whole lines, and "
                 "rewriting it deletes the assignment") if consult and not own_end and nd.id not in cfg.reachable(cfg.entry.id, avoid_nodes=consult, avoid_edges=infeasible) else
                f"`{ast.unparse(regs[0])[:60]}` registers the import with the whole logical line as its text, and nothing on the way compares the node's lines with the "
                "neighbouring statements': for `import os, sys; sys.stdout.write(...)` the call belongs to the recorded text and is deleted, duplicated or moved "
                "with the import when imports are organised", function=f.qualname)
    res.floor("R07.17", "registrations of module-level import statements", n, 1)


def _all_literal_forms_rule(ctx, res) -> None:
    """R07.18: a name listed in `__all__` is used (it is what `from m import *` exports), so the import that binds it must stay.
    `__all__` is written as a list or as a tuple; the reader of `__all__` that walks the elements of the literal
    (`<node>.elts`) accepts both kinds of node on the way there."""
    from ..cfg import CFG
    idx = ctx.idx
    f = idx.need_func("rope.refactor.importutils.module_imports.ModuleImports._get_all_star_list")
    cfg = CFG(f.node)
    n = 0
    for nd in cfg.nodes:
        if nd.kind != "stmt" or nd.ast is None:
            continue
        el = [x for x in ast.walk(nd.ast) if isinstance(x, ast.Attribute) and x.attr == "elts" and isinstance(x.value, ast.Name)]
        if not el:
            continue
        who = el[0].value.id
        kinds = None
        for t, pol in cfg.guards(nd.id):
            if pol and isinstance(t, ast.Call) and call_name(t) == "isinstance" and len(t.args) == 2 and isinstance(t.args[0], ast.Name) and t.args[0].id == who:
                cl = t.args[1].elts if isinstance(t.args[1], ast.Tuple) else [t.args[1]]
                kinds = {(dotted(c) or "").split(".")[-1] for c in cl}
        if kinds is None:
            continue
        n += 1
        missing = sorted({"List", "Tuple"} - kinds)
        res.add("R07.18", f"_get_all_star_list|literal-forms-of-__all__#{n}", not missing, f"{f.unit.rel}:{nd.lineno}",
                "the elements of `__all__` are read from a list or a tuple literal" if not missing else
                f"the elements of `__all__` are read only when the literal is one of {sorted(kinds)}, not {missing}: with `__all__ = (\"sqrt\",)` the import that binds `sqrt` "
                "counts as unused and organize imports removes it -- `from m import *` elsewhere loses the name", function=f.qualname)
    res.floor("R07.18", "readers of the literal's elements", n, 1)


def header_children_rule(ctx, res, rule: str) -> None:
    """R07.19 (= R05.20): what a def / class statement USES outside its body -- decorators, the parameter list with its defaults and
    annotations, the return annotation, bases, keywords (`metaclass=...`), PEP 695 type parameters -- belongs to the names the
    enclosing scope uses; an import that is used only there must stay.  The used-name finder hands every non-body child of the
    statement to itself (the enclosing scope).  Either it iterates over ALL children (`ast.iter_child_nodes` / `iter_fields`) and
    leaves out the body, or it names the fields: then the fields read in the method, its helpers and its callers cover every
    node-valued field of FunctionDef and of ClassDef in the running interpreter's grammar other than `body`."""
    from ..grammar import G
    from .common import with_private_helpers
    idx = ctx.idx
    cls = idx.need_class(FINDER)
    cands = [m for m in cls.methods.values() if any(call_name(c) == LOCAL.split(".")[-1] for c in calls_in(m.node))]
    if len(cands) != 1:
        raise AnalysisError(f"anchor={FINDER}: the method that opens the child-scope finder not unique ({[m.name for m in cands]})")
    m = cands[0]
    callers = [g for g in cls.methods.values() if any(is_self_attr(c.func, m.name) for c in calls_in(g.node))]
    fam = list({g.qualname: g for g in with_private_helpers(idx, m) + callers}.values())
    generic = any(isinstance(c, ast.Call) and call_name(c) in ("iter_child_nodes", "iter_fields") for g in fam for c in ast.walk(g.node))
    need = {}
    for ctor in ("FunctionDef", "ClassDef"):
        need[ctor] = sorted(f.name for f in G.ctors[ctor].fields if f.is_node and f.name != "body")
    if generic:
        res.add(rule, f"{m.name}|every-header-child-is-visited-outside", True, m.where,
                "every child of the statement that is not in its body is visited in the enclosing scope (generic iteration over the children)", function=m.qualname)
        return
    read = set()
    for g in fam:
        for x in ast.walk(g.node):
            if isinstance(x, ast.Attribute) and isinstance(x.value, ast.Name):
                read.add(x.attr)
            if isinstance(x, ast.Call) and call_name(x) == "getattr" and len(x.args) >= 2 and isinstance(x.args[1], ast.Constant):
                read.add(x.args[1].value)
    for ctor, fields in need.items():
        missing = [f for f in fields if f not in read]
        res.add(rule, f"{m.name}|every-header-child-is-visited-outside:{ctor}", not missing, m.where,
                f"the header fields of {ctor} are named and complete ({fields})" if not missing else
                f"the header of a {ctor} is visited field by field, and {missing} of {fields} is not among the fields read: a name used only there "
                "(`class Shape(metaclass=ABCMeta)`, `def size[T: collections.abc.Sized](x: T)`) does not count as used, organize imports removes its import, and the moved or "
                "tidied module raises NameError", function=m.qualname, fields_read=sorted(read & set(fields)))


def _from_to_normal_stops_at_an_error_rule(ctx, res) -> None:
    """R07.20: `froms_to_imports` rewrites `from m import a` to `import m` AND qualifies every use of `a` as `m.a`; the two halves belong
    together.  A from-import whose names cannot be looked up (`from vendored import *` for a module rope cannot find) cannot be
    qualified, and the action stops with the lookup error, nothing changed.  In the function that qualifies the uses no handler
    ends without raising: skipping the names and going on lets the second half run alone -- `import vendored` replaces the star
    import, `helper(2)` stays bare and raises NameError."""
    from .common import _swallowing_handlers
    idx = ctx.idx
    f = idx.need_func("rope.refactor.importutils.ImportTools._from_to_normal")
    loops = [l for l in walk_local(f.node) if isinstance(l, ast.For)]
    if not loops:
        raise AnalysisError("anchor=ImportTools._from_to_normal: loop over the imported names not found")
    sw = [h for l in loops for h in _swallowing_handlers(l)]
    res.add("R07.20", "ImportTools._from_to_normal|a-name-that-cannot-be-qualified-stops-the-action", not sw, f.where if not sw else f"{f.unit.rel}:{sw[0].lineno}",
            "no handler in the loop over the imported names swallows a lookup error" if not sw else
            f"`except {ast.unparse(sw[0].type) if sw[0].type else ''}:` in the loop that qualifies the uses of the imported names ends without raising: the names of a from-import that "
            "cannot be looked up (a star import of a module rope cannot find) are skipped, the statement is still rewritten to `import m`, and the unqualified uses raise NameError",
            function=f.qualname)
