"""C16 -- files survive rope byte-for-byte apart from the intended edit (clauses R16.1-R16.14)."""
from __future__ import annotations

import ast
import codecs
from typing import List, Optional, Set

from ..cfg import CFG
from ..core import AnalysisError, call_name, calls_in, const_str, dotted, is_self_attr, norm, walk_local, first_param, param_names

EXPLANATION = (
    "R16.1: encoder (unicode_to_file_data) and decoder (_decode_data) pick the encoding with the same function "
    "applied to their own input and fall back to the same default codec.  R16.2: the newline convention detected by "
    "file_data_to_unicode flows File.read -> File.newlines -> write_file(newlines=resource.newlines) -> "
    ".replace('\\n', newlines) (def-use chain, each link checked).  R16.3: on every CFG path to a text write_file "
    "in a content change the same resource was read before (read is what sets the newline convention).  R16.4: "
    "CRLF is normalised before lone CR wherever both are replaced.  R16.5: the chooser applies no str/bytes-asymmetric "
    "method (splitlines, no-arg split/strip, is*/case methods) to its input.  Byte equality itself is a runtime fact and is "
    "not decided."
    " R16.9: _find_coding accepts both PEP 263 delimiters and every character of the interpreter's codec names.  R16.10: the declaring line is found like tokenize.detect_encoding does (cookie pattern inclusion, two lines, stop at a first line that is neither blank nor comment)."
)
EXPLANATION += ' R16.13: the declared codec name is normalised like tokenize._get_normal_name.  R16.14: the newline convention is captured after a read of the resource.'
EXPLANATION += ' R16.12: the keyword search for the encoding declaration retries after a hit that no delimiter follows.'
EXPLANATION += " R16.15: in the import tools the text of a statement is read without a leading byte order mark, and the rewritten module gets the mark of the original text back in front."
EXPLANATION += " R16.16: in write_file the read that detects the newline convention is guarded by the convention being unknown (a read overwrites what undo has just set)."
ASSUMPTIONS = ["str.encode() without argument means utf-8 (language definition)",
               "codec aliases are compared through codecs.lookup of the running interpreter"]

ENC = "rope.base.fscommands.unicode_to_file_data"
DEC = "rope.base.fscommands._decode_data"
DECODE_NL = "rope.base.fscommands.file_data_to_unicode"


def _codec(name: Optional[str]) -> Optional[str]:
    if name is None:
        return "utf-8"
    try:
        return codecs.lookup(name).name
    except LookupError:
        return name


def _chooser(fn, idx, modname):
    """(resolved callee, arg is first param?) of `encoding = F(x)` guarded by `encoding is None`."""
    p0 = first_param(fn, skip_self=False)
    out = []
    for n in walk_local(fn):
        if isinstance(n, ast.Assign) and len(n.targets) == 1 and isinstance(n.targets[0], ast.Name) and n.targets[0].id == "encoding":
            # the call may reach `encoding` through a local and a conditional expression: `declared = F(data)` ...
            # `encoding = "utf-8" if declared is None else declared`
            from .common import _subst_single_locals
            v = n.value if isinstance(n.value, ast.Call) else _subst_single_locals(fn, n.value)
            for c in ([v] if isinstance(v, ast.Call) else [y for y in ast.walk(v) if isinstance(y, ast.Call)]):
                q = idx.resolve(modname, c.func)
                if q is None or not q.startswith(modname + "."):
                    continue
                arg_ok = len(c.args) == 1 and isinstance(c.args[0], ast.Name) and c.args[0].id == p0
                out.append((q, arg_ok, n))
    return out


def check(ctx, res) -> None:
    _check_main(ctx, res)
    undo_newline_rule(ctx, res, "R16.6")
    module_header_rule(ctx, res, "R16.7")
    first_import_line_rule(ctx, res, "R16.8")
    coding_name_alphabet_rule(ctx, res, "R16.9")
    cookie_line_rule(ctx, res, "R16.10")
    encoding_from_text_rule(ctx, res, "R16.11")
    declaration_keyword_rule(ctx, res, "R16.12")
    codec_name_normalisation_rule(ctx, res, "R16.13")
    newline_capture_rule(ctx, res, "R16.14")
    byte_order_mark_rule(ctx, res, "R16.15")


def _check_main(ctx, res) -> None:
    idx = ctx.idx
    enc, dnl = idx.need_func(ENC), idx.need_func(DECODE_NL)
    dec = idx.functions.get(DEC)
    if dec is None and any(isinstance(c.func, ast.Attribute) and c.func.attr == "decode" for c in calls_in(dnl.node)):
        dec = dnl  # the decoding step folded into its only caller: the function that decodes is the decoder
    if dec is None:
        dec = idx.need_func(DEC)
    mod = enc.unit.modname

    # ---- R16.1
    ce, cd = _chooser(enc.node, idx, mod), _chooser(dec.node, idx, mod)
    if not ce or not cd:
        res.fail("R16.1", "chooser", enc.where if not ce else dec.where,
                 "encoder or decoder no longer derives the encoding from its input by a chooser function "
                 "(coding cookie ignored on one side: non-UTF-8 files are re-encoded differently from how they were decoded)")
    else:
        same = {q for q, ok, _ in ce} == {q for q, ok, _ in cd} and all(ok for _, ok, _ in ce + cd)
        res.add("R16.1", "chooser", same, enc.where,
                f"both sides choose the encoding with {ce[0][0]} applied to their own input" if same else
                f"encoder chooses the encoding with {sorted({q for q, _, _ in ce})}, decoder with {sorted({q for q, _, _ in cd})} "
                "(or not from its own input): a file may be written in another encoding than it was read with")
    # default codec
    def lit(e):
        c = idx.const_node(mod, e)
        return c.value if c is not None and isinstance(c.value, str) else None

    dec_defaults = [lit(n.value) for n in walk_local(dec.node)
                    if isinstance(n, ast.Assign) and isinstance(n.targets[0], ast.Name) and n.targets[0].id == "encoding"
                    and lit(n.value) is not None]
    # ... or as an arm of a conditional expression: `encoding = "utf-8" if declared is None else declared`
    dec_defaults += [lit(arm) for n in walk_local(dec.node)
                     if isinstance(n, ast.Assign) and isinstance(n.targets[0], ast.Name) and n.targets[0].id == "encoding" and isinstance(n.value, ast.IfExp)
                     for arm in (n.value.body, n.value.orelse) if lit(arm) is not None]
    enc_literals = []
    for c in calls_in(enc.node):
        if call_name(c) == "encode" and isinstance(c.func, ast.Attribute):
            if not c.args:
                enc_literals.append(None)
            elif lit(c.args[0]) is not None:
                enc_literals.append(lit(c.args[0]))
    if not dec_defaults or not enc_literals:
        res.undecided("R16.1", "default", enc.where, "default codec literal not found on one side")
    else:
        a, b = {_codec(x) for x in dec_defaults}, {_codec(x) for x in enc_literals}
        res.add("R16.1", "default", a == b and len(a) == 1, dec.where,
                f"default codec is {sorted(a)[0]} on both sides" if a == b and len(a) == 1 else
                f"decoder defaults to {sorted(a)}, encoder falls back to {sorted(b)}: text without a coding line does not round-trip")
    # decoder's last-resort fallback must not be used by the encoder first
    # (latin1 fallback in decode is lossless for bytes; nothing to pair)

    # ---- R16.5 the chooser treats str and bytes input alike
    # (encoder calls it on str, decoder on bytes: a representation-dependent API makes the two sides disagree)
    ASYM = {"splitlines": "str.splitlines also splits on \\x0b \\x0c \\x1c-\\x1e \\x85 \\u2028 \\u2029, bytes.splitlines only on \\n \\r",
            "isspace": "str.isspace is Unicode-aware, bytes.isspace is ASCII", "isalnum": "Unicode vs ASCII", "isalpha": "Unicode vs ASCII",
            "isdigit": "Unicode vs ASCII", "lower": "Unicode vs ASCII case mapping", "upper": "Unicode vs ASCII case mapping",
            "casefold": "str only", "title": "Unicode vs ASCII", "swapcase": "Unicode vs ASCII"}
    NOARG_ASYM = {"split", "strip", "lstrip", "rstrip", "rsplit"}  # without an explicit separator: Unicode vs ASCII whitespace
    choosers = sorted({q for q, _, _ in ce + cd if q in idx.functions})
    for q in choosers:
        fn = idx.functions[q]
        p0 = first_param(fn.node, skip_self=False)
        # names derived from the parameter before any normalisation to one representation
        derived = {p0}
        for n in walk_local(fn.node):
            if isinstance(n, (ast.For, ast.comprehension)) and any(isinstance(x, ast.Name) and x.id in derived for x in ast.walk(n.iter)):
                derived |= {x.id for x in ast.walk(n.target) if isinstance(x, ast.Name)}
        bad = []
        for c in calls_in(fn.node):
            if isinstance(c.func, ast.Attribute) and isinstance(c.func.value, ast.Name) and c.func.value.id in derived:
                if c.func.attr in ASYM or (c.func.attr in NOARG_ASYM and not c.args and not c.keywords):
                    bad.append(c)
        res.add("R16.5", q.split(".")[-1], not bad, fn.where,
                "the chooser uses no representation-dependent str/bytes method on its input" if not bad else
                f"{q.split('.')[-1]} calls .{bad[0].func.attr}() on its input (line {bad[0].lineno}), which behaves differently for str and bytes "
                f"({ASYM.get(bad[0].func.attr, 'Unicode vs ASCII whitespace')}): the encoder (str) and the decoder (bytes) can pick different "
                "encodings for the same file, so a declared non-UTF-8 file is rewritten in another encoding")
    # ---- R16.2 chain
    # (a) decoder returns (text, newline)
    rets = [n for n in walk_local(dnl.node) if isinstance(n, ast.Return)]
    ok_a = bool(rets) and all(isinstance(r.value, ast.Tuple) and len(r.value.elts) == 2 for r in rets)
    nl_var = rets[0].value.elts[1].id if ok_a and isinstance(rets[0].value.elts[1], ast.Name) else None
    consts = sorted({const_str(n.value) for n in walk_local(dnl.node) if isinstance(n, ast.Assign)
                     and isinstance(n.targets[0], ast.Name) and n.targets[0].id == nl_var and const_str(n.value)})
    # the convention may also be taken from the loop variable of a loop over a table of conventions
    vals = set(consts)
    for lp in [x for x in walk_local(dnl.node) if isinstance(x, ast.For) and isinstance(x.target, ast.Name)]:
        if any(isinstance(n, ast.Assign) and isinstance(n.targets[0], ast.Name) and n.targets[0].id == nl_var and isinstance(n.value, ast.Name) and n.value.id == lp.target.id
               for n in walk_local(lp)):
            tbl = idx.literal_node(dnl.unit.modname, lp.iter, dnl.cls)
            if isinstance(tbl, (ast.Tuple, ast.List)):
                vals |= {e.value for e in tbl.elts if isinstance(e, ast.Constant) and isinstance(e.value, str)}
    # ... or read off a pattern: `m = P.match(text)`; `newline = m.group(k) if m else "\n"` -- the alternatives of group k
    for n in walk_local(dnl.node):
        if not (isinstance(n, ast.Assign) and isinstance(n.targets[0], ast.Name) and n.targets[0].id == nl_var and isinstance(n.value, ast.IfExp)):
            continue
        for arm in (n.value.body, n.value.orelse):
            if const_str(arm):
                vals.add(const_str(arm))
            if isinstance(arm, ast.Call) and call_name(arm) == "group" and arm.args and isinstance(arm.args[0], ast.Constant) and isinstance(arm.func.value, ast.Name):
                mdef = [x.value for x in walk_local(dnl.node) if isinstance(x, ast.Assign) and isinstance(x.targets[0], ast.Name) and x.targets[0].id == arm.func.value.id]
                pat = None
                if len(mdef) == 1 and isinstance(mdef[0], ast.Call) and isinstance(mdef[0].func, ast.Attribute) and mdef[0].func.attr in ("match", "search"):
                    pe = mdef[0].func.value if not (isinstance(mdef[0].func.value, ast.Name) and mdef[0].func.value.id == "re") else mdef[0].args[0]
                    if isinstance(pe, ast.Name):
                        for x in dnl.unit.tree.body:
                            if isinstance(x, ast.Assign) and any(isinstance(t, ast.Name) and t.id == pe.id for t in x.targets):
                                pe = x.value
                    if isinstance(pe, ast.Call) and call_name(pe) == "compile" and pe.args:
                        pe = pe.args[0]
                    pat = const_str(pe)
                if pat is None:
                    continue
                import re._parser as _sp
                from re._constants import BRANCH, LITERAL, MAX_REPEAT, MIN_REPEAT, SUBPATTERN
                items = list(_sp.parse(pat))
                gi = next((i for i, (op, av) in enumerate(items) if op is SUBPATTERN and av[0] == arm.args[0].value), None)
                if gi is None:
                    continue
                sub = list(items[gi][1][3])
                alts = []
                if len(sub) == 1 and sub[0][0] is BRANCH:
                    for alt in sub[0][1][1]:
                        if all(op is LITERAL for op, _ in alt):
                            alts.append("".join(chr(av) for _, av in alt))
                elif all(op is LITERAL for op, _ in sub):
                    alts.append("".join(chr(av) for _, av in sub))
                vals |= set(alts)
                # what stands in front of the group is the text of the first line, which may be EMPTY
                may_be_empty = all(op in (MAX_REPEAT, MIN_REPEAT) and av[0] == 0 for op, av in items[:gi])
                res.add("R16.2", "detect|first-line-may-be-empty", may_be_empty, f"{dnl.unit.rel}:{n.lineno}",
                        "the pattern that reads the convention off the first line break also matches when the first line is empty" if may_be_empty else
                        f"the convention is read off the first line break with the pattern {pat!r}, which needs at least one character in front of it: for a CRLF (or CR) file "
                        "whose FIRST LINE IS EMPTY the pattern does not match, the convention falls back to LF, and the next edit rewrites every line ending of the file",
                        function=dnl.qualname)
    consts = sorted(vals)
    ok_a = ok_a and set(consts) >= {"\n", "\r\n", "\r"}
    res.add("R16.2", "detect", ok_a, dnl.where,
            "decoder returns (text, newline) with newline in {LF, CRLF, CR}" if ok_a else
            f"file_data_to_unicode no longer returns the detected newline convention for all of LF/CRLF/CR (found {consts!r})")
    # (b) File.read stores it
    fread = idx.need_func("rope.base.resources.File.read")
    ok_b = False
    for n in walk_local(fread.node):
        if isinstance(n, ast.Assign) and isinstance(n.value, ast.Call) and idx.resolve(fread.unit.modname, n.value.func) == DECODE_NL:
            t = n.targets[0]
            if isinstance(t, ast.Tuple) and len(t.elts) == 2 and is_self_attr(t.elts[1], "newlines"):
                ok_b = True
    # ... or by index: `decoded = decoder(data)` ; `self.newlines = decoded[1]`
    from .common import pair_component
    for n in walk_local(fread.node):
        if isinstance(n, ast.Assign) and any(is_self_attr(t, "newlines") for t in n.targets) \
                and pair_component(fread.node, n.value, {"file_data_to_unicode"}) == 1:
            ok_b = True
    res.add("R16.2", "store", ok_b, fread.where,
            "File.read stores the detected convention in self.newlines" if ok_b else
            "File.read does not store the newline convention returned by the decoder in self.newlines: writes fall back to LF")
    # (c) write_file passes it on
    wf = idx.need_func("rope.base.change._ResourceOperations.write_file")
    from .common import inline_private_calls
    wf_node = inline_private_calls(idx, wf)  # a step of write_file that was moved into a private helper is read in place
    rparam = first_param(wf.node)
    ok_c = False
    for c in calls_in(wf_node):
        if idx.resolve(wf.unit.modname, c.func) == ENC:
            def from_resource(e, depth=0) -> bool:
                """<resource>.newlines itself, or a local that (transitively) was bound to it"""
                if isinstance(e, ast.Attribute) and e.attr == "newlines" and isinstance(e.value, ast.Name) and e.value.id == rparam:
                    return True
                if isinstance(e, ast.Name) and depth < 4:
                    return any(from_resource(x.value, depth + 1) for x in walk_local(wf_node) if isinstance(x, ast.Assign)
                               and any(isinstance(t, ast.Name) and t.id == e.id for t in x.targets))
                return False
            for k in c.keywords:
                if k.arg == "newlines" and from_resource(k.value):
                    ok_c = True
            if len(c.args) >= 3 and isinstance(c.args[2], ast.Attribute) and c.args[2].attr == "newlines":
                ok_c = True
    res.add("R16.2", "pass", ok_c, wf.where,
            "write_file passes resource.newlines to the encoder" if ok_c else
            "write_file does not pass the written resource's newline convention to the encoder: CRLF/CR files are rewritten with LF")
    # (d) encoder applies it
    enc_node = inline_private_calls(idx, enc)  # the rewrite may live in a private helper
    cfg = CFG(enc_node)
    ok_d = False
    excluded = []
    for n in cfg.nodes:
        if n.kind == "stmt" and isinstance(n.ast, ast.Assign):
            v = n.ast.value
            if isinstance(v, ast.Call) and call_name(v) == "replace" and len(v.args) == 2 and const_str(v.args[0]) == "\n" \
                    and isinstance(v.args[1], ast.Name) and v.args[1].id == "newlines" \
                    and isinstance(n.ast.targets[0], ast.Name) and isinstance(v.func.value, ast.Name) \
                    and n.ast.targets[0].id == v.func.value.id == first_param(enc.node, skip_self=False):
                # must execute whenever newlines is a non-LF convention: guards may only be on `newlines`
                gs = cfg.guards(n.id)
                only_nl = all(all(isinstance(x, ast.Name) and x.id == "newlines" or not isinstance(x, ast.Name)
                                  for x in ast.walk(t)) for t, _ in gs)
                ok_d = only_nl
                # ... and the guards must let BOTH non-LF conventions through (evaluated over the finite set)
                if only_nl:
                    from .. import fold
                    fd = fold.Folder(idx)
                    for conv in ("\r\n", "\r"):
                        for t, pol in gs:
                            try:
                                val = bool(fd.eval(enc.unit.modname, t, {"newlines": conv}))
                            except fold.Unfoldable:
                                continue
                            if val != pol:
                                excluded.append((conv, ast.unparse(t)))
    if excluded:
        ok_d = False
    res.add("R16.2", "apply", ok_d, enc.where,
            "encoder rewrites LF to the resource's convention, for CRLF and for CR, guarded only by tests on that convention" if ok_d else
            (f"the encoder's guard `{excluded[0][1]}` keeps the rewrite of '\\n' from happening for the convention {excluded[0][0]!r}: such a file is written "
             "back with LF line ends" if excluded else
             "encoder does not (unconditionally for non-LF conventions) rewrite '\\n' to the resource's newline convention"))

    # ---- R16.3 read-before-write in content changes
    cc = idx.need_class("rope.base.change.ChangeContents")
    n163 = 0
    # callee-level discharge: write_file itself makes sure the convention is known before encoding: every path to the
    # encoder call passes a read of the resource, except through the edges "newlines is not None" (already known) and
    # "not resource.exists()" (nothing on disk whose convention could be lost)
    wcfg = CFG(wf_node)
    callee_reads = False
    for c in calls_in(wf_node):
        if idx.resolve(wf.unit.modname, c.func) == ENC:
            en = wcfg.node_containing(c)[0]
            read_nodes = [n.id for n in wcfg.nodes if n.ast is not None and n.kind in ("stmt", "test") and any(
                isinstance(x.func, ast.Attribute) and x.func.attr in ("read", "read_bytes")
                and isinstance(x.func.value, ast.Name) and x.func.value.id == rparam
                for x in calls_in(n.ast) + ([n.ast] if isinstance(n.ast, ast.Call) else []))]
            excused = []
            for t in wcfg.nodes:
                if t.kind != "test":
                    continue
                a_ = t.ast
                # (`<r>.newlines is None`, or the same test on a local that was bound to `<r>.newlines`)
                conv_locals = {tg.id for d_ in walk_local(wf_node) if isinstance(d_, ast.Assign) and isinstance(d_.value, ast.Attribute) and d_.value.attr == "newlines"
                               and isinstance(d_.value.value, ast.Name) and d_.value.value.id == rparam for tg in d_.targets if isinstance(tg, ast.Name)}
                if isinstance(a_, ast.Compare) and ((isinstance(a_.left, ast.Attribute) and a_.left.attr == "newlines"
                                                     and isinstance(a_.left.value, ast.Name) and a_.left.value.id == rparam)
                                                    or (isinstance(a_.left, ast.Name) and a_.left.id in conv_locals)) \
                        and isinstance(a_.comparators[0], ast.Constant) and a_.comparators[0].value is None:
                    lab = "false" if isinstance(a_.ops[0], ast.Is) else "true"
                    excused += [(t.id, b2, l) for b2, l in wcfg.succ[t.id] if l == lab]
                if isinstance(a_, ast.Call) and call_name(a_) == "exists" and isinstance(a_.func.value, ast.Name) and a_.func.value.id == rparam:
                    excused += [(t.id, b2, l) for b2, l in wcfg.succ[t.id] if l == "false"]
            if read_nodes and en.id not in wcfg.reachable(wcfg.entry.id, avoid_nodes=read_nodes, avoid_edges=excused):
                callee_reads = True
    res.analysed["R16.3_callee_level_read"] = callee_reads
    # ---- R16.16 the read that detects the convention happens ONLY when the convention is unknown.  `File.read()` overwrites
    # `File.newlines` with what the file on disk has NOW; undo() has just put the convention of the OLD text there
    # (`resource.newlines = self._old_newlines`).  A read on the way to the encoder that is not guarded by "the convention is None"
    # throws that away: the text on disk (the new text, maybe without any line break) decides how the old text is written back.
    conv_locals = {tg.id for d_ in walk_local(wf_node) if isinstance(d_, ast.Assign) and isinstance(d_.value, ast.Attribute) and d_.value.attr == "newlines"
                   and isinstance(d_.value.value, ast.Name) and d_.value.value.id == rparam for tg in d_.targets if isinstance(tg, ast.Name)}

    def unknown_test(t, pol) -> bool:
        if not (isinstance(t, ast.Compare) and len(t.ops) == 1 and isinstance(t.comparators[0], ast.Constant) and t.comparators[0].value is None):
            return False
        subject = (isinstance(t.left, ast.Attribute) and t.left.attr == "newlines" and isinstance(t.left.value, ast.Name) and t.left.value.id == rparam) \
            or (isinstance(t.left, ast.Name) and t.left.id in conv_locals)
        return subject and (pol if isinstance(t.ops[0], ast.Is) else not pol)

    n1616 = 0
    for c in calls_in(wf_node):
        if idx.resolve(wf.unit.modname, c.func) != ENC:
            continue
        en = wcfg.node_containing(c)[0]
        for rn in wcfg.nodes:
            if rn.ast is None or rn.kind not in ("stmt", "test"):
                continue
            if not any(isinstance(x.func, ast.Attribute) and x.func.attr == "read" and isinstance(x.func.value, ast.Name) and x.func.value.id == rparam
                       for x in calls_in(rn.ast) + ([rn.ast] if isinstance(rn.ast, ast.Call) else [])):
                continue
            if not wcfg.exists_path(rn.id, en.id):
                continue
            n1616 += 1
            ok = any(unknown_test(t, pol) for t, pol in wcfg.guards(rn.id))
            res.add("R16.16", f"_ResourceOperations.write_file|the-detecting-read-only-when-the-convention-is-unknown#{n1616}", ok, f"{wf.unit.rel}:{rn.lineno}",
                    "the file is read for its convention only when the File object does not know one" if ok else
                    "write_file reads the file before encoding although the File object may already hold a convention: the read overwrites it with what is on disk now.  undo() has just "
                    "set the convention of the OLD text (`resource.newlines = self._old_newlines`); when the text on disk has no line break, LF is detected and a CRLF file comes back "
                    "from undo with LF line ends", function=wf.qualname)
    if n1616 == 0:
        # no read on the way to the encoder: nothing can overwrite the convention the caller has set (whether it is KNOWN is R16.3's question)
        res.add("R16.16", "_ResourceOperations.write_file|no-read-before-encoding", True, wf.where, "write_file does not read the file before encoding", function=wf.qualname)
    for mname in ("do", "undo"):
        m = cc.methods.get(mname)
        if not m:
            continue
        from .common import inlined
        m_node = inlined(idx, m)  # steps moved into private helpers are read in place
        cfg = CFG(m_node)
        for c in calls_in(m_node):
            if isinstance(c.func, ast.Attribute) and c.func.attr == "write_file" and c.args:
                n163 += 1
                r = norm(c.args[0])
                wn = cfg.node_containing(c)[0]
                is_read = lambda n: n.ast is not None and n.kind in ("stmt", "test") and any(
                    isinstance(x.func, ast.Attribute) and x.func.attr == "read" and norm(x.func.value) == r
                    for x in calls_in(n.ast) + ([n.ast] if isinstance(n.ast, ast.Call) else []))
                ok = callee_reads or cfg.must_pass_through(cfg.entry.id, wn.id, is_read)
                if not ok:
                    # caller-level discharge with the same excuses as in the callee: the convention is already known (`<r>.newlines is None`
                    # answered no, or `<r>.newlines` was just assigned the convention saved by do()), or there is no file.  The path on which
                    # the SAVED convention is None is excused as well: do() captures it after a read (R16.14) and it is saved with the change
                    # (R12.15), so it is None only when there was no file whose convention could be lost.
                    reads = [n.id for n in cfg.nodes if is_read(n)]
                    excused = []
                    for t in cfg.nodes:
                        if t.kind != "test":
                            continue
                        a_ = t.ast
                        if isinstance(a_, ast.Compare) and isinstance(a_.left, ast.Attribute) and isinstance(a_.comparators[0], ast.Constant) and a_.comparators[0].value is None \
                                and len(a_.ops) == 1 and isinstance(a_.ops[0], (ast.Is, ast.IsNot)):
                            known = "false" if isinstance(a_.ops[0], ast.Is) else "true"
                            if a_.left.attr == "newlines" and norm(a_.left.value) == r:
                                excused += [(t.id, b2, l) for b2, l in cfg.succ[t.id] if l == known]
                            elif "newlines" in a_.left.attr and is_self_attr(a_.left):
                                excused += [(t.id, b2, l) for b2, l in cfg.succ[t.id]]  # saved convention: known, or there was no file
                        if isinstance(a_, ast.Call) and call_name(a_) == "exists" and isinstance(a_.func, ast.Attribute) and norm(a_.func.value) == r:
                            excused += [(t.id, b2, l) for b2, l in cfg.succ[t.id] if l == "false"]
                    ok = bool(excused) and wn.id not in cfg.reachable(cfg.entry.id, avoid_nodes=reads, avoid_edges=excused)
                res.add("R16.3", f"ChangeContents.{mname}", ok, f"{m.unit.rel}:{c.lineno}",
                        "the resource is read (newline convention detected) on every path before it is written" if ok else
                        f"ChangeContents.{mname} can write the file without this resource object ever having been read "
                        "(a change rebuilt from saved history carries old_contents): resource.newlines is None and a CRLF/CR file is rewritten with LF",
                        function=m.qualname)
    res.floor("R16.3", "text writes in content changes", n163, 2)

    # ---- R16.4 CRLF before CR
    n164 = 0
    for f in sorted(idx.functions.values(), key=lambda f: f.qualname):
        if f.unit.modname in ("rope.base.oi.runmod",):
            continue
        reps = []
        for c in calls_in(f.node):
            if call_name(c) == "replace" and len(c.args) == 2 and isinstance(c.args[0], ast.Constant) \
                    and c.args[0].value in ("\r\n", "\r", b"\r\n", b"\r"):
                reps.append(c)
        kinds = {len(c.args[0].value) for c in reps}
        if kinds != {1, 2}:
            # the same normalisation as a loop over a table of conventions: `for nl in ("\r\n", "\r"): text = text.replace(nl, "\n")`
            for lp in [x for x in walk_local(f.node) if isinstance(x, ast.For) and isinstance(x.target, ast.Name)]:
                tbl = idx.literal_node(f.unit.modname, lp.iter, f.cls)
                vals = [e.value for e in tbl.elts if isinstance(e, ast.Constant)] if isinstance(tbl, (ast.Tuple, ast.List)) else []
                uses = any(call_name(c) == "replace" and c.args and isinstance(c.args[0], ast.Name) and c.args[0].id == lp.target.id for c in calls_in(lp))
                if uses and {len(v) for v in vals if v in ("\r\n", "\r", b"\r\n", b"\r")} == {1, 2}:
                    n164 += 1
                    order = [len(v) for v in vals if v in ("\r\n", "\r", b"\r\n", b"\r")]
                    badl = order.index(1) < order.index(2)
                    res.add("R16.4", f.qualname.split(".", 2)[-1], not badl, f.where,
                            "CRLF stands before lone CR in the table of conventions the loop replaces" if not badl else
                            "the table of newline conventions lists lone CR before CRLF: every CRLF becomes two newlines", function=f.qualname)
            continue
        n164 += 1
        cfg = CFG(f.node)
        bad = False
        for cr in [c for c in reps if len(c.args[0].value) == 1]:
            for crlf in [c for c in reps if len(c.args[0].value) == 2]:
                # same expression: chained -> the receiver chain gives evaluation order
                if any(x is crlf for x in ast.walk(cr.func.value)):
                    continue  # crlf evaluated first (it is inside cr's receiver)
                if any(x is cr for x in ast.walk(crlf.func.value)):
                    bad = True
                    continue
                a, b = cfg.node_containing(cr), cfg.node_containing(crlf)
                if a and b and a[0].id != b[0].id and cfg.exists_path(a[0].id, b[0].id):
                    bad = True
                if a and b and a[0].id == b[0].id:
                    bad = bad or (cr.lineno, cr.col_offset) < (crlf.lineno, crlf.col_offset)
        res.add("R16.4", f.qualname.split(".", 2)[-1], not bad, f.where,
                "CRLF is replaced before lone CR on every path" if not bad else
                "a lone-CR replacement can run before the CRLF replacement: every CRLF becomes two newlines",
                function=f.qualname)
    res.floor("R16.4", "functions normalising both CRLF and CR", n164, 2)


def undo_newline_rule(ctx, res, rule: str) -> None:
    """R16.6 (shared with C11): the inverse of a content change writes the OLD text; the convention to write it with is a
    fact about the old text, captured when the change was performed -- it cannot be re-detected from a new text without
    line breaks.  In every Change whose undo writes text: do() stores `resource.newlines` in an attribute and undo()
    assigns that attribute back to `resource.newlines` before the write."""
    from ..cfg import CFG
    from . import common

    idx = ctx.idx
    n = 0
    for c in common.change_classes(idx):
        do, undo = c.methods.get("do"), c.methods.get("undo")
        if not do or not undo:
            continue
        from .common import inlined
        do_node, undo_node = inlined(idx, do), inlined(idx, undo)  # steps moved into private helpers are read in place
        writes = [x for x in calls_in(undo_node) if call_name(x) == "write_file"]
        if not writes:
            continue
        n += 1
        captured = {t.attr for x in walk_local(do_node) if isinstance(x, ast.Assign) and isinstance(x.value, ast.Attribute)
                    and x.value.attr == "newlines" for t in x.targets if is_self_attr(t)}
        cfg = CFG(undo_node)
        val = lambda e: common._subst_single_locals(undo_node, e)  # `old = self._old_newlines ... resource.newlines = old`
        restores = [nd for nd in cfg.nodes if nd.kind == "stmt" and isinstance(nd.ast, ast.Assign) and any(
            isinstance(t, ast.Attribute) and t.attr == "newlines" for t in nd.ast.targets) and is_self_attr(val(nd.ast.value)) and val(nd.ast.value).attr in captured]
        ok = bool(captured) and bool(restores)
        if ok:
            # the restore lies before the write on the path where a convention was captured
            for w in writes:
                for wn in cfg.node_containing(w):
                    if not any(wn.id in cfg.reachable(r.id) for r in restores):
                        ok = False
        res.add(rule, f"{c.name}|undo-newlines", ok, undo.where,
                "undo writes the old text with the newline convention captured by do()" if ok else
                f"{c.name}.undo writes the old text with whatever newline convention the file has at that moment: when the new text has no line break "
                "the convention of the replaced text cannot be detected any more, and a CRLF (or CR) file comes back with LF after undo",
                function=undo.qualname)
    res.floor(rule, "changes whose undo writes text", n, 1)


def module_header_rule(ctx, res, rule: str) -> None:
    """R16.7 (shared with C05): the shebang and the coding line are facts about the MODULE.  Where a refactoring cuts a
    definition out together with the comment lines above it, the absorption of comment lines stops at those two lines:
    the loop's test (or a helper it calls) distinguishes them (it mentions the shebang marker or the word 'coding')."""
    idx = ctx.idx
    f = idx.need_func("rope.refactor.move.MoveGlobal._get_moving_region")
    loops = [w for w in walk_local(f.node) if isinstance(w, ast.While) and
             (any(isinstance(y, ast.Constant) and y.value == "#" for y in ast.walk(w.test)) or
              any(isinstance(c, ast.Call) and "comment" in call_name(c) for c in ast.walk(w.test)))]  # self._is_comment..(..) or a module-level helper
    if not loops:
        raise AnalysisError("anchor=MoveGlobal._get_moving_region: loop absorbing the comment lines above the definition not found")

    def distinguishes(node, depth=0) -> bool:
        for y in ast.walk(node):
            if isinstance(y, ast.Constant) and isinstance(y.value, str) and ("coding" in y.value or y.value.startswith("#!")):
                return True
            if isinstance(y, ast.Call) and depth < 2:
                g = None
                if is_self_attr(y.func) and f.cls is not None:
                    g = idx.find_method(f.cls.qualname, y.func.attr)
                else:
                    q = idx.resolve(f.unit.modname, y.func)
                    g = idx.functions.get(q) if q else None
                if g is not None and distinguishes(g.node, depth + 1):
                    return True
        return False

    for k, w in enumerate(loops, 1):
        ok = distinguishes(w.test)
        res.add(rule, f"MoveGlobal._get_moving_region|header-lines#{k}", ok, f"{f.unit.rel}:{w.lineno}",
                "comment absorption stops at the shebang / coding line" if ok else
                "MoveGlobal takes every comment line directly above the definition along with it, the module's coding line included when the definition "
                "follows it: the cookie ends up in the destination and the source module, now without it, is rewritten as UTF-8 although it was latin-1",
                function=f.qualname)


def first_import_line_rule(ctx, res, rule: str) -> None:
    """R16.8 (shared with C07): where a new import goes in a module that has none yet is computed from the module
    (header comments, docstring, first statement) -- never a constant line number, which puts it above the shebang and
    the coding line."""
    idx = ctx.idx
    f = idx.need_func("rope.refactor.importutils.module_imports.ModuleImports.add_import")
    # the line handed to the new ImportStatement: every value it can take, followed through locals and private helpers
    ctor = [c for c in calls_in(f.node) if call_name(c) == "ImportStatement" and len(c.args) >= 2]
    if not ctor:
        raise AnalysisError("anchor=ModuleImports.add_import: construction of the new ImportStatement not found")

    def values(fn, e, depth=0):
        """the expressions `e` can evaluate to: through local assignments and through the returns of private helpers"""
        if depth > 3:
            return [(fn, e)]
        if isinstance(e, ast.Name):
            defs = [x.value for x in walk_local(fn.node) if isinstance(x, ast.Assign) and any(isinstance(t, ast.Name) and t.id == e.id for t in x.targets)]
            if defs:
                return [v for d in defs for v in values(fn, d, depth + 1)]
            return [(fn, e)]
        if isinstance(e, ast.Call) and is_self_attr(e.func) and fn.cls is not None:
            h = idx.find_method(fn.cls.qualname, e.func.attr)
            if h is not None and h.name.startswith("_"):
                rets = [r.value for r in walk_local(h.node) if isinstance(r, ast.Return) and r.value is not None]
                if rets:
                    return [v for r in rets for v in values(h, r, depth + 1)]
        if isinstance(e, ast.IfExp):
            return values(fn, e.body, depth + 1) + values(fn, e.orelse, depth + 1)
        return [(fn, e)]

    vals = [v for c in ctor for v in values(f, c.args[1])]
    consts = [(g, v) for g, v in vals if isinstance(v, ast.Constant)]
    where = f"{consts[0][0].unit.rel}:{consts[0][1].lineno}" if consts else f"{f.unit.rel}:{ctor[0].lineno}"
    res.add(rule, "_get_new_import_lineno|computed", not consts, where,
            "the line for a new import is computed from the module on every path" if not consts else
            f"the line of a new import can be the constant {consts[0][1].value} (for a module without imports): the import is inserted above the shebang, the "
            "coding line (which then slides below line 2 and is no longer honoured: a latin-1 file is rewritten as UTF-8) and the docstring",
            function=f.qualname)


def coding_name_alphabet_rule(ctx, res, rule: str) -> None:
    """R16.9: the scanner that cuts the codec name out of the coding line accepts (a) both delimiters PEP 263 allows after
    `coding` ('=' as in vim's fileencoding=, ':' as in emacs' coding:) and (b) every character that occurs in the
    interpreter's codec names: letters, digits, and the punctuation of encodings.aliases plus the hyphen that
    encodings.normalize_encoding folds to '_'.  A smaller alphabet truncates `iso8859_15` to `iso8859` (= latin-1)."""
    import encodings.aliases

    idx = ctx.idx
    f = idx.need_func("rope.base.fscommands._find_coding")
    punct = {ch for name in list(encodings.aliases.aliases) + list(encodings.aliases.aliases.values()) for ch in name if not ch.isalnum()} | {"-"}
    sets = []
    from . import common as _common
    parts = _common.with_private_helpers(idx, f)  # (the scan for the end of the name may be a helper of the module)
    for x in [y for g in parts for y in walk_local(g.node)]:
        if not (isinstance(x, ast.Compare) and len(x.ops) == 1 and isinstance(x.ops[0], (ast.In, ast.NotIn))):
            continue
        r = x.comparators[0]
        if isinstance(r, ast.Constant) and isinstance(r.value, (bytes, str)):
            v = r.value
            sets.append((x, {chr(b) for b in v} if isinstance(v, bytes) else set(v)))
        elif isinstance(r, (ast.Tuple, ast.List, ast.Set)) and r.elts and all(
                isinstance(e, ast.Constant) and isinstance(e.value, (bytes, str)) and len(e.value) == 1 for e in r.elts):
            # the same set spelled as a collection of one-character constants (`x[i : i + 1] in (b"=", b":")`)
            sets.append((x, {e.value.decode("latin-1") if isinstance(e.value, bytes) else e.value for e in r.elts}))
    if len(sets) < 2:
        raise AnalysisError("anchor=fscommands._find_coding: the delimiter test and the name alphabet are no longer constant membership tests")
    delim = [(x, v) for x, v in sets if v & {"=", ":"}]
    alpha = [(x, v) for x, v in sets if not (v & {"=", ":"})]
    if not delim or not alpha:
        raise AnalysisError("anchor=fscommands._find_coding: delimiter / alphabet tests not found")
    for k, (x, v) in enumerate(delim, 1):
        ok = {"=", ":"} <= v
        res.add(rule, f"_find_coding|delimiters#{k}", ok, f"{f.unit.rel}:{x.lineno}",
                "both PEP 263 delimiters ('=' and ':') are accepted after `coding`" if ok else
                f"only {sorted(v)} is accepted after `coding`: a declaration written with {sorted({'=', ':'} - v)} (PEP 263 allows both) is not seen and the file "
                "is decoded as UTF-8 / latin-1 instead of its declared encoding", function=f.qualname)
    cfgs = {g.qualname: CFG(_common.desugar_next(g.node)) for g in parts}  # `end = next((i for i in range(...) if <stop test>), len(text))` is the same scan
    for k, (x, v) in enumerate(alpha, 1):
        # the scan stops (break) only for characters that are neither alphanumeric nor in the punctuation set: read
        # off the guards of the stop, however the test is written (one condition, nested ifs, a named boolean)
        g = next(g for g in parts if any(y is x for y in ast.walk(g.node)))
        cfg = cfgs[g.qualname]
        breaks = [nd for nd in cfg.nodes if nd.kind == "stmt" and isinstance(nd.ast, (ast.Break, ast.Return))]
        stops = [nd for nd in breaks if any(t is x or any(y is x for y in ast.walk(t)) for t, _ in cfg.guards(nd.id))]
        has_alnum = bool(stops) and all(any(not pol and isinstance(t, ast.Call) and call_name(t) == "isalnum" for t, pol in cfg.guards(nd.id)) for nd in stops)
        missing = sorted(punct - v)
        ok = has_alnum and not missing
        res.add(rule, f"_find_coding|name-alphabet#{k}", ok, f"{f.unit.rel}:{x.lineno}",
                f"codec names may contain letters, digits and {sorted(punct)}" if ok else
                f"the codec-name scanner stops at {missing if missing else 'letters or digits'}: a declared `iso8859_15` / `shift_jis` / `iso-8859-15` is cut at that character, so the file is read "
                "with a different codec (or none) and non-ASCII text is not preserved", function=f.qualname)


def _enclosing_test(fn, node):
    """the `if`/`while` test expression that contains `node` (or node itself)"""
    for x in walk_local(fn):
        if isinstance(x, (ast.If, ast.While)) and any(y is node for y in ast.walk(x.test)):
            return x.test
    return node



def cookie_line_rule(ctx, res, rule: str) -> None:
    """R16.10: WHICH line declares the encoding is decided like the interpreter does (tokenize.detect_encoding): (a) every
    line tokenize.cookie_re recognises is recognised by rope's coding-line pattern (exact language inclusion of the two
    anchored prefix patterns), (b) exactly the first TWO lines are examined."""
    import tokenize

    from .. import rederiv
    idx = ctx.idx
    f = idx.need_func("rope.base.fscommands.read_str_coding")
    def resolve(e, depth=0) -> Set[str]:
        """the pattern texts an expression can stand for: a literal, re.compile(<p>), <p>.decode(...), a local of the
        function or a constant of the module (every binding)"""
        if depth > 6:
            return set()
        if isinstance(e, ast.Constant) and isinstance(e.value, (bytes, str)):
            return {e.value.decode("latin-1") if isinstance(e.value, bytes) else e.value}
        if isinstance(e, ast.Call) and call_name(e) == "compile" and e.args:
            return resolve(e.args[0], depth + 1)
        if isinstance(e, ast.Call) and call_name(e) in ("decode", "encode") and isinstance(e.func, ast.Attribute):
            return resolve(e.func.value, depth + 1)
        if isinstance(e, ast.Name):
            out: Set[str] = set()
            binds = [x.value for x in walk_local(f.node) if isinstance(x, ast.Assign) and any(isinstance(t, ast.Name) and t.id == e.id for t in x.targets)]
            # `newline, indent = "\\n", " \\t\\f"`: element-wise
            for x in walk_local(f.node):
                if isinstance(x, ast.Assign) and len(x.targets) == 1 and isinstance(x.targets[0], ast.Tuple) and isinstance(x.value, ast.Tuple) \
                        and len(x.targets[0].elts) == len(x.value.elts):
                    binds += [v for t, v in zip(x.targets[0].elts, x.value.elts) if isinstance(t, ast.Name) and t.id == e.id]
            if not binds:
                binds = [x.value for x in f.unit.tree.body if isinstance(x, ast.Assign) and any(isinstance(t, ast.Name) and t.id == e.id for t in x.targets)]
            for b in binds:
                if b is not e:
                    out |= resolve(b, depth + 1)
            return out
        return set()

    def applied(c) -> Optional[ast.AST]:
        """the pattern expression of a `re.match(<p>, line)` / `<p>.match(line)` call"""
        if not (isinstance(c, ast.Call) and call_name(c) == "match" and isinstance(c.func, ast.Attribute)):
            return None
        if isinstance(c.func.value, ast.Name) and c.func.value.id == "re":
            return c.args[0] if c.args else None
        return c.func.value

    matches = [(c, resolve(applied(c))) for c in ast.walk(f.node) if applied(c) is not None]
    coding = sorted({p for _, ps in matches for p in ps if "coding" in p})
    if len(coding) != 1:
        raise AnalysisError("anchor=fscommands.read_str_coding: the constant coding-line pattern not found")
    rope_pat = coding[0]
    pat_line = next(c.lineno for c, ps in matches if rope_pat in ps)
    # the line may be stripped of its leading blanks first (`line = line.lstrip(" \\t\\f")`) and the patterns written without
    # that prefix: the language recognised is then <those characters>* followed by the pattern
    import re as _re
    strip_prefix = ""
    for x in walk_local(f.node):
        if isinstance(x, ast.Assign) and isinstance(x.value, ast.Call) and call_name(x.value) == "lstrip" and x.value.args and len(x.targets) == 1 \
                and isinstance(x.targets[0], ast.Name) and isinstance(x.value.func, ast.Attribute) and isinstance(x.value.func.value, ast.Name) \
                and x.value.func.value.id == x.targets[0].id:
            chars = resolve(x.value.args[0])
            if len(chars) == 1:
                strip_prefix = "[" + _re.escape(next(iter(chars))) + "]*"
                stripped_var = x.targets[0].id
    if strip_prefix:
        rope_pat = strip_prefix + rope_pat.lstrip("^")
    tok_pat = tokenize.cookie_re.pattern
    uses_match = any(isinstance(c, ast.Call) and call_name(c) == "match" for c in ast.walk(f.node))
    if not uses_match:
        raise AnalysisError("anchor=fscommands.read_str_coding no longer applies the pattern with re.match")
    eng = rederiv.Engine()
    try:
        a = eng.term(tok_pat.lstrip("^"), ascii=True, k=rederiv.TOP)
        b = eng.term(rope_pat.lstrip("^"), k=rederiv.TOP)
        ok, cex, states = eng.included(a, b)
    except rederiv.Undecided as e:
        raise AnalysisError(f"coding-line pattern uses a construct the derivative engine does not model: {e}")
    res.add(rule, "read_str_coding|cookie-pattern", ok, f"{f.unit.rel}:{pat_line}",
            f"every line the interpreter takes for an encoding declaration matches rope's pattern ({states} derivative states)" if ok else
            f"the line {cex!r} is an encoding declaration for the interpreter (tokenize.cookie_re) but not for rope: the file is decoded and re-encoded "
            "with the default codec instead of the declared one", counter_example=cex, function=f.qualname)
    # (c) the scan stops at the first line that is neither blank nor a comment -- decided with the same language as
    # tokenize.blank_re
    stops = []
    scfg = CFG(f.node)
    for nd in scfg.nodes:  # an exit from the line loop taken when a `match(<blank pattern>, line)` FAILED (read off the guards)
        if nd.kind != "stmt" or not isinstance(nd.ast, (ast.Return, ast.Break)) or not scfg.loop_guards(nd.id):
            continue
        for t, pol in scfg.guards(nd.id):
            if not pol and applied(t) is not None:
                for bp in sorted(resolve(applied(t))):
                    if "coding" not in bp:
                        stops.append((nd.ast, bp))
    if not stops and strip_prefix:
        # the blank-or-comment test written without a pattern: the scan stops where `line and not line.startswith("#")`
        for nd in scfg.nodes:
            if nd.kind != "stmt" or not isinstance(nd.ast, (ast.Return, ast.Break)) or not scfg.loop_guards(nd.id):
                continue
            gs = scfg.guards(nd.id)
            truthy = any(pol and isinstance(t, ast.Name) and t.id == stripped_var for t, pol in gs)
            starts = [t for t, pol in gs if not pol and isinstance(t, ast.Call) and call_name(t) == "startswith" and isinstance(t.func, ast.Attribute)
                      and isinstance(t.func.value, ast.Name) and t.func.value.id == stripped_var and t.args]
            if truthy and starts:
                cs = resolve(starts[0].args[0])
                if len(cs) == 1:
                    stops.append((nd.ast, strip_prefix + "(?:" + _re.escape(next(iter(cs))) + "|$)"))
    if not stops:
        res.add(rule, "read_str_coding|stops-at-code", False, f"{f.unit.rel}:{f.node.lineno}",
                "the second line is examined whatever the first line is: `import os` / `# coding: latin-1` declares nothing for the interpreter "
                "(tokenize.detect_encoding stops at a first line that is not blank or a comment), but rope decodes and encodes the file as latin-1",
                function=f.qualname)
    for k, (st, bp) in enumerate(stops, 1):
        try:
            ta = eng.term(tokenize.blank_re.pattern.decode("latin-1").lstrip("^"), ascii=True, k=rederiv.TOP)
            tb = eng.term(bp.lstrip("^"), k=rederiv.TOP)
            i1, i2 = eng.included(ta, tb), eng.included(tb, ta)
        except rederiv.Undecided as e:
            raise AnalysisError(f"blank-line pattern uses a construct the derivative engine does not model: {e}")
        okb = i1[0] and i2[0]
        res.add(rule, f"read_str_coding|stops-at-code#{k}", okb, f"{f.unit.rel}:{st.lineno}",
                "the scan for the declaration stops at the first line that is not blank or a comment, with the interpreter's notion of blank" if okb else
                (f"the line {i1[1]!r} is blank for the interpreter but stops rope's scan: a declaration on the line below it is missed" if not i1[0] else
                 f"the line {i2[1]!r} is code for the interpreter but rope goes on to the next line and honours a `coding:` comment there"),
                function=f.qualname)
    loops = [x for x in walk_local(f.node) if isinstance(x, ast.For)]
    bounds = []
    for lp in loops:
        for sub in ast.walk(lp.iter):
            if isinstance(sub, ast.Subscript) and isinstance(sub.slice, ast.Slice) and sub.slice.lower is None \
                    and isinstance(sub.slice.upper, ast.Constant) and isinstance(sub.slice.upper.value, int):
                bounds.append((lp, sub.slice.upper.value))
    if len(bounds) != 1:
        raise AnalysisError("anchor=fscommands.read_str_coding: the loop over the first lines (`lines[:N]`) not found")
    lp, nlines = bounds[0]
    res.add(rule, "read_str_coding|lines-examined", nlines == 2, f"{f.unit.rel}:{lp.lineno}",
            "the first two lines are examined for the declaration (PEP 263)" if nlines == 2 else
            f"{nlines} line(s) are examined for the encoding declaration, the interpreter examines 2: "
            + ("a declaration on line 2 (below a shebang) is not seen and the file is treated as UTF-8" if nlines < 2 else
               "a `coding:` comment further down, which the interpreter ignores, changes the codec rope uses"), function=f.qualname)
    # (d) the lines are cut from the WHOLE text: a line has no maximum length (PEP 263 speaks of lines, not of bytes), and the
    # same function answers for bytes (read) and str (write) -- a head of N items is N bytes on one side and N characters on the other
    src_param = (param_names(f.node) or [None])[0]
    cuts = [x for lp_ in loops for x in ast.walk(lp_.iter) if isinstance(x, ast.Subscript) and isinstance(x.slice, ast.Slice)
            and isinstance(x.value, ast.Name) and x.value.id == src_param]
    cuts += [x.value for x in walk_local(f.node) if isinstance(x, ast.Assign) and isinstance(x.value, ast.Subscript) and isinstance(x.value.slice, ast.Slice)
             and isinstance(x.value.value, ast.Name) and x.value.value.id == src_param]
    res.add(rule, "read_str_coding|whole-lines-examined", not cuts, f"{f.unit.rel}:{(cuts[0] if cuts else lp).lineno}",
            "the two lines are cut from the whole text" if not cuts else
            f"only `{ast.unparse(cuts[0])}` is cut into lines: a first line longer than that (a generated-file banner, a licence line) hides the declaration on line 2 -- the file is "
            "read as UTF-8-or-latin-1 and WRITTEN as UTF-8 while it still declares its codec; and the bound counts bytes when reading and characters when writing, so the "
            "two sides disagree for a line of multi-byte characters", function=f.qualname)


def encoding_from_text_rule(ctx, res, rule: str) -> None:
    """R16.11: text is encoded with the codec IT declares.  The writer hands the text to the encoder without an explicit
    encoding, so that the encoder chooses it from the coding line of the text being written (R16.1) -- an encoding
    remembered from the last read is the declaration of the OLD text, and an edit may change or remove that line."""
    from .common import inlined
    idx = ctx.idx
    wf = idx.need_func("rope.base.change._ResourceOperations.write_file")
    n = 0
    for c in calls_in(inlined(idx, wf)):
        if idx.resolve(wf.unit.modname, c.func) != ENC and call_name(c) != "unicode_to_file_data":
            continue
        n += 1
        enc_params = [p for p in idx.need_func(ENC).call_params()]
        given = [k.value for k in c.keywords if k.arg == "encoding"]
        if "encoding" in enc_params and enc_params.index("encoding") < len(c.args):
            given.append(c.args[enc_params.index("encoding")])
        given = [g for g in given if not (isinstance(g, ast.Constant) and g.value is None)]
        ok = not given
        res.add(rule, f"write_file|encoder-call#{n}", ok, f"{wf.unit.rel}:{c.lineno}",
                "the encoder is left to choose the encoding from the text it is given" if ok else
                f"the writer passes `encoding={ast.unparse(given[0])}` to the encoder, bypassing the choice from the text: when an edit changes or removes the coding "
                "line, the new text is encoded with the OLD declaration -- the bytes on disk do not match the cookie they carry", function=wf.qualname)
    res.floor(rule, "encoder calls in write_file", n, 1)


def declaration_keyword_rule(ctx, res, rule: str) -> None:
    """R16.12: the coding-line pattern (`#.*?coding[:=]`) finds the first `coding` that is FOLLOWED by a delimiter; the words
    "encoding", "decoding", "hard-coding" may stand before it on the line.  The function that then cuts the codec name out
    of the line must find the same occurrence: a keyword search (`index` / `find` of the literal) whose hit is rejected
    because no delimiter follows is repeated from there (it stands in a loop) -- it does not end the scan with "no
    declaration", which makes the writer fall back to UTF-8 for a file that declares, and is read as, something else."""
    idx = ctx.idx
    f = idx.need_func("rope.base.fscommands._find_coding")
    lits = {t.id for x in walk_local(f.node) if isinstance(x, ast.Assign) and isinstance(x.value, ast.Constant) and x.value.value in (b"coding", "coding")
            for t in x.targets if isinstance(t, ast.Name)}

    def is_kw(e) -> bool:
        if (isinstance(e, ast.Constant) and e.value in (b"coding", "coding")) or (isinstance(e, ast.Name) and e.id in lits):
            return True
        k = idx.const_node(f.unit.modname, e, f.cls) if isinstance(e, (ast.Name, ast.Attribute)) else None  # a module / class constant
        return k is not None and k.value in (b"coding", "coding")
    searches = [c for c in calls_in(f.node) if isinstance(c.func, ast.Attribute) and c.func.attr in ("index", "find") and c.args and is_kw(c.args[0])]
    if not searches:
        raise AnalysisError("anchor=fscommands._find_coding: no search for the keyword `coding`")
    in_loop = set()
    for w in walk_local(f.node):
        if isinstance(w, (ast.While, ast.For)):
            in_loop |= {id(c) for c in ast.walk(w) if isinstance(c, ast.Call)}
    ok = any(id(c) in in_loop for c in searches)
    res.add(rule, "_find_coding|keyword-search-retries", ok, f"{f.unit.rel}:{searches[0].lineno}",
            "a hit of the keyword that no delimiter follows is not the end of the scan: the search is repeated" if ok else
            f"`{ast.unparse(searches[0])}` looks at ONE occurrence of the word: in `# encoding and decoding helpers -*- coding: latin-1 -*-` the first `coding` is followed "
            "by a space, the function answers 'no declaration', and a file the interpreter (and rope's own line pattern) reads as latin-1 is written back as "
            "UTF-8 -- every non-ASCII character changes its bytes while the file still declares latin-1", function=f.qualname)


def codec_name_normalisation_rule(ctx, res, rule: str) -> None:
    """R16.13: the name in the coding line is not yet the codec: the interpreter normalises it (`tokenize._get_normal_name`:
    `utf-8-unix`, `utf-8-sig`, `UTF_8_mac` -> utf-8; `latin-1-unix`, `iso-latin-1-dos` -> iso-8859-1), and a declaration can
    neither demand nor forbid a byte order mark.  Every name `_find_coding` returns passes through a function of the module
    that -- evaluated by the folder on the interpreter's own table of spellings -- answers like `_get_normal_name`."""
    import tokenize

    from .. import fold
    idx = ctx.idx
    f = idx.need_func("rope.base.fscommands._find_coding")
    rets = [r for r in walk_local(f.node) if isinstance(r, ast.Return) and r.value is not None and not (isinstance(r.value, ast.Constant) and r.value.value is None)]
    if not rets:
        raise AnalysisError("anchor=fscommands._find_coding returns no name")
    through = set()
    raw = None
    for r in rets:
        v = r.value
        if isinstance(v, ast.Call) and isinstance(v.func, ast.Name) and f"{f.unit.modname}.{v.func.id}" in idx.functions:
            through.add(f"{f.unit.modname}.{v.func.id}")
        else:
            raw = r
    if raw is not None or len(through) != 1:
        res.add(rule, "_find_coding|declared-name-is-normalised", False, f"{f.unit.rel}:{(raw or rets[0]).lineno}",
                "the name cut out of the coding line is used as it is written: `# coding: utf-8-unix` (utf-8 for the interpreter) makes every write raise LookupError, and "
                "`# coding: utf-8-sig` on a file without a byte order mark makes every write prepend one", function=f.qualname)
        return
    q = through.pop()
    folder = fold.get(ctx)
    samples = ["utf-8", "utf-8-sig", "utf-8-unix", "UTF_8_mac", "utf8", "latin-1", "latin-1-unix", "Latin-1", "iso-latin-1-dos", "iso-8859-1", "iso-8859-15", "cp1252", "ascii", "shift_jis"]
    wrong, unfolded = [], 0
    for n_ in samples:
        try:
            got = folder.call_function(q, [n_])
        except fold.Unfoldable:
            unfolded += 1
            continue
        if got != tokenize._get_normal_name(n_):
            wrong.append((n_, got, tokenize._get_normal_name(n_)))
    if unfolded == len(samples):
        res.undecided(rule, "_find_coding|declared-name-is-normalised", f.where, f"{q} could not be evaluated")
        return
    res.add(rule, "_find_coding|declared-name-is-normalised", not wrong, idx.functions[q].where,
            f"{q.split('.')[-1]} answers like tokenize._get_normal_name on {len(samples) - unfolded} spellings" if not wrong else
            f"{q.split('.')[-1]} maps {wrong[0][0]!r} to {wrong[0][1]!r}, the interpreter to {wrong[0][2]!r}: the file is read and written with another codec than the "
            "one it is executed with", function=q, wrong=[w[0] for w in wrong])


def newline_capture_rule(ctx, res, rule: str) -> None:
    """R16.14: `File.newlines` is what the LAST READ through that File object detected; a File object that never read holds None.
    Wherever a content change remembers the convention of the text it is about to replace (an attribute set from
    `self.resource.newlines` in do()), a read of the resource lies on every path to that statement -- also on the path of
    a change rebuilt from the saved history, which knows its old contents and would not read for their sake."""
    from . import common as _common
    idx = ctx.idx
    cc = idx.need_class("rope.base.change.ChangeContents")
    do = cc.methods.get("do")
    if do is None:
        raise AnalysisError("anchor=ChangeContents.do missing")
    node = _common.inlined(idx, do)
    cfg = CFG(node)
    n = 0

    def is_convention(e) -> bool:
        return isinstance(e, ast.Attribute) and e.attr == "newlines" and is_self_attr(e.value, "resource")

    # where the convention is READ OFF the File object on its way into an attribute of the change: the store itself, or -- when the store
    # takes a local (`self._old_newlines = _detect_newlines(self.resource)` read in place) -- the bindings of that local that reach the store
    captures = []
    for nd in cfg.nodes:
        st = nd.ast
        if nd.kind != "stmt" or not isinstance(st, ast.Assign) or not any(is_self_attr(t) for t in st.targets):
            continue
        if is_convention(st.value):
            captures.append(nd)
        elif isinstance(st.value, ast.Name):
            defs = [d for d in cfg.nodes if d.kind == "stmt" and isinstance(d.ast, ast.Assign) and any(isinstance(t, ast.Name) and t.id == st.value.id for t in d.ast.targets)]
            for d in defs:
                v = d.ast.value
                if isinstance(v, ast.Name):  # one more step (`_inl = newlines`)
                    inner = [d2 for d2 in cfg.nodes if d2.kind == "stmt" and isinstance(d2.ast, ast.Assign) and any(isinstance(t, ast.Name) and t.id == v.id for t in d2.ast.targets)]
                    for d2 in inner:
                        if is_convention(d2.ast.value) and d.id in cfg.reachable(d2.id, avoid_nodes=[x.id for x in inner if x is not d2]):
                            captures.append(d2)
                elif is_convention(v) and nd.id in cfg.reachable(d.id, avoid_nodes=[x.id for x in defs if x is not d]):
                    captures.append(d)
    local_conv = {t.id for d in cfg.nodes if d.kind == "stmt" and isinstance(d.ast, ast.Assign) and is_convention(d.ast.value) for t in d.ast.targets if isinstance(t, ast.Name)}
    for nd in captures:
        st = nd.ast
        n += 1
        reads = [x.id for x in cfg.nodes if x.ast is not None and x.kind in ("stmt", "test") and any(
            call_name(c) == "read" and isinstance(c.func, ast.Attribute) and is_self_attr(c.func.value, "resource") for c in calls_in(x.ast) + ([x.ast] if isinstance(x.ast, ast.Call) else []))]
        known = [(x.id, b, lab) for x in cfg.nodes if x.kind == "test" and isinstance(x.ast, ast.Compare) and len(x.ast.ops) == 1
                 and ((isinstance(x.ast.left, ast.Attribute) and x.ast.left.attr == "newlines") or (isinstance(x.ast.left, ast.Name) and x.ast.left.id in local_conv))
                 and isinstance(x.ast.comparators[0], ast.Constant) and x.ast.comparators[0].value is None
                 for b, lab in cfg.succ[x.id] if lab == ("false" if isinstance(x.ast.ops[0], ast.Is) else "true")]
        # (a file that does not exist has no convention to detect)
        known += [(x.id, b, lab) for x in cfg.nodes if x.kind == "test" and isinstance(x.ast, ast.Call) and call_name(x.ast) == "exists"
                  for b, lab in cfg.succ[x.id] if lab == "false"]
        ok = bool(reads) and nd.id not in cfg.reachable(cfg.entry.id, avoid_nodes=reads, avoid_edges=known)
        res.add(rule, f"ChangeContents.do|newline-convention-captured-after-a-read#{n}", ok, f"{do.unit.rel}:{st.lineno}",
                "the convention is captured after a read of the resource on every path (or where it is already known)" if ok else
                f"`{ast.unparse(st)}` can run although this File object never read the file (old_contents known: a change rebuilt from the saved history): None is captured, "
                "saved with the change at the next close, and a later undo restores a CRLF file with LF line ends", function=do.qualname)
    res.floor(rule, "captures of the newline convention in do()", n, 1)


def byte_order_mark_rule(ctx, res, rule: str) -> None:
    """R16.15: rope decodes a UTF-8 file with its byte order mark as the first character of the text (U+FEFF), so that writing the text back
    writes the mark back.  The mark is a signature of the FILE: it is not text of the statement on line 1.  The import tools are the code
    that cuts whole lines out of a module and puts them somewhere else (sorting moves the first import down, an unused first import is
    deleted).  Two necessary conditions, both read off the code: (a) where the text of an import statement is read from the line table,
    a leading U+FEFF is taken off it (else the mark travels with the statement into the middle of the file: `invalid non-printable
    character U+FEFF`); (b) the function that hands out the rewritten module puts the mark in front again when the original text started
    with it and the result does not -- a test of the ORIGINAL source guards the concatenation (else the mark is lost with a deleted or
    re-emitted first statement, and bytes outside the edit change)."""
    idx = ctx.idx
    modname = "rope.refactor.importutils.module_imports"
    u = idx.units.get(modname)
    if u is None:
        raise AnalysisError(f"anchor={modname} not found")
    bom_names = {t.id for a in u.tree.body if isinstance(a, ast.Assign) and isinstance(a.value, ast.Constant) and a.value.value == "\ufeff"
                 for t in a.targets if isinstance(t, ast.Name)}

    def is_bom(e) -> bool:
        return (isinstance(e, ast.Constant) and e.value == "\ufeff") or (isinstance(e, ast.Name) and e.id in bom_names) \
            or (isinstance(e, ast.Attribute) and e.attr in ("BOM_UTF8", "BOM"))

    # (a) readers of statement text: functions that join lines taken from a line table (`get_line`) into one text
    readers = [f for f in idx.functions.values() if f.unit is u and any(call_name(c) == "get_line" for c in calls_in(f.node))
               and any(call_name(c) == "join" for c in calls_in(f.node)) and any(isinstance(r, ast.Return) for r in walk_local(f.node))]
    if not readers:
        raise AnalysisError("anchor=module_imports: the function that reads the text of an import statement from the line table not found")
    for f in readers:
        strips = any(isinstance(c.func, ast.Attribute) and c.func.attr in ("lstrip", "removeprefix", "replace") and c.args and is_bom(c.args[0]) for c in calls_in(f.node)) \
            or any(isinstance(t, ast.Call) and call_name(t) == "startswith" and t.args and is_bom(t.args[0]) for t in ast.walk(f.node))
        res.add(rule, f"{f.qualname.split('.', 4)[-1]}|statement-text-without-the-mark", strips, f.where,
                "the text of a statement is read without a leading byte order mark" if strips else
                f"{f.name} returns the lines of an import statement as they stand: for a file that starts with a UTF-8 byte order mark the first import's text begins with U+FEFF, and "
                "when the statement is sorted below another import the mark moves into the middle of the file (SyntaxError: invalid non-printable character U+FEFF)", function=f.qualname)
    # (b) the hand-out of the rewritten module
    cls = idx.need_class(f"{modname}.ModuleImports")
    out = cls.methods.get("get_changed_source")
    if out is None:
        raise AnalysisError("anchor=ModuleImports.get_changed_source not found")
    cfg = CFG(out.node)
    restores = False
    for nd in cfg.nodes:
        if nd.kind == "stmt" and nd.ast is not None and any(isinstance(b, ast.BinOp) and isinstance(b.op, ast.Add) and is_bom(b.left) for b in ast.walk(nd.ast)):
            for t, pol in cfg.guards(nd.id):
                if pol and isinstance(t, ast.Call) and call_name(t) == "startswith" and t.args and is_bom(t.args[0]) and "source_code" in ast.unparse(t.func):
                    restores = True
    res.add(rule, "ModuleImports.get_changed_source|the-mark-stays-in-front", restores, out.where,
            "a byte order mark of the original text is put in front of the rewritten module again" if restores else
            "get_changed_source hands out the rewritten module without restoring a byte order mark the original text started with: when the first statement of the file is an "
            "import that is removed (or re-emitted), the mark is dropped -- bytes outside the edit change", function=out.qualname)
