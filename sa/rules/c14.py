"""C14 -- rope's view of source text agrees with the tokenizer (RCA rules R14.1-R14.20)."""
from __future__ import annotations

import ast
import tokenize
from typing import Dict, List, Optional, Set, Tuple

from .. import fold, rca
from ..cfg import CFG
from ..core import AnalysisError, call_name, calls_in, const_str, walk_local, is_self_attr

EXPLANATION = (
    "R14.1: every replacement made by simplify.real_code has a symbolic length equal to the replaced span (linear "
    "arithmetic over the offsets: len(' ' * n) = n, len(fmt % s) = len(fmt) - 2 + len(s), str.replace with "
    "equal-length constants).  R14.2: every string prefix of tokenize followed by a string body is matched whole by "
    "get_any_string_pattern (finite membership on the folded pattern).  R14.3: rope's comment pattern and "
    "tokenize.Comment denote the same language (two inclusions by DFA product, modulo \\r which rope normalises away "
    "before scanning).  R14.4: every bracket counter of the text scanners classifies all of ( [ { as opening and all "
    "of ) ] } as closing (sibling agreement with the tokenizer's paired delimiters).  R14.5: where a scanner captures the "
    "run of backslashes before a token, 'escaped' is decided by the parity of the run's length.  R14.6: the line tables "
    "and line splitters of the text scanners delimit lines by explicit '\\n', never by str.splitlines().  R14.7: a trailing backslash sets the continuation flag only under a test that the last token -- a "
    "variable bound in that function -- is not '#'.  R14.8 (=R20.5): the word finder consults the hard-keyword oracle only.  R14.9: the f-string test of real_code, folded over every tokenizer string prefix, keeps exactly the prefixes containing f/F.  Line-index inversion, the "
    "logical-line algorithm itself and the word/primary scanners are arithmetic over strings and are not decided."
    " R14.11: the language of rope's string-literal body pattern equals the tokenizer's, lookaheads included (exact, derivative engine sa/rederiv.py).  R14.12: the scanners feeding the bracket counters match all six bracket characters.  R14.13: in the logical-line scanner '#' and brackets act only on CFG paths where the in-string state was tested off."
    ' R14.14 (=R06.9): returned text comes from the raw source.  R14.15: blank lines are skipped only between logical lines, never while one is open.'
)
EXPLANATION += ' R14.16(c): after leaving an f-string the scan still looks the position up in the next one.'
EXPLANATION += " R14.17: identifier characters are the interpreter's.  R14.18: an escaped token is skipped one character at a time where the token pattern has multi-character alternatives."
EXPLANATION += ' R14.16: a whole-text bracket scan over the simplified text (where f-strings survive) reads the string regions; the backward bracket searches of the word finder step over strings through a quote-testing method.'
EXPLANATION += " R14.19: in the anchored modules and the shared text utilities no source text is cut with str.splitlines() (it breaks at form feed, \x1c-\x1e, \x85, U+2028/9; rope's and the ast's line numbers count \n only)."
EXPLANATION += " R14.21: in each string pattern every path that takes a letter for the first character of a literal, and every look-behind that reads a letter in front of it, has asserted a word start."
EXPLANATION += " R14.20: every store into the in-string state of the logical-line scanner stands under the test that the token at hand is a quote."
ASSUMPTIONS = ["tokenize's own Comment pattern and _all_string_prefixes() are the oracle for the token language"]

Lin = Dict[str, int]  # linear form: symbol -> coefficient, "" -> constant


def _lin_add(a: Lin, b: Lin, sign: int = 1) -> Lin:
    out = dict(a)
    for k, v in b.items():
        out[k] = out.get(k, 0) + sign * v
    return {k: v for k, v in out.items() if v != 0 or k == ""}


def _lin(e: ast.AST) -> Optional[Lin]:
    """integer-valued expression as a linear form over names"""
    if isinstance(e, ast.Constant) and isinstance(e.value, int):
        return {"": e.value}
    if isinstance(e, ast.Name):
        return {e.id: 1}
    if isinstance(e, ast.BinOp) and isinstance(e.op, (ast.Add, ast.Sub)):
        l, r = _lin(e.left), _lin(e.right)
        if l is None or r is None:
            return None
        return _lin_add(l, r, 1 if isinstance(e.op, ast.Add) else -1)
    return None


def _strlen(e: ast.AST, env: Dict[str, List[ast.AST]]) -> Optional[Lin]:
    """symbolic length of a string-valued expression"""
    if isinstance(e, ast.Constant) and isinstance(e.value, str):
        return {"": len(e.value)}
    if isinstance(e, ast.BinOp) and isinstance(e.op, ast.Mult):
        for s, n in ((e.left, e.right), (e.right, e.left)):
            if isinstance(s, ast.Constant) and isinstance(s.value, str):
                ln = _lin(n)
                if ln is not None:
                    return {k: v * len(s.value) for k, v in ln.items()}
    if isinstance(e, ast.BinOp) and isinstance(e.op, ast.Add):
        l, r = _strlen(e.left, env), _strlen(e.right, env)
        if l is not None and r is not None:
            return _lin_add(l, r)
    if isinstance(e, ast.BinOp) and isinstance(e.op, ast.Mod) and isinstance(e.left, ast.Constant) and isinstance(e.left.value, str):
        fmt = e.left.value
        if fmt.count("%s") == 1 and fmt.count("%") == 1:
            arg = e.right.elts[0] if isinstance(e.right, ast.Tuple) and len(e.right.elts) == 1 else e.right
            inner = _strlen(arg, env)
            if inner is not None:
                return _lin_add({"": len(fmt) - 2}, inner)
    # f"...{x}...": the literal pieces plus the lengths of the plain (unformatted, unconverted) fields
    if isinstance(e, ast.JoinedStr):
        total: Lin = {"": 0}
        for v in e.values:
            if isinstance(v, ast.Constant) and isinstance(v.value, str):
                part = {"": len(v.value)}
            elif isinstance(v, ast.FormattedValue) and v.conversion == -1 and v.format_spec is None:
                part = _strlen(v.value, env)
            else:
                part = None
            if part is None:
                return None
            total = _lin_add(total, part)
        return total
    # a local of the function bound once to a string expression
    if isinstance(e, ast.Name) and len(env.get(e.id, [])) == 1:
        return _strlen(env[e.id][0], env)
    return None


def _norm(l: Lin) -> Lin:
    return {k: v for k, v in l.items() if v != 0}


def _check_body(ctx, res) -> None:
    idx = ctx.idx
    folder = fold.get(ctx)
    rc = idx.need_func("rope.base.simplify.real_code")

    # ---- R14.1
    assigns: Dict[str, List[ast.AST]] = {}
    for n in walk_local(rc.node):
        if isinstance(n, ast.Assign) and isinstance(n.targets[0], ast.Name):
            assigns.setdefault(n.targets[0].id, []).append(n.value)
    n1 = 0
    for c in calls_in(rc.node):
        if call_name(c) == "add_change" and len(c.args) == 3:
            span = _lin(ast.BinOp(left=c.args[1], op=ast.Sub(), right=c.args[0]))
            texts = [c.args[2]]
            if isinstance(c.args[2], ast.Name):
                texts = [v for v in assigns.get(c.args[2].id, []) if not (isinstance(v, ast.Constant) and v.value is None)]
            for t in texts:
                n1 += 1
                ln = _strlen(t, assigns)
                key = f"real_code|add_change:{ast.unparse(t)[:40]}"
                if span is None or ln is None:
                    res.undecided("R14.1", key, f"{rc.unit.rel}:{c.lineno}", "length of the replacement or of the span is not a linear form")
                    continue
                ok = _norm(ln) == _norm(span)
                res.add("R14.1", key, ok, f"{rc.unit.rel}:{getattr(t, 'lineno', c.lineno)}",
                        f"len(replacement) = {_norm(ln)} = replaced span" if ok else
                        f"real_code replaces a span of length {_norm(span)} by text of length {_norm(ln)}: every offset after it is shifted, "
                        "so offsets computed on the simplified text point at the wrong characters of the source")
        if call_name(c) == "replace" and len(c.args) == 2 and const_str(c.args[0]) is not None and const_str(c.args[1]) is not None:
            n1 += 1
            a, b = const_str(c.args[0]), const_str(c.args[1])
            res.add("R14.1", f"real_code|replace:{a!r}", len(a) == len(b), f"{rc.unit.rel}:{c.lineno}",
                    f".replace({a!r}, {b!r}) preserves length" if len(a) == len(b) else
                    f"real_code replaces {a!r} ({len(a)} chars) by {b!r} ({len(b)} chars): the simplified text no longer has the length of the source")
    res.floor("R14.1", "replacements in real_code", n1, 5)

    # ---- R14.2
    try:
        anyp = folder.call_function("rope.base.codeanalyze.get_any_string_pattern")
        cmt = folder.call_function("rope.base.codeanalyze.get_comment_pattern")
    except fold.Unfoldable as e:
        raise AnalysisError(f"string/comment pattern not foldable: {e}")
    # real_code's scanner must be built from these two
    # the compiled pattern ignored_regions scans with: the module-level name whose `.finditer` it calls (whatever the name is)
    igr = idx.need_func("rope.base.simplify.ignored_regions")
    scan_names = [c.func.value.id for c in calls_in(igr.node) if isinstance(c.func, ast.Attribute) and c.func.attr == "finditer" and isinstance(c.func.value, ast.Name)]
    strv = idx.module_assigns.get("rope.base.simplify", {}).get(scan_names[0]) if scan_names else None
    used = {call_name(c) for c in ast.walk(strv) if isinstance(c, ast.Call)} if strv is not None else set()
    if not {"get_comment_pattern", "get_any_string_pattern"} <= used:
        raise AnalysisError("anchor=simplify._str is no longer built from get_comment_pattern | get_any_string_pattern")
    nfa = rca.build(anyp, erase_assertions=True)
    groups: Dict[str, List[str]] = {}
    for p in sorted(tokenize._all_string_prefixes()):
        groups.setdefault(p.lower(), []).append(p)
    for low, variants in sorted(groups.items()):
        bad = [p for p in variants if not all(rca.accepts(nfa, p + body) for body in ('"x"', "'x'", '"""x\ny"""', "'''x'''", '""', "'\\''"))]
        res.add("R14.2", f"prefix:{low or '(none)'}", not bad, "rope/base/codeanalyze.py",
                f"prefix {variants} + string body is matched whole by the ignored-region pattern" if not bad else
                f"string literals with prefix {bad} are not matched whole by get_any_string_pattern: part of the literal is treated as code")
    res.floor("R14.2", "prefix groups", len(groups), 8)

    # ---- R14.11 the string-literal BODY language: exact equality with the tokenizer's (lookaheads included)
    from .. import rederiv

    try:
        body_pat = folder.call_function("rope.base.codeanalyze.get_string_pattern_with_prefix", [""])
    except fold.Unfoldable as e:
        raise AnalysisError(f"get_string_pattern_with_prefix('') not foldable: {e}")
    for getter in ("get_string_pattern", "get_formatted_string_pattern", "get_any_string_pattern"):
        g = idx.need_func(f"rope.base.codeanalyze.{getter}")
        rets = [r for r in walk_local(g.node) if isinstance(r, ast.Return)]
        if not (len(rets) == 1 and isinstance(rets[0].value, ast.Call) and call_name(rets[0].value) == "get_string_pattern_with_prefix"):
            raise AnalysisError(f"anchor=codeanalyze.{getter} no longer returns get_string_pattern_with_prefix(prefix)")
    tok_body = "|".join(['"""' + tokenize.Double3, "'''" + tokenize.Single3,
                         r"'[^\n'\\]*(?:\\.[^\n'\\]*)*'", r'"[^\n"\\]*(?:\\.[^\n"\\]*)*"'])
    if r"'[^\n'\\]*(?:\\.[^\n'\\]*)*'" not in tokenize.String:
        raise AnalysisError("anchor=tokenize.String no longer has the single-line body this rule copies")
    eng = rederiv.Engine()
    try:
        # the tokenizer applies its patterns line by line and joins continuation lines itself: '.' after a backslash
        # stands for any character, the newline included
        t_term = eng.term(tok_body, dotall=True)
        r_term = eng.term(body_pat)
        fwd = eng.included(t_term, r_term)
        bwd = eng.included(r_term, t_term)
    except rederiv.Undecided as e:
        raise AnalysisError(f"string body pattern uses a construct the derivative engine does not model: {e}")
    res.add("R14.11", "string-body|tokenizer<=rope", fwd[0], "rope/base/codeanalyze.py",
            f"every string literal body of the tokenizer is in the language of rope's pattern ({fwd[2]} derivative states)" if fwd[0] else
            f"the literal {fwd[1]!r} is one STRING token for the tokenizer but is not matched whole by rope's string pattern: real_code / ignored_regions "
            "split it, and part of the literal is treated as code", counter_example=fwd[1])
    res.add("R14.11", "string-body|rope<=tokenizer", bwd[0], "rope/base/codeanalyze.py",
            f"every text rope's pattern takes for a string literal is one for the tokenizer ({bwd[2]} derivative states)" if bwd[0] else
            f"rope's string pattern matches {bwd[1]!r} as one literal, the tokenizer does not: code after the real end of the literal is blanked as string text",
            counter_example=bwd[1])

    # ---- R14.12 (complements R14.4) the scanners that feed the bracket nesting counters stop at all six bracket characters
    scanners = []
    for modname, owner in (("rope.base.simplify", None), ("rope.base.codeanalyze", "_CustomGenerator")):
        u = next(u for u in idx.units.values() if u.modname == modname)
        for x in ast.walk(u.tree):
            if isinstance(x, ast.Assign) and isinstance(x.value, ast.Call) and call_name(x.value) == "compile" and x.value.args \
                    and isinstance(x.value.args[0], ast.Constant) and isinstance(x.value.args[0].value, str) \
                    and isinstance(x.targets[0], ast.Name) and any(ch in x.value.args[0].value for ch in "([{"):
                # (a compiled constant pattern that mentions an opening bracket: `_parens`, `_main_tokens` on the pinned tree)
                scanners.append((u, x, x.value.args[0].value))
    if len(scanners) < 2:
        raise AnalysisError("anchor=simplify._parens / _CustomGenerator._main_tokens scanner patterns not found")
    for u, x, pat in scanners:
        nfa = rca.build(pat, erase_assertions=True)
        missing = [ch for ch in "()[]{}" if not rca.accepts(nfa, ch)]
        res.add("R14.12", f"{x.targets[0].id}|scanner", not missing, f"{u.rel}:{x.lineno}",
                "the scanner stops at every bracket character" if not missing else
                f"the scanner pattern does not match {missing}: the nesting counter never sees that kind of bracket, so a line break inside it ends the logical line",
                )

    # ---- R14.13 inside a string literal nothing is a comment or a bracket: the logical-line scanner acts on '#' and on
    # brackets only on paths where the in-string state was tested and is off
    al = idx.need_func("rope.base.codeanalyze._CustomGenerator._analyze_line")
    acfg = CFG(al.node)
    n13 = 0
    for nd in acfg.nodes:
        if nd.ast is None or nd.kind != "stmt":
            continue
        is_break = isinstance(nd.ast, ast.Break)
        is_count = isinstance(nd.ast, ast.AugAssign) and is_self_attr(nd.ast.target) and "count" in nd.ast.target.attr
        if not (is_break or is_count):
            continue
        gs = acfg.guards(nd.id)
        if is_break and not any(isinstance(t, ast.Compare) and any(isinstance(c, ast.Constant) and c.value == "#" for c in ast.walk(t)) and pol for t, pol in gs):
            continue
        n13 += 1
        ok = any(is_self_attr(t, "in_string") and not pol for t, pol in gs)
        what = "stops at '#'" if is_break else f"updates {ast.unparse(nd.ast.target)}"
        res.add("R14.13", f"_analyze_line|outside-strings|{'comment' if is_break else ast.unparse(nd.ast)}", ok, f"{al.unit.rel}:{nd.lineno}",
                f"the scanner {what} only when it is not inside a string literal" if ok else
                f"the scanner {what} without having tested that it is outside a string literal: a '#' or a bracket INSIDE a string is taken for code, "
                "the rest of the line (the closing quote included) is skipped or the bracket depth is wrong, and logical lines disagree with the tokenizer",
                function=al.qualname)
    res.floor("R14.13", "comment/bracket actions in _analyze_line", n13, 3)

    # ---- R14.20 only a quote opens or closes a string: every store into the in-string state of the logical-line scanner stands under the
    # test that the token at hand is a quote.  (A "short strings end with their line" reset hangs on what the scanner knows at the end
    # of the line -- the last special character it SAW, also one inside the string -- and ends a backslash-continued string early.)
    n20 = 0
    from . import common as _common20
    icfg = CFG(_common20.inlined(idx, al))  # the handling of a quote may be a private step of the scanner: read in place
    for nd in icfg.nodes:
        st = nd.ast
        if nd.kind != "stmt" or not (isinstance(st, ast.Assign) and any(is_self_attr(t, "in_string") for t in st.targets)):
            continue
        n20 += 1
        quote_test = any(pol and isinstance(t, ast.Compare) and len(t.ops) == 1 and isinstance(t.ops[0], (ast.In, ast.Eq)) and any(
            isinstance(c, ast.Constant) and isinstance(c.value, str) and c.value and set(c.value) <= set("'\"") for c in ast.walk(t.comparators[0])) for t, pol in icfg.guards(nd.id))
        res.add("R14.20", f"_analyze_line|string-state-changes-at-quotes-only#{n20}", quote_test, f"{al.unit.rel}:{st.lineno}",
                "the in-string state is stored under the test that the token is a quote" if quote_test else
                f"`{ast.unparse(st)}` changes the in-string state where no quote was matched: a one-quote string continued with a backslash (`'usage: prog  # see issue \\` / "
                "`for the details'`) is ended at the line break, the next physical line is scanned as code, and the logical lines disagree with the tokenizer's statements",
                function=al.qualname)
    res.floor("R14.20", "stores into the in-string state of the logical-line scanner", n20, 2)

    # ---- R14.15 while a logical line is OPEN every physical line is analysed, blank ones included: a blank line ends a
    # backslash continuation (`x = 1 \\` + blank line + next statement are two statements for the tokenizer).  Blank
    # lines may be skipped only between logical lines.
    gen = idx.need_func("rope.base.codeanalyze._CustomGenerator.__call__")
    gcfg = CFG(gen.node)
    appends = [nd for nd in gcfg.nodes if nd.kind == "stmt" and nd.ast is not None and any(
        isinstance(c.func, ast.Attribute) and c.func.attr == "append" and c.args and isinstance(c.args[0], ast.Tuple) and len(c.args[0].elts) == 2
        for c in calls_in(nd.ast))]
    if not appends:
        raise AnalysisError("anchor=_CustomGenerator.__call__: recording of a (start, end) pair not found")
    first = next(c.args[0].elts[0] for nd in appends for c in calls_in(nd.ast) if isinstance(c.func, ast.Attribute) and c.func.attr == "append")
    V = first.id if isinstance(first, ast.Name) else None
    if V is None:
        raise AnalysisError("anchor=_CustomGenerator.__call__: the start of the open logical line is not a local variable")
    opening = [nd for nd in gcfg.nodes if nd.kind == "stmt" and isinstance(nd.ast, ast.Assign) and any(isinstance(t, ast.Name) and t.id == V for t in nd.ast.targets)
               and not (isinstance(nd.ast.value, ast.Constant) and nd.ast.value.value is None)]
    closing = [nd.id for nd in appends] + [nd.id for nd in gcfg.nodes if nd.kind == "stmt" and isinstance(nd.ast, ast.Assign)
                                            and any(isinstance(t, ast.Name) and t.id == V for t in nd.ast.targets)
                                            and isinstance(nd.ast.value, ast.Constant) and nd.ast.value.value is None]
    closed_edges = []
    for nd in gcfg.nodes:
        if nd.kind == "test" and isinstance(nd.ast, ast.Compare) and isinstance(nd.ast.left, ast.Name) and nd.ast.left.id == V \
                and isinstance(nd.ast.comparators[0], ast.Constant) and nd.ast.comparators[0].value is None:
            lab = "true" if isinstance(nd.ast.ops[0], ast.Is) else "false" if isinstance(nd.ast.ops[0], ast.IsNot) else None
            closed_edges += [(nd.id, d, l) for d, l in gcfg.succ[nd.id] if l == lab]
    blank_tests = [nd for nd in gcfg.nodes if nd.kind == "test" and nd.ast is not None and any(
        isinstance(c, ast.Call) and isinstance(c.func, ast.Attribute) and c.func.attr == "strip" for c in ast.walk(nd.ast))]
    if not opening or not blank_tests:
        raise AnalysisError("anchor=_CustomGenerator.__call__: opening of a logical line / blank-line test not found")
    bad15 = None
    for o in opening:
        reach = set()
        for b, _ in gcfg.succ[o.id]:
            reach |= gcfg.reachable(b, avoid_nodes=closing, avoid_edges=closed_edges)
        hit = [t for t in blank_tests if t.id in reach]
        if hit:
            bad15 = (o, hit[0])
    res.add("R14.15", "_CustomGenerator.__call__|blank-lines-only-between-logical-lines", bad15 is None, f"{gen.unit.rel}:{(bad15[1] if bad15 else opening[0]).lineno}",
            "blank lines are skipped only while no logical line is open" if bad15 is None else
            f"the blank-line skip (line {bad15[1].lineno}) can be reached while a logical line opened at line {bad15[0].lineno} is still open: the blank line after "
            "`x = 1 \\` is not analysed, the continuation flag stays set and the NEXT statement is merged into the logical line -- the tokenizer ends the "
            "statement at the blank line", function=gen.qualname)

    # ---- R14.3
    tok_c, rope_c = rca.build(tokenize.Comment), rca.build(cmt)
    backup = rca.UNIVERSE[:]
    try:
        rca.UNIVERSE[:] = [c for c in backup if c != "\r"]
        a_ok, a_cex, _ = rca.included(tok_c, rope_c)
        b_ok, b_cex, _ = rca.included(rope_c, tok_c)
    finally:
        rca.UNIVERSE[:] = backup
    res.add("R14.3", "comment|tokenizer<=rope", a_ok, "rope/base/codeanalyze.py",
            "every tokenizer comment is matched by rope's comment pattern" if a_ok else
            f"the tokenizer comment {a_cex!r} is not matched whole by rope's comment pattern")
    res.add("R14.3", "comment|rope<=tokenizer", b_ok, "rope/base/codeanalyze.py",
            "rope's comment pattern matches nothing the tokenizer would not call a comment" if b_ok else
            f"rope's comment pattern matches {b_cex!r}, which is not a tokenizer comment: code after it on the line is blanked")

    # ---- R14.4 bracket counters
    n4 = 0
    for modname in ("rope.base.simplify", "rope.base.codeanalyze"):
        for f in sorted(idx.functions.values(), key=lambda f: f.qualname):
            if f.unit.modname != modname:
                continue
            opens: Set[str] = set()
            closes: Set[str] = set()
            if not any(isinstance(x, ast.AugAssign) for x in walk_local(f.node)):
                continue
            fcfg = CFG(f.node)
            for nd in fcfg.nodes:  # every +1 / -1 step, with the character test it is taken under (read off the guards)
                st = nd.ast
                if nd.kind != "stmt" or not (isinstance(st, ast.AugAssign) and isinstance(st.value, ast.Constant) and st.value.value == 1
                                             and isinstance(st.op, (ast.Add, ast.Sub))):
                    continue
                for t, pol in fcfg.guards(nd.id):
                    if not pol or not isinstance(t, ast.Compare) or len(t.ops) != 1:
                        continue
                    chars = None
                    cn = idx.const_node(modname, t.comparators[0])  # a literal, or a module-level name of one
                    if isinstance(t.ops[0], (ast.In, ast.Eq)) and cn is not None and isinstance(cn.value, str):
                        chars = cn.value
                    if not chars or not set(chars) <= set("()[]{}"):
                        continue
                    (opens if isinstance(st.op, ast.Add) else closes).update(chars)
            if len(opens | closes) < 2:
                continue
            n4 += 1
            name = f.qualname.split(".", 2)[-1]
            missing_o, missing_c = set("([{") - opens, set(")]}") - closes
            confused = opens & closes
            ok = not missing_o and not missing_c and not confused
            res.add("R14.4", name, ok, f.where,
                    "counts ( [ { as opening and ) ] } as closing" if ok else
                    f"{name} counts brackets but " + ("; ".join(x for x in (
                        f"does not count {sorted(missing_o)} as opening" if missing_o else "",
                        f"does not count {sorted(missing_c)} as closing" if missing_c else "",
                        f"classifies {sorted(confused)} both ways" if confused else "") if x))
                    + ": an expression continued inside that kind of bracket is cut at the line break (its scanner disagrees with the tokenizer's "
                    "paired delimiters and with its sibling scanners)",
                    opens=sorted(opens), closes=sorted(closes))
    res.floor("R14.4", "bracket-counting scanners", n4, 3)

    # ---- R14.6 line tables split at '\\n' only
    line_table_rule(ctx, res, "R14.6")
    fstring_aware_bracket_rule(ctx, res, "R14.16")
    escaped_token_resume_rule(ctx, res, "R14.18")
    from .common import identifier_char_rule

    identifier_char_rule(ctx, res, "R14.17", ("rope.base.worder", "rope.base.simplify", "rope.base.codeanalyze"), rest=True)

    escape_parity_rule(ctx, res, "R14.5")

    # ---- R14.7 a backslash at the end of a physical line continues the logical line only when it is not inside a
    # comment: every assignment of a continuation flag under an `endswith("\\")` test is also guarded by a test that
    # the scanner's last token -- a variable BOUND IN THIS FUNCTION -- is not the comment marker
    n7 = 0
    for f in sorted(idx.functions.values(), key=lambda f: f.qualname):
        if f.unit.modname not in ("rope.base.codeanalyze",):
            continue
        cfg = None
        local_names = {t.id for x in walk_local(f.node) if isinstance(x, (ast.Assign, ast.AugAssign, ast.AnnAssign, ast.For))
                       for tt in ((x.targets if isinstance(x, ast.Assign) else [x.target])) for t in ast.walk(tt) if isinstance(t, ast.Name)}
        local_names |= {a.arg for a in f.node.args.args + f.node.args.kwonlyargs}
        for st in walk_local(f.node):
            # `self.flag = True` under the tests, or the tests themselves assigned: `self.flag = bool(line) and token != "#" and line.endswith("\\")`
            conj = []
            if isinstance(st, ast.Assign) and isinstance(st.value, ast.BoolOp) and isinstance(st.value.op, ast.And) and any(is_self_attr(t) for t in st.targets):
                conj = [(v, True) for v in st.value.values]
            if not conj and not (isinstance(st, ast.Assign) and isinstance(st.value, ast.Constant) and st.value.value is True
                                 and any(is_self_attr(t) for t in st.targets)):
                continue
            cfg = cfg or CFG(f.node)
            nd = cfg.node_of_stmt(st)
            if nd is None:
                continue
            gs = cfg.guards(nd.id) + conj
            if not any(pol and isinstance(t, ast.Call) and call_name(t) == "endswith" and t.args and const_str(t.args[0]) == "\\" for t, pol in gs):
                continue
            n7 += 1
            marker = [(t, pol) for t, pol in gs if isinstance(t, ast.Compare) and len(t.ops) == 1 and const_str(t.comparators[0]) == "#"
                      and isinstance(t.left, ast.Name) and ((isinstance(t.ops[0], ast.NotEq) and pol) or (isinstance(t.ops[0], ast.Eq) and not pol))]
            ok = bool(marker) and all(t.left.id in local_names for t, _ in marker)
            why = ("no dominating test that the last token is not '#'" if not marker else
                   f"the tested name `{marker[0][0].left.id}` is never bound in {f.name} (it resolves to a module-level name, so the test is constant)")
            res.add("R14.7", f"{f.qualname.split('.', 2)[-1]}|continuation", ok, f"{f.unit.rel}:{st.lineno}",
                    "explicit continuation is recognised only when the line does not end in a comment" if ok else
                    f"{f.name} treats a trailing backslash as a line continuation although {why}: a comment ending in a backslash "
                    "(`x = 1  # C:\\dir\\`) merges the next statement into the same logical line, unlike the tokenizer", function=f.qualname)
    res.floor("R14.7", "explicit-continuation decisions", n7, 1)

    fstring_prefix_rule(ctx, res, "R14.9")

    # ---- R14.8 (=R20.5) the word finder knows hard keywords only
    from .common import hard_keyword_rule

    hard_keyword_rule(ctx, res, "R14.8")
    from .common import keyword_word_boundary_rule

    keyword_word_boundary_rule(ctx, res, "R14.10")


def line_table_rule(ctx, res, rule: str) -> None:
    """R14.6: rope's line tables and line splitters break text at '\\n' only (rope normalises '\\r' when reading).
    str.splitlines() also breaks at \\x0b \\x0c \\x1c-\\x1e \\x85 \\u2028 \\u2029, none of which the tokenizer treats as a
    line end (a form-feed page break is ordinary whitespace): every line after such a character would be shifted."""
    idx = ctx.idx
    n = 0
    for modname in ("rope.base.codeanalyze", "rope.base.simplify", "rope.base.worder"):
        for f in sorted(idx.functions.values(), key=lambda f: f.qualname):
            if f.unit.modname != modname:
                continue
            uses = [c for c in calls_in(f.node) if isinstance(c.func, ast.Attribute) and c.func.attr == "splitlines"]
            splits = [c for c in calls_in(f.node) if isinstance(c.func, ast.Attribute) and c.func.attr in ("split", "index", "find", "rindex", "rfind", "count")
                      and c.args and const_str(c.args[0]) == "\n"]
            if not uses and not splits:
                continue
            n += 1
            res.add(rule, f.qualname.split(".", 2)[-1], not uses, f.where,
                    "lines are delimited by explicit '\\n' only" if not uses else
                    f"{f.qualname.split('.', 2)[-1]} uses str.splitlines(), which also breaks at form feed / \\x0b / \\x1c-\\x1e / \\x85 / \\u2028 / \\u2029: "
                    "after such a character every offset<->line conversion and logical line is shifted against the tokenizer's rows")
    res.floor(rule, "line-delimiting functions in the text scanners", n, 3)


def _top_groups(pat: str) -> List[str]:
    """source text of the capturing groups of a pattern, in order of their opening parenthesis"""
    out, stack, i = [], [], 0
    starts = []
    in_class = False
    while i < len(pat):
        ch = pat[i]
        if ch == "\\":
            i += 2
            continue
        if in_class:
            if ch == "]":
                in_class = False
        elif ch == "[":
            in_class = True
        elif ch == "(":
            cap = not pat.startswith("(?", i) or pat.startswith("(?P<", i)
            stack.append((i, cap))
            if cap:
                starts.append(i)
                out.append(None)
        elif ch == ")" and stack:
            st, cap = stack.pop()
            if cap:
                out[starts.index(st)] = pat[st + 1:i]
        i += 1
    return [o or "" for o in out]


def fstring_prefix_rule(ctx, res, rule: str) -> None:
    """Shared by C14/C06 (signature changes find call sites on the simplified text)."""
    from ..cfg import CFG

    idx = ctx.idx
    # ---- R14.9 strings are blanked in the simplified text EXCEPT f-strings (their {...} parts are code).  Which strings
    # are f-strings is decided on the matched prefix; the decision must agree with the tokenizer's prefixes: every
    # prefix that contains f/F (f, F, rf, fR, Rf, ...) keeps its text, every other prefix is blanked.
    rcf = idx.need_func("rope.base.simplify.real_code")
    keep_nodes = []
    rcfg = CFG(rcf.node)
    # the replacement text is the variable handed to add_change(start, end, <text>); `<text> = None` keeps the string
    texts = {c.args[2].id for c in calls_in(rcf.node) if call_name(c) == "add_change" and len(c.args) == 3 and isinstance(c.args[2], ast.Name)}
    for nd in rcfg.nodes:
        if nd.kind == "stmt" and isinstance(nd.ast, ast.Assign) and isinstance(nd.ast.value, ast.Constant) and nd.ast.value.value is None \
                and any(isinstance(t, ast.Name) and t.id in texts for t in nd.ast.targets) \
                and any(pol and True for _, pol in rcfg.guards(nd.id)):
            keep_nodes.append(nd)
    if not keep_nodes:
        # the same decision without a sentinel: the branch `continue`s before the replacement is filed
        loops = [l for l in walk_local(rcf.node) if isinstance(l, ast.For) and any(call_name(c) == "add_change" and len(c.args) == 3 for c in calls_in(l))
                 and any(isinstance(k, ast.Call) and call_name(k) == "ignored_regions" for k in ast.walk(l.iter))]
        for nd in rcfg.nodes:
            if nd.kind == "stmt" and isinstance(nd.ast, ast.Continue) and any(any(y is nd.ast for y in ast.walk(l)) for l in loops) \
                    and any(pol and True for _, pol in rcfg.guards(nd.id)):
                keep_nodes.append(nd)
    if not keep_nodes:
        raise AnalysisError("anchor=simplify.real_code: the 'keep this string' branch (replacement = None) not found")
    folder9 = fold.get(ctx)
    prefixes = sorted(tokenize._all_string_prefixes())
    locals_in_order = [st for st in walk_local(rcf.node) if isinstance(st, ast.Assign) and isinstance(st.targets[0], ast.Name)]
    for k, nd in enumerate(keep_nodes, 1):
        wrong, unfolded = [], 0
        for pfx in prefixes:
            # one string literal with this prefix, the way ignored_regions reports it
            env = {"matchgroups": {"prefix": pfx}, "source": pfx + "'x'", "start": 0, "end": len(pfx) + 3}
            for st in locals_in_order:
                try:
                    env[st.targets[0].id] = folder9.eval(rcf.unit.modname, st.value, env=dict(env))
                except fold.Unfoldable:
                    pass
            keep = True
            decided = False
            for t, pol in rcfg.guards(nd.id):
                try:
                    v = bool(folder9.eval(rcf.unit.modname, t, env=dict(env)))
                except fold.Unfoldable:
                    continue
                decided = True
                if v != pol:
                    keep = False
            if not decided:
                unfolded += 1
                continue
            if keep != ("f" in pfx.lower()):
                wrong.append(pfx)
        if unfolded == len(prefixes):
            res.undecided(rule, f"real_code|f-string-prefixes#{k}", f"{rcf.unit.rel}:{nd.lineno}", "the prefix test could not be folded")
            continue
        res.add(rule, f"real_code|f-string-prefixes#{k}", not wrong, f"{rcf.unit.rel}:{nd.lineno}",
                f"all {len(prefixes)} tokenizer prefixes are classified correctly (text kept exactly for those containing f/F)" if not wrong else
                f"real_code classifies the string prefixes {wrong} wrongly: a raw f-string such as rf\"...{{call(a, b)}}...\" is blanked like an ordinary "
                "string, so code inside its braces is invisible to everything that works on the simplified text (a call there is not recognised as a call)",
                function=rcf.qualname, wrong=wrong)


def escape_parity_rule(ctx, res, rule: str) -> None:
    """Shared by C14/C20 (the logical-line scanner decides where scopes end, which completion relies on)."""
    idx = ctx.idx
    # ---- R14.5 escape parity: a scanner that captures the run of backslashes before a token may treat the token as
    # escaped only when the run has ODD length (an even run is escaped backslashes followed by a live token)
    from ..cfg import CFG

    n5 = 0
    for f in sorted(idx.functions.values(), key=lambda f: f.qualname):
        if f.unit.modname not in ("rope.base.simplify", "rope.base.codeanalyze", "rope.base.worder"):
            continue
        # variables bound to a regex group that is a backslash run: m.group(k) where the class pattern's k-th group is (\\*)
        runs = set()
        pats = {}
        if f.cls is not None:
            for name, v in f.cls.class_attrs.items():
                if isinstance(v, ast.Call) and call_name(v) == "compile" and v.args and const_str(v.args[0]) is not None:
                    pats[name] = const_str(v.args[0])
        for n in walk_local(f.node):
            if isinstance(n, ast.Assign) and isinstance(n.targets[0], ast.Name) and isinstance(n.value, ast.Call) \
                    and call_name(n.value) == "group" and n.value.args and isinstance(n.value.args[0], ast.Constant):
                k = n.value.args[0].value
                for pat in pats.values():
                    groups = _top_groups(pat)
                    if isinstance(k, int) and 0 < k <= len(groups) and groups[k - 1] in ("\\\\*", "\\\\+"):
                        runs.add(n.targets[0].id)
        if not runs:
            if f.qualname == "rope.base.codeanalyze._CustomGenerator._analyze_line":
                # the anchor scanner no longer captures the backslash run: how does it decide 'escaped'?
                look = [p_ for p_ in pats.values() if "(?<!\\\\)" in p_ or "(?<!\\)" in p_]
                n5 += 1
                res.add(rule, f"{f.qualname.split('.', 2)[-1]}|escaped-token", False if look else None, f.where,
                        "" if not look else
                        f"{f.name} decides that a quote/bracket is escaped with a look-behind for ONE backslash ({look[0][:40]}...) instead of the parity of the "
                        "whole run: the closing quote of \"\\\\\" (an escaped backslash) is taken for an escaped quote, the scanner stays inside the string and all "
                        "following lines are merged into one logical line")
            continue
        cfg = CFG(f.node)
        for nd in cfg.nodes:
            if nd.kind == "stmt" and isinstance(nd.ast, ast.Continue):
                gs = [t for t, pol in cfg.guards(nd.id) if pol and any(isinstance(x, ast.Name) and x.id in runs for x in ast.walk(t))]
                if not gs:
                    continue
                n5 += 1
                parity = any(isinstance(x, ast.BinOp) and isinstance(x.op, ast.Mod) and isinstance(x.right, ast.Constant) and x.right.value == 2
                             and any(isinstance(y, ast.Call) and call_name(y) == "len" for y in ast.walk(x.left)) for t in gs for x in ast.walk(t))
                res.add(rule, f"{f.qualname.split('.', 2)[-1]}|escaped-token", parity, f"{f.unit.rel}:{nd.lineno}",
                        "a token is skipped as escaped only on the parity of the preceding backslash run" if parity else
                        f"{f.name} skips a token as 'escaped' on a test of the backslash run that is not its length parity ({[ast.unparse(t) for t in gs]}): "
                        "a quote/bracket after an even run (escaped backslashes, e.g. 'C:\\\\') is ignored, the scanner stays inside the string and all following "
                        "lines are merged into one logical line")
    res.floor(rule, "escape decisions on a captured backslash run", n5, 1)

    # ---- R14.14 text handed back by the word finder is cut from the raw source, never from the blanked search text
    from .common import raw_text_rule

    raw_text_rule(ctx, res, "R14.14")


def _region_derived(idx, f, depth: int = 0) -> Set[str]:
    """names of `f` that hold values collected from the string regions: filled in a loop over `ignored_regions(...)`,
    assigned from it, or a parameter that every caller in the module fills with such a name"""
    derived: Set[str] = set()
    for x in walk_local(f.node):
        if isinstance(x, (ast.For, ast.comprehension)) and any(isinstance(k, ast.Call) and call_name(k) == "ignored_regions" for k in ast.walk(x.iter)):
            body = x.body if isinstance(x, ast.For) else []
            for st in body:
                for y in ast.walk(st):
                    if isinstance(y, ast.Call) and isinstance(y.func, ast.Attribute) and y.func.attr in ("append", "add", "extend") and isinstance(y.func.value, ast.Name):
                        derived.add(y.func.value.id)
                    if isinstance(y, ast.Assign) and isinstance(y.targets[0], ast.Subscript) and isinstance(y.targets[0].value, ast.Name):
                        derived.add(y.targets[0].value.id)
        if isinstance(x, ast.Assign) and len(x.targets) == 1 and isinstance(x.targets[0], ast.Name) \
                and any(isinstance(k, ast.Call) and call_name(k) == "ignored_regions" for k in ast.walk(x.value)):
            derived.add(x.targets[0].id)
    if depth < 2:
        params = f.call_params()
        sites = []
        for g in idx.functions.values():
            if g.unit is not f.unit or g is f:
                continue
            for c in calls_in(g.node):
                if call_name(c) == f.name and (isinstance(c.func, ast.Name) or is_self_attr(c.func)):
                    sites.append((g, c))
        for i, p in enumerate(params):
            if sites and all(
                    (i < len(c.args) and isinstance(c.args[i], ast.Name) and c.args[i].id in _region_derived(idx, g, depth + 1))
                    or any(k.arg == p and isinstance(k.value, ast.Name) and k.value.id in _region_derived(idx, g, depth + 1) for k in c.keywords)
                    for g, c in sites):
                derived.add(p)
    return derived


def fstring_aware_bracket_rule(ctx, res, rule: str = "R14.16") -> None:
    """R14.16: `simplify.real_code` blanks plain strings but KEEPS f-strings, so that names inside them can be found.  In the
    simplified text (and in `worder`'s `self.code`, which is that text) a bracket character may therefore be literal text of
    an f-string: f"(" , or the halves of f"...(" f"...)".  Whoever pairs or counts brackets over that text must know where
    the f-strings are.
      (a) A whole-text regex scan (finditer / findall / search / split / sub) in rope.base.simplify or rope.base.worder
          whose pattern can match a bracket and cannot match a quote reads, inside the loop over its matches, a value that
          was collected from the string regions (`ignored_regions`) in the same function.
      (b) A backward `while` search of the word finder that stops at an opening bracket hands every other character to a
          method that (transitively, within the class) tests for quote characters, so a string is stepped over whole."""
    from .. import rca
    idx = ctx.idx
    n_a = n_b = 0
    for modname in ("rope.base.simplify", "rope.base.worder"):
        u = next(u for u in idx.units.values() if u.modname == modname)
        # compiled patterns by name: module level and class level
        pats: Dict[str, str] = {}
        for x in ast.walk(u.tree):
            if isinstance(x, ast.Assign) and len(x.targets) == 1 and isinstance(x.targets[0], ast.Name) and isinstance(x.value, ast.Call) \
                    and call_name(x.value) == "compile" and x.value.args:
                p = const_str(x.value.args[0])
                if p is not None:
                    pats[x.targets[0].id] = p
        for f in sorted(idx.functions.values(), key=lambda f: f.qualname):
            if f.unit.modname != modname or isinstance(f.node, ast.Lambda):
                continue
            short = f.qualname.split(".", 2)[-1]
            for c in calls_in(f.node):
                if not (isinstance(c.func, ast.Attribute) and c.func.attr in ("finditer", "findall", "search", "split", "sub", "match")):
                    continue
                recv = c.func.value
                pat = None
                if isinstance(recv, ast.Name) and recv.id == "re" and c.args:
                    pat = const_str(c.args[0])
                elif isinstance(recv, ast.Name):
                    pat = pats.get(recv.id)
                elif isinstance(recv, ast.Attribute) and isinstance(recv.value, ast.Name) and recv.value.id in ("self", "cls"):
                    pat = pats.get(recv.attr)
                if pat is None:
                    continue
                try:
                    nfa = rca.build(pat, erase_assertions=True)
                except Exception:
                    continue
                if not any(rca.accepts(nfa, ch) for ch in "()[]{}") or any(rca.accepts(nfa, q) for q in "\"'"):
                    continue
                n_a += 1
                derived = _region_derived(idx, f)
                # the loop over the matches (or, for a single search, the rest of the function)
                loop = next((x for x in walk_local(f.node) if isinstance(x, ast.For) and any(k is c for k in ast.walk(x.iter))), None)
                scope = loop.body if loop is not None else f.node.body
                used = {y.id for st in scope for y in ast.walk(st) if isinstance(y, ast.Name) and isinstance(y.ctx, ast.Load)} & derived
                ok = bool(used)
                res.add(rule, f"{short}|bracket-scan-knows-f-strings", ok, f"{f.unit.rel}:{c.lineno}",
                        f"the scan reads {sorted(used)}, collected from the string regions" if ok else
                        f"{short} scans the simplified text with `{ast.unparse(c)[:60]}` (pattern {pat!r} matches brackets) and never consults the string regions: "
                        "f-strings are not blanked in that text, so a bracket in the literal part of one -- f\"(\" -- is paired with the code's brackets, and the "
                        "lines or the expression after it are attributed to the wrong bracket", function=f.qualname, pattern=pat)
    # (c) two f-strings can follow each other with nothing in between (`f"{a}" f"{b}"`, `print(f"{a}", f"{b}")` has only a comma):
    # the match that makes the scan LEAVE one f-string can lie inside the next.  After the statement that ends the current
    # f-string (`<end> = None` in the loop), the lookup "is this position inside an f-string" (`<end> = <region>[..]`) is still
    # reachable in the same round of the loop.
    n_c = 0
    for f in sorted(idx.functions.values(), key=lambda f: f.qualname):
        if f.unit.modname != "rope.base.simplify" or isinstance(f.node, ast.Lambda):
            continue
        derived = _region_derived(idx, f)
        if not derived:
            continue
        cfg = CFG(f.node)
        loops = [x.id for x in cfg.nodes if x.kind == "loop"]
        looked_up = {}
        for nd in cfg.nodes:
            st = nd.ast
            if nd.kind == "stmt" and isinstance(st, ast.Assign) and len(st.targets) == 1 and isinstance(st.targets[0], ast.Name) \
                    and any(isinstance(y, ast.Name) and y.id in derived for y in ast.walk(st.value)) and any(isinstance(y, ast.Subscript) for y in ast.walk(st.value)):
                looked_up.setdefault(st.targets[0].id, []).append(nd)
        for var, lookups in looked_up.items():
            resets = [nd for nd in cfg.nodes if nd.kind == "stmt" and isinstance(nd.ast, ast.Assign) and any(isinstance(t, ast.Name) and t.id == var for t in nd.ast.targets)
                      and isinstance(nd.ast.value, ast.Constant) and nd.ast.value.value is None and cfg.loop_guards(nd.id)]
            for r in resets:
                n_c += 1
                ok = any(l.id in cfg.reachable(r.id, avoid_nodes=loops) for l in lookups)
                short = f.qualname.split(".", 2)[-1]
                res.add(rule, f"{short}|next-f-string-looked-up-after-leaving-one#{n_c}", ok, f"{f.unit.rel}:{r.lineno}",
                        "after leaving an f-string the scan still asks whether the position lies in the next one" if ok else
                        f"after `{ast.unparse(r.ast)}` (the scan has left an f-string) the round ends without asking whether the same position lies inside the NEXT f-string: "
                        "in `print(f\"{a}\", f\"{b}\")` the first brace of the second f-string is counted as a bracket of the code, the saved depth is one too high "
                        "from then on, and every line break to the end of the file is blanked", function=f.qualname)
    # (b) backward searches of the word finder
    rf = idx.need_class("rope.base.worder._RealFinder")

    def tests_quotes(m) -> bool:
        for x in walk_local(m.node):
            if isinstance(x, ast.Compare) and len(x.ops) == 1 and isinstance(x.ops[0], (ast.In, ast.Eq)):
                s = const_str(x.comparators[0])
                if s is not None and "'" in s and '"' in s:
                    return True
        return False

    def reaches_quote_test(names: Set[str]) -> bool:
        seen: Set[str] = set()
        todo = list(names)
        while todo:
            nm = todo.pop()
            if nm in seen or nm not in rf.methods:
                continue
            seen.add(nm)
            m = rf.methods[nm]
            if tests_quotes(m):
                return True
            todo.extend(k.func.attr for k in calls_in(m.node) if isinstance(k.func, ast.Attribute) and is_self_attr(k.func))
        return False

    for mname, m in sorted(rf.methods.items()):
        for w in [x for x in walk_local(m.node) if isinstance(x, ast.While)]:
            stops = []
            for x in [w.test] + [y for st in w.body for y in ast.walk(st)]:
                for cmp_ in ([x] if isinstance(x, ast.Compare) else [y for y in ast.walk(x) if isinstance(y, ast.Compare)] if x is w.test else []):
                    s = const_str(cmp_.comparators[0]) if len(cmp_.ops) == 1 else None
                    left = cmp_.left
                    if isinstance(left, ast.Name):  # `char = self.code[offset]` ... `char in "[({"`
                        bound = [a.value for a in walk_local(m.node) if isinstance(a, ast.Assign) and len(a.targets) == 1 and isinstance(a.targets[0], ast.Name) and a.targets[0].id == left.id]
                        if len(bound) == 1:
                            left = bound[0]
                    if s and set(s) <= set("([{") and isinstance(left, ast.Subscript) and is_self_attr(left.value, "code"):
                        stops.append(cmp_)
            if not stops:
                continue
            n_b += 1
            called = {k.func.attr for st in w.body for k in ast.walk(st) if isinstance(k, ast.Call) and isinstance(k.func, ast.Attribute) and is_self_attr(k.func)}
            ok = reaches_quote_test(called)
            res.add(rule, f"_RealFinder.{mname}|backward-search-steps-over-strings", ok, f"{m.unit.rel}:{w.lineno}",
                    "every character that is not the bracket searched for is handed to a method that recognises a string and steps over it whole" if ok else
                    f"_RealFinder.{mname} walks back to an opening bracket character by character and no method it calls in the loop tests for quote characters: "
                    "a bracket inside an f-string (kept in the simplified text) or the quote itself is taken for code", function=m.qualname)
    res.floor(rule, "whole-text bracket scans", n_a, 1)
    res.floor(rule, "backward bracket searches of the word finder", n_b, 2)


def escaped_token_resume_rule(ctx, res, rule: str = "R14.18") -> None:
    """R14.18: a backslash escapes ONE character.  The logical-line scanner captures the run of backslashes together with the
    token that follows; that token can be three characters long (`'''`, `\"\"\"`).  When the run is odd only the token's first
    character is escaped -- in `x = \"\"\"a\\\"\"\"\"` the three quotes after the escaped one close the string.  If the
    scanner's token pattern has an alternative longer than one character after the backslash group, then on the branch that
    skips an escaped token the next search position is set to one past the START of the token group
    (`match.start(k) + 1`) and the search loop uses that position; a `finditer` loop cannot do that, it resumes after
    the whole match."""
    from .. import rca
    idx = ctx.idx
    f = idx.need_func("rope.base.codeanalyze._CustomGenerator._analyze_line")
    pats = {name: const_str(v.args[0]) for name, v in (f.cls.class_attrs.items() if f.cls else []) if isinstance(v, ast.Call) and call_name(v) == "compile" and v.args and const_str(v.args[0])}
    pat = next((p for p in pats.values() if p.startswith("(\\\\*)")), None)
    if pat is None:
        # the scanner no longer captures the backslash run (a look-behind, say): how it then decides "escaped" is R14.5's
        # question, there is no skip of a captured token to resume from
        res.analysed[f"escaped-token skips of the logical-line scanner:{rule}"] = 0
        return
    try:
        nfa = rca.build(pat, erase_assertions=True)
        multi = [t for t in ("'''", '"""', "''", '""') if rca.accepts(nfa, t)]
    except Exception as e:
        raise AnalysisError(f"token pattern not analysable: {e}")
    cfg = CFG(f.node)
    n = 0
    for nd in cfg.nodes:
        if not (nd.kind == "stmt" and isinstance(nd.ast, ast.Continue)):
            continue
        gs = [t for t, pol in cfg.guards(nd.id) if pol and any(isinstance(x, ast.BinOp) and isinstance(x.op, ast.Mod) for x in ast.walk(t))]
        if not gs:
            continue
        n += 1
        if not multi:
            res.add(rule, f"_analyze_line|escaped-token-resume#{n}", True, f"{f.unit.rel}:{nd.lineno}", "every token after the backslash run is one character long")
            continue
        # statements that run only under the parity guard: is the search position moved to start(k) + 1 there?
        moved = None
        for other in cfg.nodes:
            st = other.ast
            if other.kind == "stmt" and isinstance(st, ast.Assign) and len(st.targets) == 1 and isinstance(st.targets[0], ast.Name) and isinstance(st.value, ast.BinOp) \
                    and isinstance(st.value.op, ast.Add) and isinstance(st.value.right, ast.Constant) and st.value.right.value == 1 \
                    and isinstance(st.value.left, ast.Call) and call_name(st.value.left) == "start" \
                    and any(any(t is g for g in gs) and pol for t, pol in cfg.guards(other.id)):
                moved = st.targets[0].id
        used = moved is not None and any(isinstance(c.func, ast.Attribute) and c.func.attr in ("search", "match") and len(c.args) >= 2 and isinstance(c.args[1], ast.Name) and c.args[1].id == moved
                                         for c in calls_in(f.node))
        res.add(rule, f"_analyze_line|escaped-token-resume#{n}", bool(used), f"{f.unit.rel}:{nd.lineno}",
                "after an escaped token the search resumes one character after the backslash run" if used else
                f"a token after an odd run of backslashes is skipped WHOLE (the pattern has the alternatives {multi} after the backslash group, and the scan resumes after the match): "
                "in `x = \"\"\"a\\\"\"\"\"` the escaped quote and the two quotes behind it are skipped together, the closing quotes of the string are never seen, and all "
                "following lines become one logical line", function=f.qualname)
    # (no skip under a parity test at all is R14.5's finding, not this rule's)
    res.analysed[f"escaped-token skips of the logical-line scanner:{rule}"] = n


def check(ctx, res) -> None:
    _check_body(ctx, res)
    from .common import line_model_rule

    line_model_rule(ctx, res, "R14.19", ('rope.base.simplify', 'rope.base.codeanalyze', 'rope.base.worder'))
    prefix_word_start_rule(ctx, res, "R14.21")


# ---------------------------------------------------------------------------------------------------------------------------------
# R14.21 a string prefix starts at the start of a word

_PREFIX_GETTERS = ("get_string_pattern", "get_formatted_string_pattern", "get_any_string_pattern")


def _unanchored_prefix_paths(pattern: str) -> List[str]:
    """The ways in which `pattern` (a string-literal pattern: optional prefix letters, then a quote) can take a LETTER for the first
    character of a literal -- or read one in a look-behind in front of the literal -- without asserting that the letter starts a word.
    A walk over the parse of the pattern with the state (asserted, consumed): a path ends when it consumes its first character."""
    import re._parser as sp
    import re._constants as sc

    tree = sp.parse(pattern)
    out: List[str] = []
    WORD = set("abcdefghijklmnopqrstuvwxyzABCDEFGHIJKLMNOPQRSTUVWXYZ0123456789_")

    def chars_of(op, av) -> Optional[Set[str]]:
        """ASCII letters the item can consume (None: not a consuming item)"""
        if op is sc.LITERAL:
            return {chr(av)}
        if op is sc.NOT_LITERAL:
            return WORD - {chr(av)}
        if op is sc.ANY:
            return set(WORD)
        if op is sc.IN:
            neg = bool(av) and av[0][0] is sc.NEGATE
            got: Set[str] = set()
            for o, a in av:
                if o is sc.LITERAL:
                    got.add(chr(a))
                elif o is sc.RANGE:
                    got |= {chr(c) for c in range(a[0], min(a[1], 127) + 1)}
                elif o is sc.CATEGORY and a is sc.CATEGORY_WORD:
                    got |= WORD
                elif o is sc.CATEGORY and a is sc.CATEGORY_DIGIT:
                    got |= set("0123456789")
                elif o is sc.CATEGORY and a in (sc.CATEGORY_NOT_SPACE,):
                    got |= WORD
            return (WORD - got) if neg else got
        return None

    def asserts_word_start(op, av) -> bool:
        if op is sc.AT and av in (sc.AT_BOUNDARY, sc.AT_BEGINNING, sc.AT_BEGINNING_STRING, sc.AT_BEGINNING_LINE):
            return True
        if op is sc.ASSERT_NOT and av[0] == -1:  # (?<![A-Za-z0-9_]) -- no word character in front
            items = list(av[1])
            if len(items) == 1:
                cs = chars_of(*items[0])
                return cs is not None and WORD <= cs
        return False

    def walk(items, states):
        """states: set of `asserted` flags of the paths that have not consumed yet; returns the same after the items"""
        for op, av in items:
            if not states:
                return states
            if asserts_word_start(op, av):
                states = {True}
                continue
            if op in (sc.ASSERT, sc.ASSERT_NOT):
                direction, sub = av
                if direction == -1:
                    # a look-behind that reads letters in front of the literal: the letters are a prefix only at a word start
                    inner = walk(list(sub), {False})
                    # (walk reports a letter read without the assertion)
                continue
            if op is sc.AT:
                continue
            cs = chars_of(op, av)
            if cs is not None:
                letters = sorted(c for c in cs if c.isalpha())
                if letters and False in states:
                    out.append("".join(letters)[:12])
                states = set()  # the first character is consumed: the path is decided
                continue
            if op is sc.SUBPATTERN:
                states = walk(list(av[3]), states)
                continue
            if op is sc.BRANCH:
                nxt = set()
                for alt in av[1]:
                    nxt |= walk(list(alt), set(states))
                states = nxt
                continue
            if op in (sc.MAX_REPEAT, sc.MIN_REPEAT, getattr(sc, "POSSESSIVE_REPEAT", None)):
                lo, hi, sub = av
                after = walk(list(sub), set(states))
                states = (after | states) if lo == 0 else after
                continue
            if op is getattr(sc, "ATOMIC_GROUP", None):
                states = walk(list(av), states)
                continue
            if op is sc.GROUPREF_EXISTS:
                states = walk(list(av[1]), set(states)) | (walk(list(av[2]), set(states)) if av[2] is not None else set(states))
                continue
            raise AnalysisError(f"R14.21: the string pattern uses a construct this walk does not model: {op}")
        return states

    walk(list(tree), {False})
    return out


def prefix_word_start_rule(ctx, res, rule: str) -> None:
    """R14.21: the tokenizer takes letters in front of a quote for a string prefix only when they are a NAME-shaped token of their own:
    in `2 if"{x}"in y`, `a or"b"`, `elif"a"in x` the token before the quote is the keyword, and the literal is a plain string.  A pattern
    that lets a prefix letter match -- or a look-behind read one -- in the middle of a word takes the `f` of `if` for the f-string prefix
    (the text of a plain string is then kept in the simplified text and edited by Rename) and the `r` of `or` for the raw prefix.  So:
    in each of the three string patterns every path that consumes a letter as the first character of the literal, and every look-behind
    that reads a letter in front of it, has asserted a word start (`\\b`, or a negative look-behind for word characters) first."""
    folder = fold.get(ctx)
    n = 0
    for getter in _PREFIX_GETTERS:
        g = ctx.idx.need_func(f"rope.base.codeanalyze.{getter}")
        try:
            pat = folder.call_function(f"rope.base.codeanalyze.{getter}")
        except fold.Unfoldable as e:
            raise AnalysisError(f"{getter} not foldable: {e}")
        n += 1
        bad = _unanchored_prefix_paths(pat)
        res.add(rule, f"{getter}|a-prefix-starts-a-word", not bad, g.where,
                "every path that takes a letter for the start of a literal has asserted a word start" if not bad else
                f"{getter}: the pattern takes (or reads, in a look-behind) one of the letters {sorted(set(bad))} directly in front of a quote "
                "for a string prefix without asserting that the letter starts a word: in `2 if\"{x}\"in y` the `f` of `if`, in `a or\"b\"` the `r` of "
                "`or` becomes the prefix of the plain string that follows the keyword -- the region starts inside the keyword, a plain string is "
                "kept as an f-string in the simplified text, and Rename edits its text", function=g.qualname)
    res.floor(rule, "string patterns", n, 3)
    # the detector on fixed examples: it must see the unanchored forms and accept the anchored ones
    if not _unanchored_prefix_paths(r'[bBfF]{,2}"x"') or not _unanchored_prefix_paths(r'(\b[rR]?[fF]|[fF][rR]?)"x"') \
            or not _unanchored_prefix_paths(r'(?<![fF])(\b[rR])?"x"') \
            or _unanchored_prefix_paths(r'(?:\b[bBfF]{1,2})?"x"') or _unanchored_prefix_paths(r'(?<!\b[fF])(\b[rR])?"x"') \
            or _unanchored_prefix_paths(r'(?<![A-Za-z0-9_])[fF]?"x"'):
        raise AnalysisError("R14.21: the prefix walk no longer tells the fixed examples apart")
