"""C04 -- inline: per-call-site independence and the closed assignment-operator table (R04.1-R04.9)."""
from __future__ import annotations

import ast
import token
from typing import Dict, List, Optional, Set

from .. import fold
from ..cfg import CFG
from ..core import AnalysisError, call_name, calls_in, is_self_attr, norm, walk_local
from . import common

EXPLANATION = (
    "R04.1 (ownership): the definition generator is constructed once per inlined function and asked once per call "
    "site; no attribute assigned in its __init__ may be mutated in place (subscript store, mutating method, del, "
    "augmented assignment), directly or through a local alias, in any method reachable from get_definition -- "
    "otherwise one call site's arguments leak into the next.  R04.2: every non-None value returned by the "
    "write/read classifier (worder get_assignment_type) is guarded by a membership/equality test of that very value "
    "against a constant collection that folds to a subset of the interpreter's assignment operators "
    "(token.EXACT_TOKEN_TYPES ending in '=' minus comparisons).  R04.3 (=R06.1): the definition parser pairs default "
    "values with exactly posonlyargs + args.  R04.4 (=R07.11): the import merger decides 'already imported' on (name, alias) pairs.  R04.5: the from-import of the inlined name is stripped only under the caller's `remove` flag.  R04.6: the offsets that cut the inlined assignment out come from a line table of the substituted text.  The text of the inlined code is not decided."
    ' R04.6: the offsets that cut the inlined assignment out come from a line table of the substituted text.'
)
EXPLANATION += ' R04.8: the whole-line rewrite of an inlined call is refused for a second call in the same logical line.'
EXPLANATION += " R04.9: in the anchored modules and the shared text utilities no source text is cut with str.splitlines() (it breaks at form feed, \x1c-\x1e, \x85, U+2028/9; rope's and the ast's line numbers count \n only)."
EXPLANATION += " R04.10: inside the loop over the files of a refactoring no handler swallows an error (a file is never silently left out of a multi-file change)."
EXPLANATION += " R04.11: program text that is moved is not whitespace-normalised (the result of `\" \".join(text.split())` is only ever compared, never emitted)."
EXPLANATION += " R04.13: the statements of an inlined body are put in front of the logical statement that holds the call, indented like that statement's FIRST line (logical_line_in(...)[0]), not like the physical line of the call."
EXPLANATION += " R04.12 (=R19.16): the body of an inlined function is re-indented line by line only outside string literals."
ASSUMPTIONS = ["alias tracking is flow-insensitive (x = self.attr makes x an alias for the whole method)",
               "dict()/list()/set()/.copy()/sorted()/slicing create copies"]

COPY_CALLS = {"dict", "list", "set", "frozenset", "tuple", "sorted", "copy", "deepcopy"}


def assignment_operators() -> Set[str]:
    return {t for t in token.EXACT_TOKEN_TYPES if t.endswith("=")} - {"==", "<=", ">=", "!="}


def classifier_table_rule(ctx, res, rule: str, fq: str) -> None:
    """Shared by C04 (R04.2) and C17 (R17.1)."""
    idx = ctx.idx
    f = idx.need_func(fq)
    cfg = CFG(f.node)
    oracle = assignment_operators()
    folder = fold.get(ctx)
    rets = [n for n in cfg.nodes if n.kind == "stmt" and isinstance(n.ast, ast.Return) and n.ast.value is not None
            and not (isinstance(n.ast.value, ast.Constant) and n.ast.value.value is None)]
    if not rets:
        raise AnalysisError(f"anchor={fq}: no value-returning exit")
    for r in rets:
        v = r.ast.value
        ok, why = False, "the returned operator text is not tested against any constant table"
        table = None
        for t, pol in cfg.guards(r.id):
            if not pol or not isinstance(t, ast.Compare) or len(t.ops) != 1:
                continue
            if norm(t.left) != norm(v):
                continue
            if isinstance(t.ops[0], (ast.In, ast.Eq)):
                try:
                    val = folder.eval(f.unit.modname, t.comparators[0], cls=f.cls)
                except fold.Unfoldable as e:
                    why = f"table expression not foldable ({e})"
                    continue
                vals = {val} if isinstance(val, str) else set(val)
                table = sorted(vals)
                extra = vals - oracle
                if not extra:
                    ok = True
                else:
                    why = f"table contains non-assignment operators {sorted(extra)}"
        if isinstance(v, ast.Constant) and isinstance(v.value, str) and v.value in oracle:
            ok = True
        res.add(rule, "get_assignment_type", ok, f"{f.unit.rel}:{r.lineno}",
                f"returned operator is validated against the closed table {table}" if ok else
                f"get_assignment_type returns a source slice as 'assignment operator' although {why}: text such as ',y=' after a read "
                "is taken for an assignment, so the read is treated as a write (inline leaves it behind, encapsulate-field wraps it in a setter)",
                function=f.qualname, oracle=sorted(oracle))


def _check_body(ctx, res) -> None:
    idx = ctx.idx
    gens = [c for c in idx.classes.values() if c.unit.modname == "rope.refactor.inline"
            and "get_definition" in c.methods and "__init__" in c.methods]
    if len(gens) != 1:
        raise AnalysisError("anchor=role:definition-generator (class in rope.refactor.inline with __init__ and get_definition) not unique")
    g = gens[0]
    init_attrs = set()
    for n in walk_local(g.methods["__init__"].node):
        if isinstance(n, (ast.Assign, ast.AnnAssign)):
            for t in (n.targets if isinstance(n, ast.Assign) else [n.target]):
                if is_self_attr(t):
                    init_attrs.add(t.attr)
    res.floor("R04.1", "__init__ attributes", len(init_attrs), 3)
    # methods reachable from get_definition within the class
    reach, todo = set(), ["get_definition"]
    while todo:
        m = todo.pop()
        if m in reach or m not in g.methods:
            continue
        reach.add(m)
        for c in calls_in(g.methods[m].node):
            if is_self_attr(c.func):
                todo.append(c.func.attr)
    res.floor("R04.1", "methods reachable from get_definition", len(reach), 3)
    res.analysed["R04.1_reachable"] = sorted(reach)
    viol: Dict[str, List] = {}
    for mname in sorted(reach):
        m = g.methods[mname]
        alias: Dict[str, str] = {}
        for n in walk_local(m.node):
            if isinstance(n, ast.Assign) and len(n.targets) == 1 and isinstance(n.targets[0], ast.Name):
                v = n.value
                if is_self_attr(v) and v.attr in init_attrs:
                    alias[n.targets[0].id] = v.attr
        for st in walk_local(m.node):
            if not isinstance(st, ast.stmt):
                continue
            for e in common.mutated_exprs(st):
                attr = None
                if is_self_attr(e) and e.attr in init_attrs:
                    attr = e.attr
                elif isinstance(e, ast.Name) and e.id in alias:
                    attr = alias[e.id]
                if attr:
                    viol.setdefault(attr, []).append((m, st))
            # rebinding the attribute itself outside __init__ is also shared-state mutation
            if isinstance(st, (ast.Assign, ast.AugAssign)):
                for t in (st.targets if isinstance(st, ast.Assign) else [st.target]):
                    if is_self_attr(t) and t.attr in init_attrs:
                        viol.setdefault(t.attr, []).append((m, st))
    for attr in sorted(init_attrs):
        v = viol.get(attr)
        if v:
            m, st = v[0]
            res.fail("R04.1", f"{g.name}.{attr}", f"{m.unit.rel}:{st.lineno}",
                     f"{g.name}.{attr} (set once in __init__) is mutated in {m.name} on the per-call-site path from get_definition: "
                     "state computed for one call site (argument values) is carried over to the next call site",
                     function=m.qualname)
        else:
            res.ok("R04.1", f"{g.name}.{attr}", g.where, "not mutated on any path from get_definition")

    classifier_table_rule(ctx, res, "R04.2", "rope.base.worder._RealFinder.get_assignment_type")

    # ---- R04.3 (=R06.1): the definition parser behind DefinitionInfo pairs defaults with the right parameters
    from .. import argalign

    dp = idx.need_func("rope.refactor.functionutils._FunctionDefParser.get_parameters")
    for pr in argalign.pairings(dp.node):
        if pr.which != "defaults":
            continue  # keyword-only parameters: recorded under C06 (inline refuses nothing there, but it is the signature property)
        res.add("R04.3", f"_FunctionDefParser.get_parameters|pairs:{pr.which}", pr.ok, f"{dp.unit.rel}:{pr.node.lineno}",
                "defaults are paired with exactly posonlyargs + args" if pr.ok else
                f"defaults are zipped with a list derived from {sorted(pr.labels)} instead of exactly posonlyargs + args: inline binds default values "
                "to the wrong parameters at every call site that relies on a default")

    # ---- R04.4 (=R07.11): inline adds the imports the inlined body needs through the import merger
    from .c07 import _alias_pair_rule

    _alias_pair_rule(ctx, res, "R04.4")

    # ---- R04.5 the caller says whether the definition (and with it the import of the name in other modules) goes away:
    # every call that strips the from-import of the inlined name is guarded by the `remove` flag
    from ..cfg import CFG as _CFG5

    n5 = 0
    for f in sorted(idx.functions.values(), key=lambda f: f.qualname):
        if f.unit.modname != "rope.refactor.inline":
            continue
        sites = [c for c in calls_in(f.node) if call_name(c) == "_remove_from"]
        if not sites:
            continue
        cfg = _CFG5(f.node)
        for c in sites:
            n5 += 1
            ok = False
            for nd in cfg.node_containing(c):
                if any(pol and isinstance(t, ast.Name) and t.id == "remove" for t, pol in cfg.guards(nd.id)):
                    ok = True
            res.add("R04.5", f"{f.qualname.split('.', 3)[-1]}|import-removal-guarded#{n5}", ok, f"{f.unit.rel}:{c.lineno}",
                    "the import of the inlined name is stripped only when the caller asked for removal" if ok else
                    f"{f.name} strips the from-import of the inlined name without looking at the `remove` flag: with remove=False (only_current) the other "
                    "uses of the name in that module stay, but their import is gone (NameError)", function=f.qualname)
    res.floor("R04.5", "import-stripping calls in inline", n5, 2)

    # ---- R04.6 offsets belong to the text they cut.  _inline_variable first substitutes the value for every read (the text
    # changes length wherever a read precedes the assignment), then cuts the assignment out of the NEW text: the line table
    # whose get_line_start / get_line_end give the cut offsets must be built from that new text, not taken from the module
    iv = idx.need_func("rope.refactor.inline._inline_variable")
    fam = common.with_private_helpers(idx, iv)
    new_texts = {t.id for x in walk_local(iv.node) if isinstance(x, ast.Assign) and isinstance(x.value, ast.Call)
                 and call_name(x.value) == "rename_in_module" for t in x.targets if isinstance(t, ast.Name)}
    if not new_texts:
        raise AnalysisError("anchor=_inline_variable: the text returned by rename_in_module not found")
    sliced = {x.value.id for g in fam for x in walk_local(g.node) if isinstance(x, ast.Subscript) and isinstance(x.slice, ast.Slice)
              and isinstance(x.value, ast.Name)}
    n6 = 0
    # only lookups whose result can reach a bound of a slice of the new text: those written in _inline_variable itself, and
    # those in a helper whose result is assigned to a name used in such a bound
    bound_names = {y.id for x in walk_local(iv.node) if isinstance(x, ast.Subscript) and isinstance(x.slice, ast.Slice)
                   and isinstance(x.value, ast.Name) and x.value.id in new_texts
                   for b in (x.slice.lower, x.slice.upper) if b is not None for y in ast.walk(b) if isinstance(y, ast.Name)}
    feeding = {call_name(x.value) for x in walk_local(iv.node) if isinstance(x, ast.Assign) and isinstance(x.value, ast.Call)
               and any(isinstance(y, ast.Name) and y.id in bound_names for t in x.targets for y in ast.walk(t))}
    if sliced & new_texts:
        for g in fam:
            if g is not iv and g.name not in feeding:
                continue
            for c in calls_in(g.node):
                if not (isinstance(c.func, ast.Attribute) and c.func.attr in ("get_line_start", "get_line_end")):
                    continue
                n6 += 1
                recv = c.func.value
                src = recv
                if isinstance(recv, ast.Name):
                    defs = [x.value for x in walk_local(g.node) if isinstance(x, ast.Assign) and any(isinstance(t, ast.Name) and t.id == recv.id for t in x.targets)]
                    src = defs[0] if len(defs) == 1 else None
                ok = isinstance(src, ast.Call) and any(isinstance(a, ast.Name) and (a.id in new_texts or g is not iv) for a in src.args) \
                    and not any(isinstance(a, ast.Attribute) for a in src.args)
                res.add("R04.6", f"{g.name}|cut-offsets#{n6}", ok, f"{g.unit.rel}:{c.lineno}",
                        "the offsets that cut the assignment out come from a line table of the substituted text" if ok else
                        f"`{ast.unparse(c)}` takes the cut offsets from `{ast.unparse(src) if src is not None else ast.unparse(recv)}`, a line table of the ORIGINAL module, and applies "
                        "them to the text in which the reads have already been replaced: when a read of the variable stands before its assignment the "
                        "text has shifted, part of the definition is left behind and neighbouring code is cut away", function=g.qualname)
    if sliced & new_texts:
        res.floor("R04.6", "line-table lookups feeding the cut in _inline_variable", n6, 2)
    else:
        # the assignment is cut out in another way (a list of lines with the assignment's lines deleted, ...): no offsets are
        # carried from one text to another; what remains of the rule is that the text handed back derives from the substituted one
        def closure(names, depth=0):
            out = set(names)
            if depth < 4:
                for x in walk_local(iv.node):
                    if isinstance(x, ast.Assign) and any(isinstance(t, ast.Name) and t.id in out for t in x.targets):
                        out |= {y.id for y in ast.walk(x.value) if isinstance(y, ast.Name)}
                if out != set(names):
                    return closure(out, depth + 1)
            return out
        rets = [r for r in walk_local(iv.node) if isinstance(r, ast.Return) and r.value is not None]
        for k, r in enumerate(rets, 1):
            used = closure({y.id for y in ast.walk(r.value) if isinstance(y, ast.Name)})
            ok = bool(used & new_texts)
            res.add("R04.6", f"_inline_variable|returned-text-is-the-substituted-text#{k}", ok, f"{iv.unit.rel}:{r.lineno}",
                    "the text handed back derives from the text in which the reads were replaced" if ok else
                    f"`{ast.unparse(r)[:60]}` hands back text that does not derive from the result of rename_in_module: the reads of the variable are not replaced",
                    function=iv.qualname)
        res.analysed["R04.6:form"] = "no slice of the substituted text; cut offsets not applicable"

    # ---- R04.7 which imports are added is never decided on the module's text lines
    common.import_presence_rule(ctx, res, "R04.7")


def _one_rewrite_per_line_rule(ctx, res) -> None:
    """R04.8: an inlined call is replaced together with its whole logical line: the handler emits the definition's body and a
    copy of the line, built from the ORIGINAL text, in which this one call is replaced.  Two calls in the line
    (`print(f(1) + f(2))`, `f(f(2))`, `f(1); f(2)`) give two copies of the statement, each still holding the other call --
    and with remove=True no definition.  The handler therefore records the lines it has rewritten and refuses a second
    rewrite of the same line: before the whole-line `add_change` there is a membership test on a record (an attribute of
    the handler) whose true edge only raises a rope error, and the line is added to that record."""
    idx = ctx.idx
    f = idx.need_func("rope.refactor.inline._InlineFunctionCallsForModuleHandle.occurred_outside_skip")
    from . import common
    fnode = common.inlined(idx, f)  # (the rewriting part may live in a private step of the handler)
    cfg = CFG(fnode)
    adds = [nd for nd in cfg.nodes if nd.kind == "stmt" and nd.ast is not None and any(call_name(c) == "add_change" for c in calls_in(nd.ast))]
    if not adds:
        raise AnalysisError("anchor=occurred_outside_skip: no add_change")
    records = {c.func.value.attr for c in calls_in(fnode) if isinstance(c.func, ast.Attribute) and c.func.attr == "add" and is_self_attr(c.func.value)}
    refusing = None
    for t in cfg.nodes:
        if t.kind == "test" and isinstance(t.ast, ast.Compare) and len(t.ast.ops) == 1 and isinstance(t.ast.ops[0], ast.In) \
                and is_self_attr(t.ast.comparators[0]) and t.ast.comparators[0].attr in records:
            for b, lab in cfg.succ[t.id]:
                if lab == "true" and cfg.exit.id not in cfg.reachable(b):
                    refusing = t
    ok = refusing is not None and all(nd.id in cfg.reachable(refusing.id) for nd in adds)
    # the record is kept per LOGICAL line: the key is the line whose start the rewrite begins at (`get_line_start(<key>)` feeds the
    # first argument of the whole-line add_change), not the physical line the call happens to stand on
    wrong_key = None
    if ok:
        key = refusing.ast.left
        starts = set()
        for nd in adds:
            for c in calls_in(nd.ast):
                if call_name(c) == "add_change" and c.args:
                    a0 = common.__dict__["_subst_single_locals"](fnode, c.args[0])
                    for g in ast.walk(a0):
                        if isinstance(g, ast.Call) and call_name(g) == "get_line_start" and g.args:
                            starts.add(norm(g.args[0]))
        if starts and norm(key) not in starts:
            wrong_key = (ast.unparse(key), sorted(starts))
            ok = False
    res.add("R04.8", "occurred_outside_skip|one-rewrite-per-logical-line", ok, f"{f.unit.rel}:{adds[0].lineno}",
            "a second call in a logical line that was already rewritten is refused" if ok else
            (f"the record of rewritten lines is keyed by `{wrong_key[0]}`, but a rewrite replaces the logical line that starts at another line (the one handed to "
             "get_line_start): two calls on different physical lines of one statement -- `r = (f(a) +\\n f(b))` -- are both inlined, each replacing the whole statement "
             "with a copy that still holds the other call") if wrong_key else
            "every call of the inlined function replaces its whole logical line with text built from the original line, and nothing records which lines were "
            "already rewritten: for `print(f(1) + f(2))` the statement is emitted twice, each copy still calling f -- with remove=True the definition is gone "
            "(NameError), without it the statement runs twice", function=f.qualname)


def check(ctx, res) -> None:
    _check_body(ctx, res)
    _one_rewrite_per_line_rule(ctx, res)
    from .common import line_model_rule as _lm

    _lm(ctx, res, "R04.9", ('rope.refactor.inline', 'rope.refactor.functionutils', 'rope.refactor.move', 'rope.refactor.importutils'))
    from .common import per_file_no_skip_rule as _pf

    _pf(ctx, res, "R04.10", ('rope.refactor.inline',))
    from .common import no_whitespace_normalisation_rule as _wn

    _wn(ctx, res, "R04.11", ('rope.refactor.inline', 'rope.refactor.functionutils', 'rope.refactor.sourceutils', 'rope.base.worder'))
    from .common import string_aware_indent_rule as _si

    _si(ctx, res, "R04.12", sorted(m for m in ctx.idx.units if m.startswith("rope.refactor")))
    _indent_of_the_statement_rule(ctx, res)




def _indent_of_the_statement_rule(ctx, res) -> None:
    """R04.13: when the value of an inlined call is used, the body's statements go in front of the whole logical statement and
    must sit at that statement's depth.  A call on a continuation line (`total = base + (\n        f(x))`) has another
    indentation than the statement: taken from the call's physical line, the inserted statements are absorbed by a block
    above (an `if` that is not taken) or do not parse.  In the handler of an occurrence, the line handed to get_indents
    is the first component of logical_line_in(...) -- followed through tuple unpacking and private steps read in place --
    and never the result of get_line_number(<offset of the call>)."""
    idx = ctx.idx
    f = idx.need_func("rope.refactor.inline._InlineFunctionCallsForModuleHandle.occurred_outside_skip")
    node = common.inlined(idx, f)

    def origins(name: str, depth: int = 0) -> Set[str]:
        out: Set[str] = set()
        if depth > 4:
            return {"other"}
        for a in walk_local(node):
            if not isinstance(a, ast.Assign):
                continue
            for t in a.targets:
                pos = None
                if isinstance(t, ast.Name) and t.id == name:
                    val = a.value
                elif isinstance(t, ast.Tuple):
                    pos = next((i for i, e in enumerate(t.elts) if isinstance(e, ast.Name) and e.id == name), None)
                    if pos is None:
                        continue
                    val = a.value.elts[pos] if isinstance(a.value, ast.Tuple) and len(a.value.elts) == len(t.elts) else a.value
                    if val is not a.value:
                        pos = None
                else:
                    continue
                if isinstance(val, ast.Subscript) and isinstance(val.slice, ast.Constant) and isinstance(val.value, ast.Call):
                    pos, val = val.slice.value, val.value
                if isinstance(val, ast.Name):
                    if val.id != name:
                        out |= origins(val.id, depth + 1)
                elif isinstance(val, ast.Call) and call_name(val) == "logical_line_in":
                    out.add("logical-first" if pos == 0 else "logical-last" if pos == 1 else "other")
                elif isinstance(val, ast.Call) and call_name(val) == "get_line_number":
                    out.add("physical")
                else:
                    out.add("other")
        return out

    n = 0
    for c in calls_in(node):
        if call_name(c) != "get_indents" or len(c.args) < 2:
            continue
        n += 1
        arg = c.args[1]
        og = origins(arg.id) if isinstance(arg, ast.Name) else (
            {"logical-first"} if isinstance(arg, ast.Subscript) and isinstance(arg.value, ast.Call) and call_name(arg.value) == "logical_line_in"
            and isinstance(arg.slice, ast.Constant) and arg.slice.value == 0 else
            {"physical"} if isinstance(arg, ast.Call) and call_name(arg) == "get_line_number" else {"other"})
        key = f"occurred_outside_skip|indent-of-the-statement#{n}"
        where = f"{f.unit.rel}:{c.lineno}"
        if og == {"logical-first"}:
            res.add("R04.13", key, True, where, "the indentation of the inserted statements is that of the first line of the logical statement", function=f.qualname)
        elif og & {"physical", "logical-last"}:
            res.add("R04.13", key, False, where,
                    f"`{ast.unparse(c)}`: the line comes from {'get_line_number(<offset of the call>)' if 'physical' in og else 'the LAST line of the logical statement'}, not from the first "
                    "line of the logical statement: for a call on a continuation line the statements of the inlined body are inserted in front of the statement with the "
                    "continuation line's indentation -- they are absorbed by the block above (`if flag:` not taken: the side effects vanish) or the file no longer parses",
                    function=f.qualname)
        else:
            res.undecided("R04.13", key, where, f"the origin of the line handed to get_indents is not recognised ({sorted(og)})")
    res.floor("R04.13", "indentation lookups in the occurrence handler of inline", n, 1)
