"""C15 -- scopes and name tables agree with Python's symbol table (VGC rules R15.1-R15.20)."""
from __future__ import annotations

import ast
from typing import Dict, List, Optional, Set, Tuple

from .. import vgc as vgc_mod
from ..core import param_names, AnalysisError, call_name, calls_in, is_self_attr, walk_local
from ..grammar import BINDS, G, PARAM_SLOTS, REDIRECTS, SCOPES, TARGET_FIELDS

EXPLANATION = (
    "Visitor x grammar coverage of rope's scope visitors against the running interpreter's ASDL grammar and the "
    "binding/scope oracle tables.  R15.1: every identifier-binding constructor field flows to the name-recording "
    "primitive of some scope visitor, and every assignment-target position is reached by a visitor whose Name "
    "handler records the name.  R15.2: the parameter-name reader uses all five parameter slots of ast.arguments.  "
    "R15.3: global/nonlocal declarations have binding handlers.  R15.4: per scope kind, every expression position of "
    "every statement is traversed by a visitor that opens comprehension scopes (else a comprehension there is no "
    "scope), and lambda opens a scope.  R15.5: fields Python evaluates in the enclosing scope are not handed to the "
    "new scope's visitor; walrus targets in comprehensions bind outside.  R15.7: visitors that bind every Name they meet "
    "without checking ctx never descend into Attribute.value / Subscript.value / Subscript.slice.  R15.6 (=R01.1): class scopes are skipped "
    "by enclosing lookup.  Scope extents and inferred objects are not decided."
    ' R15.13: every pattern-typed field is passed on to a visitor that records capture names.  R15.14: a child x.F is traversed whenever present -- the visit may be conditional on x.F only, never on a sibling field.'
)
EXPLANATION += " R15.17: a `:=` target inside a comprehension is not local to the comprehension; the containing scope's visitor collects it."
EXPLANATION += " R15.18: in the scope visitors every path through the handler of a def / class stores the definition under its own name."
EXPLANATION += " R15.20: in the handlers of the scope visitors a statement list of the node (body, orelse, finalbody, handlers, cases) is never read inside a loop over ANOTHER field of the same node: each child statement is visited once, so each nested definition yields one scope."
EXPLANATION += " R15.19: a nonlocal name is filed under the result of a transitive search of the enclosing scopes (lookup), not of one scope's own table."
EXPLANATION += " R15.16: the comprehension scope seeds its table from what its parent propagates to nested scopes (nothing for a class body), never from all names of the parent."
ASSUMPTIONS = [
    "handler summaries are flow-insensitive; an unknown idiom makes a field count as reached (under-approximation of gaps)",
    "the oracle tables BINDS/TARGET_FIELDS/SCOPES/REDIRECTS in sa/grammar.py state the language reference",
]

MOD = "rope.base.pyobjectsdef"
SCOPE_VISITORS = {"Global": f"{MOD}._GlobalVisitor", "Class": f"{MOD}._ClassVisitor",
                  "Function": f"{MOD}._FunctionVisitor", "Comprehension": f"{MOD}._ComprehensionVisitor"}
# statement constructors that are only valid inside a function body
# positions that the *concrete* syntax restricts to a bare name, so no sub-expression can live there
R154_EXEMPT = {"NamedExpr.target": "the parser only accepts an identifier to the left of ':='"}
FUNCTION_ONLY = {"Return"}
FUNCTION_ONLY_EXPR = {"Yield", "YieldFrom", "Await"}


def discover_openers(idx) -> Dict[str, str]:
    """PyX class -> visitor class of the scope it creates (read from the code)."""
    out: Dict[str, str] = {}
    for q, c in idx.classes.items():
        if not q.startswith(MOD + ".Py"):
            continue
        for m in c.methods.values():
            for n in walk_local(m.node):
                if isinstance(n, ast.Assign) and any(is_self_attr(t, "visitor_class") for t in n.targets):
                    w = idx.resolve(c.unit.modname, n.value)
                    if w in idx.classes:
                        out[q] = w
            if m.name == "_create_scope":
                for call in calls_in(m.node):
                    for a in call.args:
                        w = idx.resolve(c.unit.modname, a) if isinstance(a, (ast.Name, ast.Attribute)) else None
                        if w in idx.classes and w.startswith(MOD + "._") and w.endswith("Visitor"):
                            out[q] = w
    return out


def check_walkers(idx) -> None:
    """The three places that start a scope visitor walk all children of the scope's node."""
    for fq in ("rope.base.pyobjects.PyDefinedObject._create_structural_attributes",
               "rope.base.pyscopes.FunctionScope._visit_function",
               "rope.base.pyscopes.ComprehensionScope._visit_comprehension"):
        f = idx.need_func(fq)
        from .common import inline_private_calls
        fnode = inline_private_calls(idx, f)  # the walk may be a private step of the method (`self._visited_children()`): read in place
        ok = any(isinstance(n, ast.For) and isinstance(n.iter, ast.Call) and call_name(n.iter) == "iter_child_nodes"
                 and any(call_name(c) == "visit" for c in calls_in(n)) for n in walk_local(fnode))
        if not ok:
            raise AnalysisError(f"anchor={fq}: the scope walk is no longer 'for child in ast.iter_child_nodes(node): visitor.visit(child)'")


def check(ctx, res) -> None:
    _check_main(ctx, res)
    _extent_rule(ctx, res)
    scope_end_rule(ctx, res, "R15.9")
    from .c14 import line_table_rule

    line_table_rule(ctx, res, "R15.10")
    region_interval_rule(ctx, res, "R15.11")
    from .common import import_binding_rule

    import_binding_rule(ctx, res, "R15.12")
    sibling_search_rule(ctx, res, "R15.15")
    walrus_in_comprehension_rule(ctx, res, "R15.17")
    comprehension_sees_parent_rule(ctx, res, "R15.16")
    definition_binds_its_name_rule(ctx, res, "R15.18")
    nonlocal_is_searched_outwards_rule(ctx, res, "R15.19")
    suite_visited_once_rule(ctx, res, "R15.20")


def _check_main(ctx, res) -> None:
    idx = ctx.idx
    v = vgc_mod.get(ctx)
    for q in SCOPE_VISITORS.values():
        idx.need_class(q)
    openers = discover_openers(idx)
    res.analysed["scope_openers"] = openers
    if len(openers) < 3:
        raise AnalysisError(f"anchor=scope-opening classes: found only {openers}")
    check_walkers(idx)
    stmts = list(G.sums["stmt"])

    # full reach (following scope openers): everything the family can ever bind
    full = v.reach(SCOPE_VISITORS["Global"], stmts, scope_openers=openers)
    family = {vv for (vv, _) in full.pairs}
    res.analysed["family_visitors"] = sorted(family)
    res.analysed["pairs"] = len(full.pairs)
    res.floor("R15", "visitors in the scope family", len(family), 8)
    all_bound: Set[str] = set()
    for (vv, c) in full.pairs:
        all_bound |= full.bound_idents(vv, c)
    res.analysed["bound_identifier_fields"] = sorted(all_bound)

    # ---------------- R15.1 identifier binders
    n = 0
    for c, fld, kind in BINDS:
        if kind in ("store-name", "param") or c not in G.ctors or G.ctors[c].field(fld).is_node:
            continue
        n += 1
        key = f"{c}.{fld}"
        reached = sorted(vv.split(".")[-1] for vv in full.visitors_on(c))
        if c == "alias":
            # both statement kinds that own alias nodes must record them
            for owner in ("Import", "ImportFrom"):
                got = set()
                for vv in full.visitors_on(owner):
                    got |= full.bound_idents(vv, owner)
                oko = "alias.name" in got and "alias.asname" in got
                ho = v.handler(SCOPE_VISITORS["Global"], owner)
                res.add("R15.1", f"{owner}.names", oko, ho.where if ho else idx.classes[SCOPE_VISITORS["Global"]].where,
                        f"names imported by {owner} (alias.name / alias.asname) flow to the name table" if oko else
                        f"{owner} statements bind names (alias.name / asname) that no scope visitor records"
                        + ("" if ho else " (no handler: generic traversal cannot bind identifier fields)"))
            continue
        ok = key in all_bound
        h = v.handler(SCOPE_VISITORS["Global"], c)
        res.add("R15.1", key, ok, h.where if h else idx.classes[SCOPE_VISITORS["Global"]].where,
                f"{key} flows to the name table" if ok else
                f"{key} ({kind}) binds a name in Python, but no scope visitor records it "
                f"({'no handler: generic traversal cannot bind an identifier field' if h is None else 'handler ' + h.qualname + ' does not record it'}; reached by {reached})",
                kind=kind)
    # target positions
    binders = {vv for (vv, c) in full.pairs if c == "Name" and "Name.id" in full.bound_idents(vv, "Name")}
    res.analysed["name_binding_visitors"] = sorted(binders)
    targets = [t for t in TARGET_FIELDS if t[0] != "Delete"] + [("TypeAlias", "name")]
    for c, fld in targets:
        if c not in G.ctors:
            continue
        n += 1
        by = full.reached_by(c, fld)
        ok = bool(by & binders)
        # a handler that records the target without visiting it (e.g. isinstance(target, Name): self.names[target.id])
        direct = any(k.startswith(f"{c}.{fld}") or k == "Name.id" and False for k in all_bound)
        for vv in full.visitors_on(c):
            for e in full.binds.get((vv, c), []):
                if any(p == fld or p.startswith(fld + ".") for p in e.paths):
                    direct = True
        ok = ok or direct
        h = v.handler(SCOPE_VISITORS["Global"], c)
        res.add("R15.1", f"{c}.{fld}[Store]", ok, h.where if h else idx.classes[SCOPE_VISITORS["Global"]].where,
                f"names stored through {c}.{fld} are recorded (via {sorted(x.split('.')[-1] for x in by & binders) or 'handler'})" if ok else
                f"names bound through {c}.{fld} are never recorded: the position is "
                + (f"reached only by {sorted(x.split('.')[-1] for x in by)} whose Name handler does not bind" if by else "not traversed at all")
                + (f" (handler {h.qualname})" if h else " (no handler; generic traversal)"))
    res.floor("R15.1", "binding oracle entries", n, 14)

    # ---------------- R15.2 parameter kinds
    gp = idx.need_func(f"{MOD}.PyFunction.get_param_names")
    # the scope's parameter table is built by get_parameters() from get_param_names(): slots read by either count
    builders = [gp] + ([idx.functions[f"{MOD}.PyFunction.get_parameters"]] if f"{MOD}.PyFunction.get_parameters" in idx.functions else [])
    read = {x.attr for b in builders for x in ast.walk(b.node) if isinstance(x, ast.Attribute) and x.attr in PARAM_SLOTS
            and (is_self_attr(x.value, "arguments") or (isinstance(x.value, ast.Attribute) and x.value.attr == "args"))}
    for slot in PARAM_SLOTS:
        res.add("R15.2", f"PyFunction.get_param_names|{slot}", slot in read, gp.where,
                f"parameter slot '{slot}' is read" if slot in read else
                f"neither PyFunction.get_parameters nor get_param_names reads arguments.{slot}: parameters of that kind are not names of the function scope "
                "(and the scope visitor has no handler for 'arg' nodes that could bind them)")
    # is there an 'arg' handler that would compensate?
    if "arg.arg" in all_bound:
        for i in res.instances:
            if i.rule == "R15.2" and i.status == "fail":
                i.status = "ok"
                i.what = "slot not read by get_param_names but 'arg' nodes are bound by a scope visitor handler"

    # ---------------- R15.3 redirects
    for c in REDIRECTS:
        ok = f"{c}.names" in all_bound
        h = v.handler(SCOPE_VISITORS["Function"], c)
        res.add("R15.3", c, ok, h.where if h else idx.classes[SCOPE_VISITORS["Function"]].where,
                f"{c} declarations rebind the declared names to the outer binding" if ok else
                f"'{c.lower()}' declarations have no handler in the scope visitors: a later assignment to the declared name creates a new local "
                "binding in the inner scope instead of referring to the enclosing one")

    # ---------------- R15.4 expression positions per scope kind
    comp_ctors = [c for c in ("ListComp", "SetComp", "DictComp", "GeneratorExp") if c in G.ctors]

    def opens(vq: str, c: str) -> bool:
        h = v.handler(vq, c)
        return h is not None and any(e.target in openers for e in v.summary(vq, h).escapes())

    # a visitor is comprehension-aware if it opens a scope for at least one comprehension form; every aware visitor
    # must then do so for ALL forms (separate instances), so that a deleted handler is a reported gap, not a lost anchor
    aware_set = {vq for vq in v.visitor_classes() if any(opens(vq, c) for c in comp_ctors)}
    for c in comp_ctors:
        lacking = sorted(vq.split(".")[-1] for vq in aware_set if not opens(vq, c))
        hh = v.handler(SCOPE_VISITORS["Global"], c)
        res.add("R15.4", f"opens-scope:{c}", not lacking, hh.where if hh else idx.classes[f"{MOD}._ExpressionVisitor"].where,
                f"{c} opens a comprehension scope in every comprehension-aware visitor" if not lacking else
                f"{c} has no scope-opening handler in {lacking}: a {c} is traversed generically and its loop variables become names of the enclosing scope")
    res.analysed["comprehension_aware_visitors"] = sorted(aware_set)
    gaps: Dict[str, Set[str]] = {}
    checked: Set[str] = set()
    pgaps: Dict[str, Set[str]] = {}
    pchecked: Set[str] = set()
    pattern_binders = {vv for (vv, c) in full.pairs if c == "MatchAs" and "MatchAs.name" in full.bound_idents(vv, "MatchAs")}
    n_pairs = 0
    for kind, S in SCOPE_VISITORS.items():
        if kind == "Comprehension":
            starts = [c for c in G.sums["expr"]] + ["comprehension"]
        else:
            starts = [s for s in stmts if kind == "Function" or s not in FUNCTION_ONLY]
        r = v.reach(S, starts, scope_openers={})
        for (vv, c) in sorted(r.pairs):
            # a node of constructor c arrives at an aware visitor vv: every expression field must be passed on
            # to an aware visitor, otherwise comprehensions below that field are lost
            if vv not in aware_set or c in SCOPES:
                continue
            if kind != "Function" and c in FUNCTION_ONLY_EXPR | FUNCTION_ONLY:
                continue
            cov = r.pair_coverage(vv, c)
            n_pairs += 1
            for f in G.ctors[c].fields:
                if f.type == "expr":
                    positions = [(f"{c}.{f.name}", [f.name])]
                elif f.type in G.products and f.type not in ("arguments", "arg"):
                    # sub-fields of a product-type child (withitem, keyword, comprehension, match_case ...):
                    # covered either directly ("items.context_expr") or by handing the whole child to a visitor
                    positions = [(f"{f.type}.{g.name}", [f"{f.name}.{g.name}", f.name])
                                 for g in G.ctors[f.type].fields if g.type == "expr"]
                else:
                    positions = []
                for key, paths in positions:
                    if key in R154_EXEMPT:
                        continue
                    checked.add(key)
                    got = set().union(*[cov.get(p, set()) for p in paths])
                    if not (got & aware_set) and "?" not in got:
                        gaps.setdefault(key, set()).add(f"{kind}:{vv.split('.')[-1]}")
                # R15.13: sub-patterns (capture patterns may sit at any depth)
                if f.type == "pattern":
                    ppos = [(f"{c}.{f.name}", [f.name])]
                elif f.type in G.products and f.type not in ("arguments", "arg"):
                    ppos = [(f"{f.type}.{g.name}", [f"{f.name}.{g.name}", f.name]) for g in G.ctors[f.type].fields if g.type == "pattern"]
                else:
                    ppos = []
                for key, paths in ppos:
                    pchecked.add(key)
                    got = set().union(*[cov.get(p, set()) for p in paths])
                    if not (got & pattern_binders) and "?" not in got:
                        pgaps.setdefault(key, set()).add(f"{kind}:{vv.split('.')[-1]}")
    res.analysed["R15.4_positions_checked"] = len(checked)
    res.analysed["R15.4_pairs_checked"] = n_pairs
    res.floor("R15.4", "expression positions", len(checked), 40)
    for key in sorted(checked):
        kinds = sorted(gaps.get(key, ()))
        c, fld = key.split(".")
        h = v.handler(SCOPE_VISITORS["Function"], c) or v.handler(SCOPE_VISITORS["Comprehension"], c)
        res.add("R15.4", key, not kinds, h.where if h else idx.classes[SCOPE_VISITORS["Global"]].where,
                f"{key} is passed on to a comprehension-aware visitor wherever a {c} node arrives" if not kinds else
                f"{key} is not passed on to any visitor that opens comprehension scopes when a {c} node arrives at {', '.join(kinds)}: "
                f"a comprehension or generator expression written there is not a scope of its own"
                + (f" (handler {h.qualname} cuts the traversal)" if h else ""),
                where_lost=kinds)
    # ---------------- R15.14 a child is traversed whenever it is PRESENT: a visit of <x>.F may be conditional only on F
    # itself, never on a sibling field (the handler summaries above are flow-insensitive and cannot see this)
    n14 = 0
    for vq in sorted(q for q in idx.classes if q.startswith(MOD + ".") and q.endswith("Visitor")):
        cinfo = idx.classes[vq]
        for mname, m in sorted(cinfo.methods.items()):
            if not (mname.startswith("_") and mname[1:] in G.ctors):
                continue
            from .common import inlined
            m_node = inlined(idx, m)  # a header step moved into a private helper is read in place, with the arguments substituted
            parents = {}
            for pnode in ast.walk(m_node):
                for ch in ast.iter_child_nodes(pnode):
                    parents[ch] = pnode
            for c in calls_in(m_node):
                if not (isinstance(c.func, ast.Attribute) and c.func.attr == "visit" and c.args and isinstance(c.args[0], ast.Attribute)
                        and isinstance(c.args[0].value, ast.Name)):
                    continue
                root, fld = c.args[0].value.id, c.args[0].attr
                n14 += 1
                x = c
                culprit = None
                while x in parents and culprit is None:
                    pnode = parents[x]
                    if isinstance(pnode, ast.If) and any(x is st for st in pnode.body):
                        mentioned = {a.attr for a in ast.walk(pnode.test) if isinstance(a, ast.Attribute) and isinstance(a.value, ast.Name) and a.value.id == root}
                        if mentioned and fld not in mentioned:
                            culprit = pnode
                    x = pnode
                res.add("R15.14", f"{vq.split('.')[-1]}.{mname}|{root}.{fld}", culprit is None, f"{m.unit.rel}:{c.lineno}",
                        f"{root}.{fld} is traversed whenever it is present" if culprit is None else
                        f"{root}.{fld} is traversed only when `{ast.unparse(culprit.test)}` holds -- a test on a sibling field: when it is false, names bound and scopes "
                        f"opened inside {root}.{fld} (a walrus target, a comprehension, a lambda) are missing from rope's tables although the interpreter has them",
                        function=m.qualname)
    res.floor("R15.14", "field visits in scope-visitor handlers", n14, 12)

    # ---------------- R15.13 every sub-pattern position is traversed by a visitor that records capture names
    if "MatchAs" in G.ctors:
        res.floor("R15.13", "sub-pattern positions", len(pchecked), 6)
        for key in sorted(pchecked):
            kinds = sorted(pgaps.get(key, ()))
            c, fld = key.split(".")
            h = v.handler(SCOPE_VISITORS["Function"], c)
            res.add("R15.13", key, not kinds, h.where if h else idx.classes[SCOPE_VISITORS["Global"]].where,
                    f"{key} is passed on to a visitor that records capture patterns wherever a {c} node arrives" if not kinds else
                    f"{key} is not traversed when a {c} node arrives at {', '.join(kinds)}: names captured inside that sub-pattern "
                    f"(`case (x, y) as whole`, `case [a, *rest] as seq`) are bound by the interpreter but missing from rope's name table"
                    + (f" (handler {h.qualname} cuts the traversal)" if h else ""), where_lost=kinds)

    # Lambda opens a scope?
    lam = any(v.handler(S, "Lambda") is not None and any(e.target in openers for e in v.summary(S, v.handler(S, "Lambda")).escapes())
              for S in SCOPE_VISITORS.values())
    res.add("R15.4", "Lambda", lam, idx.classes[f"{MOD}._ExpressionVisitor"].where,
            "lambda opens a scope" if lam else
            "no scope visitor has a Lambda handler that opens a scope: lambda parameters are not names of any scope and the body is attributed to the enclosing scope")

    # ---------------- R15.5 scope attribution
    for T, enclosing in SCOPES.items():
        if T not in G.ctors or T in ("AsyncFunctionDef", "SetComp", "DictComp", "GeneratorExp", "Lambda"):
            continue
        fields = sorted({e.split(".")[0].split("[")[0] for e in enclosing if not e.startswith("type_params")})
        for fld in fields:
            if not G.has(T, fld):
                continue
            newv = full.new_scope_positions.get((T, fld), set())
            others = full.reached_by(T, fld) - newv
            # does an enclosing-scope visitor traverse it (and is aware)?
            ok = bool(others & aware_set) or not newv
            label = fld if T not in comp_ctors else "generators[0].iter"
            h = v.handler(SCOPE_VISITORS["Global"], T)
            res.add("R15.5", f"{T}.{label}", ok, h.where if h else "",
                    f"{T}.{label} is evaluated by a visitor of the enclosing scope" if ok else
                    f"{T}.{label} is evaluated by Python in the ENCLOSING scope, but rope hands it only to the new scope's visitor "
                    f"({sorted(x.split('.')[-1] for x in newv)}): comprehensions/lambdas/walrus there are attributed to the wrong scope")
    # twins behave identically (same effect summary)
    def sig(c):
        h = v.handler(SCOPE_VISITORS["Global"], c)
        if h is None:
            return None
        return sorted({(e.kind, e.target, tuple(sorted(e.paths))) for e in v.summary(SCOPE_VISITORS["Global"], h).effects})

    for a, b in (("FunctionDef", "AsyncFunctionDef"), ("ListComp", "SetComp"), ("ListComp", "DictComp"), ("ListComp", "GeneratorExp"),
                 ("For", "AsyncFor"), ("With", "AsyncWith")):
        same = sig(a) is not None and sig(a) == sig(b)
        hb = v.handler(SCOPE_VISITORS["Global"], b) or v.handler(SCOPE_VISITORS["Global"], a)
        res.add("R15.5", f"twin|{a}={b}", same, hb.where if hb else "",
                f"{b} is handled exactly like {a}" if same else f"{b} is not handled like its twin {a}: the two forms build different scopes/name tables")
    # walrus inside comprehension
    hn = v.handler(SCOPE_VISITORS["Comprehension"], "NamedExpr")
    hg = v.handler(SCOPE_VISITORS["Function"], "NamedExpr")
    ok = hn is not None and hg is not None and hn is not hg
    res.add("R15.5", "NamedExpr.target@Comprehension", ok, hn.where if hn else "",
            "comprehension visitor treats walrus targets specially" if ok else
            "a walrus target inside a comprehension is bound by the comprehension's own visitor (same handler as everywhere else): "
            "Python binds it in the nearest enclosing function/module scope")

    # ---------------- R15.7 target-name collectors stop at attribute / subscript targets
    load_positions_rule(ctx, res, "R15.7")

    # ---------------- R15.6 = R01.1
    from .c01 import class_scope_rule

    class_scope_rule(ctx, res, "R15.6")


def load_positions_rule(ctx, res, rule: str) -> None:
    """Shared with C02 (R02.5).  A visitor whose Name handler records a binding WITHOUT looking at node.ctx is only sound
    on pure targets: under `obj.attr = v` / `obj[i] = v` the Name `obj` is a Load.  Such a visitor must therefore not
    traverse Attribute.value, Subscript.value or Subscript.slice."""
    idx = ctx.idx
    v = vgc_mod.get(ctx)
    n = 0
    for W in v.visitor_classes():
        h = v.handler(W, "Name")
        if h is None or not (W.startswith("rope.base.pyobjectsdef.") or W.startswith("rope.base.nameanalyze.")):
            continue
        binds = any(e.kind == "bind" for e in v.summary(W, h).effects)
        if not binds:
            continue
        checks_ctx = any(isinstance(x, ast.Attribute) and x.attr == "ctx" for x in ast.walk(h.node))
        if checks_ctx:
            res.ok(rule, f"{W.split('.')[-1]}|ctx-checked", h.where, "the Name handler looks at node.ctx before binding")
            continue
        n += 1
        r = v.reach(W, ["Name", "Tuple", "List", "Starred", "Attribute", "Subscript"])
        bad = [f"{c}.{f}" for c, f in (("Attribute", "value"), ("Subscript", "value"), ("Subscript", "slice")) if W in r.reached_by(c, f)]
        # the complementary obligation: names nested in Tuple / List / Starred targets ARE bound
        binders = {x for x in v.visitor_classes() if v.handler(x, "Name") is not None
                   and any(e.kind == "bind" for e in v.summary(x, v.handler(x, "Name")).effects)}
        lost = [f"{c}.{f}" for c, f in (("Tuple", "elts"), ("List", "elts"), ("Starred", "value")) if not (r.reached_by(c, f) & binders)]
        res.add(rule, f"{W.split('.')[-1]}|nested-targets", not lost, h.where,
                "names nested in tuple / list / starred targets reach a binding Name handler" if not lost else
                f"{W.split('.')[-1]} does not pass {lost} on to a name-binding visitor: a name bound only through that form of unpacking target "
                "(e.g. `a, *rest = xs`) is missing from the scope's name table")
        res.add(rule, f"{W.split('.')[-1]}|loads-under-targets", not bad, h.where,
                "the collector does not descend into the object / index expression of attribute and subscript targets" if not bad else
                f"{W.split('.')[-1]} binds every Name it meets and descends into {bad}: in `config.host, config.port = pair` (or a for/with target) the "
                "object name `config` is recorded as assigned in the current scope, shadowing the real global/imported binding for the whole function")
    res.floor(rule, "ctx-blind name-binding visitors", n, 2)


def _extent_rule(ctx, res) -> None:
    """R15.8: a scope's extent is [get_start(), get_end()] in PHYSICAL lines (get_end is the end of the scope's last
    logical line; logical_end is only the line on which that last statement begins).  Wherever the holding-scope search
    tests `S.get_start() <= L` it must close the interval with `L <= S.get_end()` (or `.end`) of the same S and L."""
    from ..cfg import CFG
    from ..core import norm

    idx = ctx.idx
    n = 0
    for f in sorted(idx.functions.values(), key=lambda f: f.qualname):
        if f.unit.modname != "rope.base.pyscopes":
            continue
        cfg = None
        if f.parent is not None:
            continue
        # (generator conditions and the lambda handed to itertools.takewhile are read as well: `next((s for s in takewhile(lambda s:
        # s.get_start() <= line, scopes) if line <= s.get_end()), None)` is the same search)
        for x in ast.walk(f.node):
            if not (isinstance(x, ast.Compare) and len(x.ops) == 1 and isinstance(x.ops[0], (ast.LtE, ast.Lt))):
                continue
            up = x.comparators[0]
            recv = up.func.value if isinstance(up, ast.Call) and isinstance(up.func, ast.Attribute) else (up.value if isinstance(up, ast.Attribute) else None)
            what = up.func.attr if isinstance(up, ast.Call) and isinstance(up.func, ast.Attribute) else (up.attr if isinstance(up, ast.Attribute) else None)
            if recv is None or what is None or "end" not in what:
                continue
            cfg = cfg or CFG(f.node)
            lower = False
            for nd in cfg.node_containing(x):
                for t, pol in cfg.guards(nd.id):
                    if pol and isinstance(t, ast.Compare) and len(t.ops) == 1 and isinstance(t.ops[0], (ast.LtE, ast.Lt)) and norm(t.comparators[0]) == norm(x.left):
                        lo = t.left
                        lrecv = lo.func.value if isinstance(lo, ast.Call) and isinstance(lo.func, ast.Attribute) else (lo.value if isinstance(lo, ast.Attribute) else None)
                        lwhat = lo.func.attr if isinstance(lo, ast.Call) and isinstance(lo.func, ast.Attribute) else (lo.attr if isinstance(lo, ast.Attribute) else None)
                        if lrecv is not None and norm(lrecv) == norm(recv) and lwhat in ("get_start", "start"):
                            lower = True
            if not lower:
                # not a guard of the statement (the lower bound stands in another expression of the search): the same line compared
                # with a start in this function
                for t in ast.walk(f.node):
                    if isinstance(t, ast.Compare) and len(t.ops) == 1 and isinstance(t.ops[0], (ast.LtE, ast.Lt)) and norm(t.comparators[0]) == norm(x.left) and t is not x:
                        lo = t.left
                        lwhat = lo.func.attr if isinstance(lo, ast.Call) and isinstance(lo.func, ast.Attribute) else (lo.attr if isinstance(lo, ast.Attribute) else None)
                        if lwhat in ("get_start", "start"):
                            lower = True
            if not lower:
                continue
            n += 1
            ok = what in ("get_end", "end")
            res.add("R15.8", f"{f.qualname.split('.', 3)[-1]}|interval#{n}", ok, f"{f.unit.rel}:{x.lineno}",
                    "the containment test closes the interval with the scope's physical end" if ok else
                    f"{f.name} tests `{ast.unparse(x)}` after `get_start() <= line`: `{what}` is the line on which the scope's last statement BEGINS, so the "
                    "continuation lines of a multi-line last statement are attributed to the enclosing scope (names looked up from there resolve in "
                    "the wrong scope)", function=f.qualname)
    res.floor("R15.8", "start/end containment tests in pyscopes", n, 1)


def scope_end_rule(ctx, res, rule: str) -> None:
    """Shared by C15/C03: a comment or blank line says nothing about where a scope ends (commented-out code in column 0
    inside a function body).  In the scope-end scan every exit taken because of a line's indentation is guarded by
    "this line is not empty/comment"."""
    from ..cfg import CFG

    idx = ctx.idx
    f = idx.need_func("rope.base.pyscopes._HoldingScopeFinder.find_scope_end")
    cfg = CFG(f.node)
    loops = [nd for nd in cfg.nodes if nd.kind == "loop" and isinstance(nd.ast, ast.For)]
    if not loops:
        raise AnalysisError("anchor=_HoldingScopeFinder.find_scope_end: scan loop not found")
    n = 0
    for lp in loops:
        inside = {id(y) for s_ in lp.ast.body for y in [s_, *ast.walk(s_)]}
        for nd in cfg.nodes:
            if nd.kind == "stmt" and isinstance(nd.ast, (ast.Return, ast.Break)) and id(nd.ast) in inside:
                gs = cfg.guards(nd.id)
                if not any(isinstance(t, ast.Compare) and any(isinstance(c, ast.Call) and "indent" in call_name(c) for c in ast.walk(t)) for t, _ in gs):
                    continue
                n += 1
                ok = any((not pol) and isinstance(t, ast.Call) and "empty" in call_name(t) for t, pol in gs)
                res.add(rule, f"find_scope_end|indent-exit#{n}", ok, f"{f.unit.rel}:{nd.lineno}",
                        "the scan stops on indentation only at a line that is neither blank nor a comment" if ok else
                        "find_scope_end ends the scope at a less-indented line without testing that the line is not a comment/blank line: commented-out "
                        "code in column 0 inside a function body truncates the function's scope, so names used after it are looked up in the wrong scope "
                        "and extract analyses only part of the host function", function=f.qualname)
    res.floor(rule, "indentation exits of the scope-end scan", n, 1)


def region_interval_rule(ctx, res, rule: str) -> None:
    """R15.11 (shared with C02): a scope's region is the half-open interval [start, end): its first character belongs
    to it.  For most scopes that character is a keyword or a bracket, but a generator expression written without its own
    parentheses begins with an identifier, which must be looked up in the generator's scope."""
    idx = ctx.idx
    f = idx.need_func("rope.base.pyscopes.Scope.in_region")
    p = param_names(f.node)[1] if len(param_names(f.node)) > 1 else None
    n = 0
    # `start, end = self.get_region()` names the two ends: a name bound by unpacking stands for `<value>[i]`
    unpacked = {}
    for a in walk_local(f.node):
        if isinstance(a, ast.Assign) and len(a.targets) == 1 and isinstance(a.targets[0], ast.Tuple) and all(isinstance(e, ast.Name) for e in a.targets[0].elts):
            for i, e in enumerate(a.targets[0].elts):
                unpacked[e.id] = ast.copy_location(ast.Subscript(value=a.value, slice=ast.Constant(value=i), ctx=ast.Load()), e)
    for x in walk_local(f.node):
        if not isinstance(x, ast.Compare):
            continue
        terms = [unpacked.get(t.id, t) if isinstance(t, ast.Name) and t.id != p else t for t in [x.left, *x.comparators]]
        for i, op in enumerate(x.ops):
            l, r = terms[i], terms[i + 1]
            lower = None
            if isinstance(r, ast.Name) and r.id == p and isinstance(op, (ast.Lt, ast.LtE)) and isinstance(l, ast.Subscript):
                lower = isinstance(op, ast.LtE)
            if isinstance(l, ast.Name) and l.id == p and isinstance(op, (ast.Gt, ast.GtE)) and isinstance(r, ast.Subscript) \
                    and isinstance(r.slice, ast.Constant) and r.slice.value == 0:
                lower = isinstance(op, ast.GtE)
            if lower is None or not (isinstance(l if isinstance(r, ast.Name) else r, ast.Subscript)):
                continue
            sub = l if isinstance(r, ast.Name) else r
            if not (isinstance(sub.slice, ast.Constant) and sub.slice.value == 0):
                continue
            n += 1
            res.add(rule, "Scope.in_region|lower-bound-inclusive", lower, f"{f.unit.rel}:{x.lineno}",
                    "the region's first offset belongs to the scope" if lower else
                    "Scope.in_region excludes the first offset of the region: in `sum(x for x in xs)` the generator expression's region starts at the first "
                    "`x`, which is therefore looked up in the enclosing scope and resolves to an outer variable of the same name", function=f.qualname)
    res.floor(rule, "lower-bound comparisons in Scope.in_region", n, 1)


def sibling_search_rule(ctx, res, rule: str) -> None:
    """(shared C15 / C02 / C20) Which scope holds an OFFSET is found by looking at every child scope.  The children are
    collected in the order the visitor meets them -- `ast` field order, which is not source order (a conditional expression
    visits its test before its body, a dict display all keys before all values) -- so the search may leave the loop over
    the siblings early only because it FOUND the child that contains the offset, never because a sibling "starts after" it."""
    from ..cfg import CFG
    idx = ctx.idx
    f = idx.need_func("rope.base.pyscopes._HoldingScopeFinder.get_holding_scope_for_offset")
    cfg = CFG(f.node)
    ps = f.call_params()
    off = next((p for p in ps if "offset" in p), None)
    if off is None:
        raise AnalysisError("anchor=get_holding_scope_for_offset: offset parameter not found")
    scope_lists = {t.id for x in walk_local(f.node) if isinstance(x, ast.Assign) and isinstance(x.value, ast.Call) and call_name(x.value) == "get_scopes"
                   for t in x.targets if isinstance(t, ast.Name)}
    loops = [l for l in walk_local(f.node) if isinstance(l, ast.For) and (
        (isinstance(l.iter, ast.Call) and call_name(l.iter) == "get_scopes") or (isinstance(l.iter, ast.Name) and l.iter.id in scope_lists))]
    # the same search written as `next((c for c in scope.get_scopes() if c.in_region(offset)), None)`: it stops at the first child
    # for which the conditions hold -- they are the "found" test; a `takewhile` around the children is an early stop on a position test
    gens = [g for c in ast.walk(f.node) if isinstance(c, ast.Call) and call_name(c) == "next" and c.args and isinstance(c.args[0], ast.GeneratorExp)
            for g in [c.args[0]] if len(g.generators) == 1 and any(
                (isinstance(y, ast.Call) and call_name(y) == "get_scopes") or (isinstance(y, ast.Name) and y.id in scope_lists) for y in ast.walk(g.generators[0].iter))]
    if not loops and not gens:
        raise AnalysisError("anchor=get_holding_scope_for_offset: loop over the child scopes not found")

    def contains(gs) -> bool:
        if any(pol and isinstance(t, ast.Call) and call_name(t) == "in_region" for t, pol in gs):
            return True
        lo = hi = False
        for t, pol in gs:
            if not isinstance(t, ast.Compare):
                continue
            terms = [t.left] + list(t.comparators)
            for a, op, b in zip(terms, t.ops, terms[1:]):
                a_off, b_off = isinstance(a, ast.Name) and a.id == off, isinstance(b, ast.Name) and b.id == off
                if a_off == b_off:
                    continue
                # normalise to  offset OP other
                o = type(op) if a_off else {ast.Lt: ast.Gt, ast.Gt: ast.Lt, ast.LtE: ast.GtE, ast.GtE: ast.LtE}.get(type(op))
                if (o in (ast.GtE, ast.Gt) and pol) or (o in (ast.Lt, ast.LtE) and not pol):
                    lo = True   # offset is at/after something (the start)
                if (o in (ast.Lt, ast.LtE) and pol) or (o in (ast.GtE, ast.Gt) and not pol):
                    hi = True   # offset is before something (the end)
        return lo and hi

    n = 0
    for lp in loops:
        inside = {id(x) for st in lp.body for x in ast.walk(st)}
        for nd in cfg.nodes:
            if nd.kind != "stmt" or not isinstance(nd.ast, (ast.Break, ast.Return)) or id(nd.ast) not in inside:
                continue
            n += 1
            ok = contains(cfg.guards(nd.id))
            res.add(rule, f"get_holding_scope_for_offset|early-exit#{n}", ok, f"{f.unit.rel}:{nd.lineno}",
                    "the sibling loop is left early only when the child containing the offset was found" if ok else
                    f"the loop over the child scopes is left (line {nd.lineno}) although no child containing the offset was found -- on the assumption that the "
                    "children are sorted by position.  They are in ast field order: in `A(x for x in p) if B(y for y in q) else 0` the scope of the test comes "
                    "first, an offset inside the body's comprehension is smaller than that sibling's start, and the position is attributed to the ENCLOSING "
                    "scope (its loop variable resolves to an outer name)", function=f.qualname)
    for g in gens:
        n += 1
        comp = g.generators[0]
        cut_short = any(isinstance(y, ast.Call) and call_name(y) in ("takewhile", "islice") for y in ast.walk(comp.iter))
        ok = contains([(t, True) for t in comp.ifs]) and not cut_short
        res.add(rule, f"get_holding_scope_for_offset|early-exit#{n}", ok, f"{f.unit.rel}:{g.lineno}",
                "the search over the siblings stops at the first child that contains the offset" if ok else
                f"`{ast.unparse(g)[:80]}` ends the search over the child scopes " + ("at a sibling chosen by position (takewhile / islice)" if cut_short else "at a child that was not tested to contain the offset")
                + ": the children are in ast field order, not in source order -- in `A(x for x in p) if B(y for y in q) else 0` the scope of the test comes first, and a position "
                "inside the body's comprehension is attributed to the enclosing scope", function=f.qualname)
    res.floor(rule, "early exits of the sibling search", n, 1)


def comprehension_sees_parent_rule(ctx, res, rule: str) -> None:
    """(shared C15 / C01 / C02) What a comprehension sees of the scope it is written in.  Its FIRST iterable is evaluated in that scope (a class
    body included) -- the name finder moves there before it evaluates (R01.18).  Everything else -- the element, the conditions, the
    later iterables -- is a nested scope: it sees what the enclosing scope PROPAGATES to nested scopes, which for a class body is
    nothing (`x = 1; class C: x = 2; z = [x for _ in range(3)]` gives `[1, 1, 1]`).  If the comprehension scope seeds its own table
    from its parent at all, it seeds it from `get_propagated_names()`; seeding it from `get_names()` makes class attributes visible in
    the element and the conditions."""
    from ..cfg import CFG
    idx = ctx.idx
    f = idx.need_func("rope.base.pyscopes.ComprehensionScope._visit_comprehension")
    cfg = CFG(f.node)
    n = 0
    for nd in cfg.nodes:
        if nd.kind != "stmt" or nd.ast is None:
            continue
        took = [c for c in calls_in(nd.ast) if call_name(c) in ("get_names", "get_propagated_names", "_get_names") and isinstance(c.func, ast.Attribute)
                and is_self_attr(c.func.value, "parent")]
        into_names = (isinstance(nd.ast, ast.Assign) and any(is_self_attr(t, "names") for t in nd.ast.targets)) or any(
            isinstance(c.func, ast.Attribute) and c.func.attr == "update" and is_self_attr(c.func.value, "names") for c in calls_in(nd.ast))
        if not took or not into_names:
            continue
        n += 1
        # all names of the parent are acceptable only where the parent is known to be another comprehension (its targets belong to the same expression)
        whole = [c for c in took if call_name(c) != "get_propagated_names"]
        among_comprehensions = any(pol and isinstance(t, ast.Call) and call_name(t) == "isinstance" and "Comprehension" in ast.unparse(t) for t, pol in cfg.guards(nd.id))
        ok = not whole or among_comprehensions
        res.add(rule, f"ComprehensionScope._visit_comprehension|parent-names#{n}", ok, f"{f.unit.rel}:{nd.lineno}",
                "the comprehension scope takes over what its parent propagates to nested scopes" if ok else
                f"`{ast.unparse(nd.ast)[:70]}` copies ALL names of the parent scope into the comprehension's table, class attributes included: in `x = 1; class C: x = 2; "
                "z = [x for _ in range(3)]` the element resolves to C.x although the interpreter reads the module's x -- Rename of either `x` produces a program that "
                "raises NameError", function=f.qualname)
    res.analysed[f"{rule}:seeds of the comprehension table from the parent"] = n


def walrus_in_comprehension_rule(ctx, res, rule: str) -> None:
    """R15.17 (= R01.15 = R02.20): PEP 572 -- the target of a `:=` inside a comprehension is bound in the scope that CONTAINS the
    comprehension (the interpreter's symbol table marks it free in the comprehension).  (a) the visitor of a comprehension
    scope does not file the target of a NamedExpr among the comprehension's own names: its `_NamedExpr` handler does not visit
    `node.target`.  (b) the expression visitor of the containing scope, which creates the comprehension object instead of
    descending into it, looks for NamedExpr nodes inside the comprehension."""
    idx = ctx.idx
    comp = idx.need_class("rope.base.pyobjectsdef._ComprehensionVisitor")
    h = idx.find_method(comp.qualname, "_NamedExpr")
    if h is None:
        raise AnalysisError("anchor=_ComprehensionVisitor: no handler for NamedExpr in its MRO")
    ps = param_names(h.node)
    node_p = ps[1] if len(ps) > 1 else "node"
    binds_here = any(isinstance(x, ast.Attribute) and x.attr == "target" and isinstance(x.value, ast.Name) and x.value.id == node_p for x in ast.walk(h.node))
    res.add(rule, "_ComprehensionVisitor._NamedExpr|walrus-target-not-local-to-the-comprehension", not binds_here, h.where,
            "the comprehension visitor does not bind the target of `:=`" if not binds_here else
            f"the comprehension visitor handles NamedExpr with {h.qualname.split('.', 3)[-1]}, which files `node.target` among the names of the scope being visited -- the "
            "comprehension: in `any((hit := w).startswith('b') for w in words); return hit` the two `hit` are different names for rope (the function's table has no "
            "`hit`, lookup from the function finds nothing), so rename changes one and leaves the other", function=h.qualname)
    ev = idx.need_class("rope.base.pyobjectsdef._ExpressionVisitor")
    g = ev.methods.get("_GeneratorExp")
    if g is None:
        raise AnalysisError("anchor=_ExpressionVisitor._GeneratorExp missing")
    looks = any((isinstance(x, ast.Attribute) and x.attr == "NamedExpr") or (isinstance(x, ast.Name) and x.id == "NamedExpr") for x in ast.walk(g.node))
    res.add(rule, "_ExpressionVisitor._GeneratorExp|walrus-target-bound-in-containing-scope", looks, g.where,
            "the containing scope's visitor collects the `:=` targets of the comprehension" if looks else
            "the visitor of the containing scope creates the comprehension object and never looks inside it: the target of a `:=` in the comprehension is missing from "
            "the containing scope's names although the interpreter binds it there", function=g.qualname)


def definition_binds_its_name_rule(ctx, res, rule: str) -> None:
    """R15.18: `def f` / `class C` bind their name in the scope that holds the statement -- always: decorated or not, whatever the
    decorator, in a class body, a function or a module.  In the scope visitors' handlers of FunctionDef and ClassDef every
    path from entry to the normal exit passes a store into the visitor's name table under the statement's own name
    (`self.names[node.name] = ...`); a path that skips it (a decorator recognised in one kind of scope only) leaves a
    definition whose scope exists but whose name cannot be looked up."""
    idx = ctx.idx
    from . import common
    from ..cfg import CFG
    n = 0
    seen = set()
    for q in dict.fromkeys(SCOPE_VISITORS.values()):
        idx.need_class(q)
        for hname in ("_FunctionDef", "_ClassDef"):
            m = idx.find_method(q, hname)  # usually inherited from the common base of the visitors
            if m is None or m.qualname in seen:
                continue
            seen.add(m.qualname)
            c = m.cls
            node = common.inlined(idx, m)
            p = param_names(m.node)
            if len(p) < 2:
                continue
            cfg = CFG(node)
            stores = [nd.id for nd in cfg.nodes if nd.kind == "stmt" and isinstance(nd.ast, ast.Assign) and any(
                isinstance(t, ast.Subscript) and is_self_attr(t.value, "names") and isinstance(t.slice, ast.Attribute) and t.slice.attr == "name"
                and isinstance(t.slice.value, ast.Name) and t.slice.value.id == p[1] for t in nd.ast.targets)]
            if not stores:
                continue  # a handler that does not bind here (delegates to another visitor): nothing to say
            n += 1
            skipped = cfg.exit.id in cfg.reachable(cfg.entry.id, avoid_nodes=stores)
            res.add(rule, f"{c.name}.{hname}|every-path-binds-the-name", not skipped, m.where,
                    "every path through the handler stores the definition under its name" if not skipped else
                    f"{c.name}.{hname} has a path to its end that does not store `self.names[{p[1]}.name]`: a definition that takes it (e.g. a `@property` function outside a "
                    "class body, which only the class visitor turns into a property) has a scope but no name -- get_names() of the enclosing scope lacks it and lookup() "
                    "answers None where the interpreter's symbol table has the binding", function=m.qualname)
    res.floor(rule, "def/class handlers that bind a name", n, 2)


def nonlocal_is_searched_outwards_rule(ctx, res, rule: str) -> None:
    """R15.19: `nonlocal x` names the binding of x in the NEAREST enclosing function that has one -- any number of functions up (the
    decorator-factory idiom: `def retry(times): attempts = 0; def decorate(fn): def wrapper(): nonlocal attempts`).  The handler of
    Nonlocal files the name under what a TRANSITIVE search of the enclosing scopes finds: the stored value comes from
    `<scope>.lookup(name)`, or from a table lookup inside a loop that moves on to `.parent` when the name is not there.  One
    scope's own table (`get_names().get(name)`) finds nothing two levels up: the name is missing from the function's table and a
    later assignment makes a fresh local."""
    idx = ctx.idx
    from . import common
    n = 0
    seen = set()
    for q in dict.fromkeys(SCOPE_VISITORS.values()):
        m = idx.find_method(q, "_Nonlocal")
        if m is None or m.qualname in seen:
            continue
        seen.add(m.qualname)
        node = common.inlined(idx, m)
        for st in walk_local(node):
            if not (isinstance(st, ast.Assign) and any(isinstance(t, ast.Subscript) and is_self_attr(t.value, "names") for t in st.targets)):
                continue
            n += 1
            v = common._subst_single_locals(node, st.value)
            calls = [c for c in ast.walk(v) if isinstance(c, ast.Call)]
            transitive = any(call_name(c) == "lookup" for c in calls)
            if not transitive:
                # a hand-written outward search: the lookup stands in a loop that also steps to `.parent`
                for lp in walk_local(node):
                    if isinstance(lp, (ast.While, ast.For)) and any(y is st for y in ast.walk(lp)) and any(
                            isinstance(a, ast.Assign) and isinstance(a.value, ast.Attribute) and a.value.attr == "parent" for a in ast.walk(lp)):
                        transitive = True
            res.add(rule, f"{m.cls.name}._Nonlocal|searched-outwards#{n}", transitive, f"{m.unit.rel}:{st.lineno}",
                    "the nonlocal name is filed under what a search through the enclosing scopes finds" if transitive else
                    f"`{ast.unparse(st)[:70]}` takes the binding from ONE scope's own table: a variable bound two functions up (`def retry(): attempts = 0; def decorate(fn): def "
                    "wrapper(): nonlocal attempts`) is not found, the name is missing from wrapper's table although the interpreter's symbol table has it, and lookup() gives a "
                    "fresh local instead of retry's variable", function=m.qualname)
    res.floor(rule, "stores of nonlocal names", n, 1)
    # a class body is no enclosing scope of its methods: before the search, the scope it starts from is moved past scopes of kind "Class"
    for q in dict.fromkeys(SCOPE_VISITORS.values()):
        m = idx.find_method(q, "_Nonlocal")
        if m is None or m.qualname + "#c" in seen:
            continue
        seen.add(m.qualname + "#c")
        node = common.inlined(idx, m)
        def steps(lp, kinds) -> bool:
            return isinstance(lp, kinds) and any(isinstance(c, ast.Constant) and c.value == "Class" for c in ast.walk(lp.test)) \
                and any(isinstance(a, (ast.Assign, ast.Return)) and isinstance(a.value, ast.Attribute) and a.value.attr == "parent" for a in ast.walk(lp))

        # ALL class bodies in between (`class A: class B: def m(self): nonlocal x`): a loop -- in the handler or in the helper it calls --
        # or a helper that calls itself on the parent; a single `if` steps over one
        bodies = [node] + [g.node for g in idx.functions.values() if g.unit is m.unit and g.cls is None and g.parent is None
                           and any(isinstance(c.func, ast.Name) and c.func.id == g.name for c in calls_in(m.node))]
        skips = any(steps(lp, (ast.While,)) for b in bodies for lp in walk_local(b)) \
            or any(steps(lp, (ast.If,)) and any(isinstance(c.func, ast.Name) and c.func.id == getattr(b, "name", None) for c in calls_in(lp)) for b in bodies[1:] for lp in walk_local(b)) \
            or any(call_name(c) in ("get_enclosing_function_scope", "_enclosing_function") for c in calls_in(node))
        once = not skips and any(steps(lp, (ast.If,)) for b in bodies for lp in walk_local(b))
        res.add(rule, f"{m.cls.name}._Nonlocal|class-bodies-are-stepped-over", skips, m.where,
                "the search for the binding starts past the class scopes around the function" if skips else
                "the search for the binding of a nonlocal name steps over ONE class body only (an `if` where a loop is needed): in `def outer(): x = 1; class A: x = 'attr'; class B: "
                "def m(self): nonlocal x` the search starts in A's body and files A's attribute under m's `x`" if once else
                "the search for the binding of a nonlocal name starts in the scope around the function even when that is a CLASS body: in `def outer(): x = 1; class K: x = 'attr'; "
                "def m(self): nonlocal x` the class attribute is filed under m's `x` -- Rename of outer's `x` leaves `nonlocal x` behind (SyntaxError: no binding for nonlocal "
                "'x' found), and lookup('x') from m disagrees with the interpreter's symbol table", function=m.qualname)


SUITE_FIELDS = ("body", "orelse", "finalbody", "handlers", "cases")


def suite_visited_once_rule(ctx, res, rule: str) -> None:
    """R15.20: the interpreter's symbol table has ONE child table per nested def / class / comprehension.  The scope visitors get
    theirs by visiting the statements of a compound statement, so each statement list of the node must be visited once: a
    handler `_X(self, node)` never reads `node.<suite>` inside a `for` over another field of the same node (`for item in
    node.items: ...; visit(node.body)` visits the body of `with a as x, b as y:` twice and lists every definition in it twice).
    Read on the handler with its private steps in place, so `self._visit_statements(node.body)` inside the loop counts."""
    idx = ctx.idx
    from . import common
    seen = set()
    n = 0
    for q in dict.fromkeys(SCOPE_VISITORS.values()):
        for cq in idx.mro(q):
            c = idx.classes.get(cq)
            if c is None:
                continue
            for name, m in c.methods.items():
                if m.qualname in seen or not (name.startswith("_") and len(m.node.args.args) == 2):
                    continue
                seen.add(m.qualname)
                par = m.node.args.args[1].arg
                node = common.inlined(idx, m)

                def field_of(e):
                    return e.attr if isinstance(e, ast.Attribute) and isinstance(e.value, ast.Name) and e.value.id == par else None

                reads = []

                def walk(x, loops):
                    if isinstance(x, (ast.FunctionDef, ast.AsyncFunctionDef, ast.Lambda)) and x is not node:
                        return
                    f = field_of(x)
                    if f in SUITE_FIELDS:
                        reads.append((x, f, [g for g in loops if g != f]))
                    if isinstance(x, (ast.For, ast.AsyncFor)):
                        walk(x.iter, loops)
                        inner = loops + [g for g in (field_of(a) for a in ast.walk(x.iter)) if g]
                        for st in x.body + x.orelse:
                            walk(st, inner)
                        return
                    for ch in ast.iter_child_nodes(x):
                        walk(ch, loops)

                walk(node, [])
                if not reads:
                    continue
                n += 1
                bad = [(x, f, outer) for x, f, outer in reads if outer]
                res.add(rule, f"{m.cls.name}.{name}|suite-visited-once", not bad, f"{m.unit.rel}:{(bad[0][0] if bad else m.node).lineno}",
                        f"{len(reads)} read(s) of a statement list of the node, none inside a loop over another of its fields" if not bad else
                        f"`{par}.{bad[0][1]}` is read inside the loop over `{par}.{bad[0][2][0]}`: the statements are visited once per element of that field, and every def, class "
                        "or comprehension among them is listed as a child scope that many times (`with a as x, b as y:` with a def in its body: two scopes where the interpreter's "
                        "symbol table has one)", function=m.qualname)
    res.floor(rule, "handlers that read a statement list of their node", n, 3)
