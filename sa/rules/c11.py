"""C11 -- undo and redo are exact inverses (clauses R11.1-R11.16)."""
from __future__ import annotations

import ast
from typing import List, Optional, Tuple

from ..cfg import CFG
from ..core import AnalysisError, call_name, calls_in, is_self_attr, norm, walk_local
from . import common
from .c10 import _iter_discipline

EXPLANATION = (
    "R11.1: for every concrete Change kind the operation sequence of undo is the inverse of do under the table "
    "write_file(r,NEW)<->write_file(r,OLD) with OLD read from r before the write, move(a,b)<->move(b,a), "
    "create(r)<->remove(r).  R11.2: the composite undoes in the reverse of do order.  R11.3: history stack "
    "discipline -- emptiness guard dominates undo/redo, do clears redo and trims after every append, each "
    "_perform_* iteration moves exactly one element between the stacks.  R11.4: the dependency test is symmetric in "
    "containment.  R11.5: undo(drop=True) deletes exactly the N redo entries it just created.  R11.6: the properties of History (the limit among them) are pure read-throughs (no store into self).  Decides inverse *shape*, not content equality of trees."
    " R11.9: the saved undo/redo lists are rebuilt in the order they were saved (writer direction x loader direction x insertion end, per slot).  R11.10: every constant-index pick of 'the last change' in undo/redo is [-1] (changes are appended)."
    ' R11.11: a change is recorded for undo as soon as one of its resources is not ignored.'
)
EXPLANATION += ' R11.14: the dependency closure grows with the resources of dependent changes only.'
EXPLANATION += " R11.13: dependencies between changes are decided on paths, not on Resource objects or the recorded object's kind."
EXPLANATION += " R11.16: the move operation of the change layer tests that the destination is free before it touches the disk (open finding: it does not; a pinned test moves a file onto an existing one)."
ASSUMPTIONS = ["_ResourceOperations primitives do what their names say (C13/C16 check notify and codec separately)"]

INVERSE = {"write_file": "write_file", "move": "move", "create": "remove", "remove": "create"}


def _ops(fn: ast.AST) -> List[Tuple[str, List[str], ast.Call]]:
    out = []
    for c in calls_in(fn):
        if isinstance(c.func, ast.Attribute) and is_self_attr(c.func.value, "_operations"):
            out.append((c.func.attr, [norm(common._subst_single_locals(fn, a)) for a in c.args], c))  # `resource = self.resource` read through
    return out


def _check_body(ctx, res) -> None:
    idx = ctx.idx
    comp = common.composite_change(idx)
    kinds = 0
    for c in common.change_classes(idx):
        if c is comp:
            continue
        do, undo = c.methods.get("do"), c.methods.get("undo")
        if not do and not undo:
            continue  # inherits both (CreateFolder/CreateFile)
        do = do or idx.find_method(c.qualname, "do")
        undo = undo or idx.find_method(c.qualname, "undo")
        kinds += 1
        do_node, undo_node = common.inlined(idx, do), common.inlined(idx, undo)  # steps moved into private helpers are read in place
        d_ops, u_ops = _ops(do_node), _ops(undo_node)
        where = undo.where
        if not d_ops:
            res.undecided("R11.1", c.name, do.where, "do performs no _operations call")
            continue
        if not u_ops:
            raises = [n for n in walk_local(undo_node) if isinstance(n, ast.Raise)]
            res.fail("R11.1", c.name, where,
                     f"{c.name}.undo performs no inverse operation"
                     + (" (it raises " + (ast.unparse(raises[0].exc)[:60] if raises and raises[0].exc else "") + ")" if raises else "")
                     + f": after {c.name}.do, History.undo() cannot restore the tree",
                     do_ops=[o[0] for o in d_ops])
            continue
        ok, why = True, []
        if len(d_ops) != len(u_ops):
            ok = False
            why.append(f"do has {len(d_ops)} operation(s), undo {len(u_ops)}")
        else:
            for (dn, da, dc), (un, ua, uc) in zip(d_ops, reversed(u_ops)):
                if INVERSE.get(dn) != un:
                    ok = False
                    why.append(f"{un} is not the inverse of {dn}")
                elif dn == "move":
                    if da != list(reversed(ua)):
                        ok = False
                        why.append("move arguments are not swapped in undo")
                elif dn == "write_file":
                    if da[0] != ua[0]:
                        ok = False
                        why.append("undo writes a different resource")
                    if da[1] == ua[1]:
                        ok = False
                        why.append("undo writes the same contents as do")
                    # OLD must be assigned in do from a read of the same resource, before the write
                    old_attr = uc.args[1]
                    cfg = CFG(do_node)
                    assigns = [n for n in cfg.nodes if n.kind == "stmt" and isinstance(n.ast, ast.Assign)
                               and any(norm(t).replace("Store", "Load") == norm(old_attr) for t in n.ast.targets)
                               and isinstance(n.ast.value, ast.Call) and call_name(n.ast.value) == "read"
                               and norm(n.ast.value.func.value) == da[0]]
                    wn = cfg.node_containing(dc)
                    # ... and from nothing else: a constant stored as "previous contents" makes undo WRITE that constant --
                    # when do created the file, undo leaves an (empty) file where there was none
                    others = [n for n in cfg.nodes if n.kind == "stmt" and isinstance(n.ast, ast.Assign) and n not in assigns
                              and any(norm(t).replace("Store", "Load") == norm(old_attr) for t in n.ast.targets)]
                    if others:
                        ok = False
                        why.append(f"do stores `{ast.unparse(others[0].ast.value)}` (line {others[0].lineno}), not text read from the resource, as the contents undo "
                                   "writes back: for a file that do itself creates, undo leaves a stray file instead of removing it")
                    if not assigns:
                        ok = False
                        why.append("do never saves the previous contents (read of the resource) into the attribute undo writes")
                    elif wn and not all(cfg.exists_path(a.id, wn[0].id) for a in assigns):
                        ok = False
                        why.append("previous contents are saved after the write")
                    elif wn and any(cfg.exists_path(wn[0].id, a.id) for a in assigns):
                        ok = False
                        why.append("previous contents may be (re)read after the write")
                else:
                    if da != ua:
                        ok = False
                        why.append(f"{un} acts on a different resource than {dn}")
        res.add("R11.1", c.name, ok, where,
                f"undo is the inverse of do ({'; '.join(o[0] for o in d_ops)} / {'; '.join(o[0] for o in u_ops)})" if ok
                else f"{c.name}: " + "; ".join(why), do_ops=[o[0] for o in d_ops], undo_ops=[o[0] for o in u_ops])
    res.floor("R11.1", "concrete change kinds", kinds, 4)

    # ---- R11.2 composite order inversion
    orders = {}
    for mname in ("do", "undo"):
        m = comp.methods[mname]
        # (`changes = self.changes` ... `for change in changes`: a local bound once is read through; `enumerate(...)` is transparent)
        def main_iter(n):
            it_ = common._subst_single_locals(m.node, n.iter)
            if isinstance(it_, ast.Call) and call_name(it_) == "enumerate" and len(it_.args) == 1:
                it_ = it_.args[0]
            return it_
        loops = [n for n in walk_local(m.node) if isinstance(n, ast.For)
                 and any(is_self_attr(x) for x in ast.walk(main_iter(n)))
                 and not any(isinstance(t, ast.Try) and any(n is x for h in t.handlers for s in h.body for x in ast.walk(s))
                             for t in walk_local(m.node))]
        if len(loops) != 1:
            raise AnalysisError(f"anchor={comp.name}.{mname}: main loop over sub-changes not unique")
        lp = loops[0]
        attr = next(x.attr for x in ast.walk(main_iter(lp)) if is_self_attr(x))
        # rewrite self.attr -> name for the shared discipline helper
        it = ast.parse(ast.unparse(main_iter(lp)).replace(f"self.{attr}", "L"), mode="eval").body
        orders[mname] = (_iter_discipline(ast.For(target=lp.target, iter=it, body=[], orelse=[]), "L"), attr, lp)
    d, u = orders["do"], orders["undo"]
    if d[0] is None or u[0] is None:
        res.undecided("R11.2", comp.name, comp.where, f"iteration shape not recognised (do={d[0]}, undo={u[0]})")
    else:
        ok = d[1] == u[1] and {d[0], u[0]} == {"forward", "backward"} and d[0] == "forward"
        res.add("R11.2", comp.name, ok, f"{comp.unit.rel}:{u[2].lineno}",
                "composite do iterates forwards and undo backwards over the same list" if ok else
                f"composite do iterates {d[0]} over {d[1]} and undo {u[0]} over {u[1]}: undo does not revert sub-changes in reverse order")

    # ---- R11.3 history stack discipline
    hist = idx.need_class("rope.base.history.History")
    lists = common.list_attrs_of_init(hist)
    aliases = common.property_aliases(hist)

    def canon(e) -> Optional[str]:
        if is_self_attr(e):
            return aliases.get(e.attr, e.attr) if aliases.get(e.attr, e.attr) in lists else None
        return None

    und = next((l for l in lists if "undo" in l), None)
    red = next((l for l in lists if "redo" in l), None)
    if not und or not red:
        raise AnalysisError("anchor=History undo/redo list attributes not found")

    # (a) guards
    for mname, lst in (("undo", und), ("redo", red)):
        m = hist.methods.get(mname)
        if not m:
            raise AnalysisError(f"anchor=History.{mname} not found")
        cfg = CFG(m.node)
        bad = []
        for n in cfg.nodes:
            if n.kind not in ("stmt",) or isinstance(n.ast, ast.Raise):
                continue
            if isinstance(n.ast, ast.Expr) and isinstance(n.ast.value, ast.Constant):
                continue  # docstring
            g = cfg.guards(n.id)
            if not any(canon(t) == lst and pol for t, pol in g) and \
                    not any(isinstance(t, ast.Call) and call_name(t) == "len" and canon(t.args[0]) == lst and pol for t, pol in g):
                bad.append(n)
        raises_hist = any(isinstance(n.ast, ast.Raise) and "HistoryError" in ast.unparse(n.ast) for n in cfg.nodes if n.ast is not None)
        ok = not bad and raises_hist
        res.add("R11.3", f"History.{mname}|guard", ok, m.where,
                f"the emptiness guard on {lst} (raising HistoryError) dominates every statement" if ok else
                f"statement at line {bad[0].lineno if bad else m.node.lineno} of History.{mname} is not dominated by the emptiness guard on {lst}"
                " (or the guard no longer raises HistoryError): undoing with nothing to undo is not refused cleanly")

    # (b) do clears redo on every normal exit; every undo append is followed by trimming
    m = hist.methods["do"]
    def through_alias(fn_node, e):
        """`lst = self._undo_list` ... `del lst[...]`: a local bound once to the attribute stands for it"""
        if isinstance(e, ast.Name):
            defs = [x.value for x in walk_local(fn_node) if isinstance(x, ast.Assign) and any(isinstance(t, ast.Name) and t.id == e.id for t in x.targets)]
            if len(defs) == 1:
                return defs[0]
        return e

    trim = [n for n, mm in hist.methods.items()
            if any(isinstance(x, ast.Delete) and any(canon(through_alias(mm.node, getattr(t, "value", None))) == und for t in x.targets)
                   for x in walk_local(mm.node))
            and (any(isinstance(x, ast.Compare) for x in walk_local(mm.node)) or any(
                isinstance(x, ast.Delete) and any(isinstance(t, ast.Subscript) and isinstance(t.slice, ast.Slice) for t in x.targets) for x in walk_local(mm.node)))]
    # the slice that is cut away is written with the limit as it stands: `del l[:-limit]` keeps the newest `limit` items for every
    # limit but 0 -- `-0` is 0, `l[:0]` is empty, nothing is deleted and the list grows without bound
    for n_ in trim:
        mm = hist.methods[n_]
        for x in walk_local(mm.node):
            if isinstance(x, ast.Delete):
                for t in x.targets:
                    if isinstance(t, ast.Subscript) and isinstance(t.slice, ast.Slice) and canon(through_alias(mm.node, t.value)) == und:
                        neg = [b for b in (t.slice.lower, t.slice.upper) if isinstance(b, ast.UnaryOp) and isinstance(b.op, ast.USub) and not isinstance(b.operand, ast.Constant)]
                        res.add("R11.3", f"History.{n_}|trim-slice-right-at-limit-zero", not neg, f"{mm.unit.rel}:{x.lineno}",
                                "the slice that is cut away has no negated bound" if not neg else
                                f"`{ast.unparse(x)}` negates the limit: with a limit of 0 (max_history_items=0: keep no history) `{ast.unparse(neg[0])}` is -0 = 0, the slice is "
                                "empty, nothing is ever deleted -- the undo list exceeds the configured limit and undo() succeeds where it has to be refused", function=mm.qualname)
    cfg = CFG(common.inline_private_calls(idx, m, keep=trim))

    def clears_redo(n):
        if n.ast is None:
            return False
        for e in common.mutated_exprs(n.ast):
            if canon(e) == red:
                if isinstance(n.ast, ast.Delete):
                    return True
                return any(call_name(c) == "clear" for c in calls_in(n.ast))
        return False

    ok = cfg.must_pass_through(cfg.entry.id, cfg.exit.id, clears_redo)
    res.add("R11.3", "History.do|clear-redo", ok, m.where,
            "every normal exit of History.do passes through clearing the redo list" if ok else
            "a normal path through History.do keeps the redo list: redo after a new change would re-apply stale changes")
    appends = [n for n in cfg.nodes if n.kind == "stmt" and any(
        isinstance(c.func, ast.Attribute) and c.func.attr == "append" and canon(c.func.value) == und for c in calls_in(n.ast))]
    is_trim = lambda n: n.ast is not None and any(is_self_attr(c.func) and c.func.attr in trim for c in calls_in(n.ast))
    for a in appends:
        ok = bool(trim) and cfg.must_pass_through(a.id, cfg.exit.id, is_trim)
        res.add("R11.3", "History.do|trim", ok, f"{m.unit.rel}:{a.lineno}",
                "the append to the undo list is followed by the limit-trimming call on every normal path" if ok else
                "undo list append is not followed by trimming: the undo list can exceed the configured limit")
    if not appends:
        raise AnalysisError("anchor=History.do append to undo list not found")

    # (c) one element moved per iteration
    for mname, src, dst in (("_perform_undos", und, red), ("_perform_redos", red, und)):
        m = hist.methods.get(mname)
        if not m:
            raise AnalysisError(f"anchor=History.{mname} not found")
        m_node = common.inline_private_calls(idx, m)  # the loop body may have been moved into a private helper
        loops = [n for n in walk_local(m_node) if isinstance(n, ast.For)]
        body_muts = []
        for st in (loops[0].body if loops else m_node.body):
            for x in [st, *walk_local(st)]:
                if isinstance(x, ast.stmt):
                    for e in common.mutated_exprs(x):
                        if canon(e):
                            body_muts.append((canon(e), x))
        moves = [c for c in calls_in(m_node) if isinstance(c.func, ast.Attribute) and c.func.attr == "append"
                 and canon(c.func.value) == dst and c.args and isinstance(c.args[0], ast.Call)
                 and isinstance(c.args[0].func, ast.Attribute) and c.args[0].func.attr == "pop"
                 and not c.args[0].args and canon(c.args[0].func.value) == src]
        ok = len(moves) == 1 and len(body_muts) == 2 and bool(loops)
        res.add("R11.3", f"History.{mname}|move-one", ok, m.where,
                f"each iteration pops one element of {src} and appends it to {dst}" if ok else
                f"History.{mname} does not move exactly one element {src}->{dst} per iteration "
                f"({len(moves)} pop/append pair(s), {len(body_muts)} list mutation(s))")

    # ---- R11.5 undo(drop=True) drops exactly the changes it moved to the redo list
    m = hist.methods["undo"]
    cfg = CFG(m.node)
    # (the step may be performed inside a private helper shared with redo: read in place)
    counts = [norm(c.args[0]) for c in calls_in(common.inline_private_calls(idx, m, keep=("_perform_undos", "_perform_redos"))) if is_self_attr(c.func) and c.func.attr.startswith("_perform") and c.args
              and not is_self_attr(c.args[0])]
    drop_nodes = []
    for n in cfg.nodes:
        if n.kind == "stmt" and n.ast is not None and any(canon(e) == red for e in common.mutated_exprs(n.ast)):
            if any(isinstance(t, ast.Name) and t.id == "drop" and pol for t, pol in cfg.guards(n.id)):
                drop_nodes.append(n)
    if not counts:
        raise AnalysisError("anchor=History.undo count passed to _perform_undos not found")
    if not drop_nodes:
        res.fail("R11.5", "History.undo|drop", m.where,
                 "History.undo(drop=True) no longer removes the undone changes from the redo list: dropped changes stay redoable")
    for n in drop_nodes:
        ok = None
        a = n.ast
        if isinstance(a, ast.Delete) and len(a.targets) == 1 and isinstance(a.targets[0], ast.Subscript) \
                and isinstance(a.targets[0].slice, ast.Slice):
            sl = a.targets[0].slice
            lower = sl.lower
            ok = sl.upper is None and sl.step is None and isinstance(lower, ast.UnaryOp) and isinstance(lower.op, ast.USub) \
                and norm(lower.operand) in counts
        elif any(isinstance(c.func, ast.Attribute) and c.func.attr in ("remove", "pop") and canon(c.func.value) == red for c in calls_in(a)):
            ok = False  # removes a single element, while len(dependencies) elements were moved
        res.add("R11.5", "History.undo|drop", ok, f"{m.unit.rel}:{n.lineno}",
                "drop deletes the last N redo entries where N is the number of changes just undone" if ok else
                "History.undo(change, drop=True) does not delete exactly the N entries it just moved to the redo list (N = number of dependent "
                "changes undone): dependents of the dropped change stay redoable on a base that no longer exists, so redo/undo stop being inverses")
    # the returned list is the same slice
    # ---- R11.6 the limit (and every other property the stack discipline reads) is a pure read-through: a getter that
    # stores into self freezes the first answer, so a limit configured later is ignored and the undo list outgrows it
    n6 = 0
    for pname_, m in sorted(hist.methods.items()):
        if "property" not in m.decorator_names():
            continue
        n6 += 1
        writes = []
        for st in walk_local(m.node):
            if isinstance(st, (ast.Assign, ast.AugAssign, ast.AnnAssign)):
                for t in (st.targets if isinstance(st, ast.Assign) else [st.target]):
                    if is_self_attr(t):
                        writes.append((st, t.attr))
            if isinstance(st, ast.stmt):
                for e in common.mutated_exprs(st):
                    if is_self_attr(e):
                        writes.append((st, e.attr))
        res.add("R11.6", f"History.{pname_}|pure-getter", not writes, m.where if not writes else f"{m.unit.rel}:{writes[0][0].lineno}",
                "the getter stores nothing into the history object" if not writes else
                f"the property History.{pname_} stores into self.{writes[0][1]} when it is read: the first value computed (e.g. the max_history_items "
                "preference in force at the first change) is frozen, so a limit configured afterwards is ignored and the undo list exceeds it",
                function=m.qualname)
    res.floor("R11.6", "History properties", n6, 2)

    # ---- R11.7 (=R10.9) each file-system primitive has exactly its own effect (undo replays inverse primitives)
    common.fs_primitive_purity_rule(ctx, res, "R11.7")

    # ---- R11.8 (=R16.6) undo of a content change restores the newline convention captured by do()
    from .c16 import undo_newline_rule

    undo_newline_rule(ctx, res, "R11.8")

    # ---- R11.10 both history lists are stacks whose top is the BACK (append): whatever is picked as "the last change"
    # is element -1
    n10 = 0
    for mname, m in sorted(hist.methods.items()):  # wherever in the class a single entry is picked by a constant index
        for x in walk_local(m.node):
            if isinstance(x, ast.Subscript) and isinstance(x.ctx, ast.Load) and canon(x.value) and not isinstance(x.slice, ast.Slice):
                sl = x.slice
                val = sl.value if isinstance(sl, ast.Constant) else (-sl.operand.value if isinstance(sl, ast.UnaryOp) and isinstance(sl.op, ast.USub)
                                                                     and isinstance(sl.operand, ast.Constant) else None)
                if not isinstance(val, int):
                    continue
                n10 += 1
                ok = val == -1
                res.add("R11.10", f"History.{mname}|top-of-stack:{canon(x.value)}#{n10}", ok, f"{m.unit.rel}:{x.lineno}",
                        f"`{ast.unparse(x)}` is the most recent entry (changes are appended)" if ok else
                        f"`{ast.unparse(x)}` is not the most recent entry of the list (changes are appended, so that is [-1]): undo()/redo() without argument "
                        "pick the OLDEST change, and everything after it is undone/redone with it", function=m.qualname)
    res.floor("R11.10", "top-of-stack reads in History", n10, 4)

    # ---- R11.11 a performed change is recorded for undo as soon as ONE of its resources is not ignored (History.do's
    # docstring: only changes "to ignored files" are uninteresting); a change that also touches an ignored file is recorded
    ici = hist.methods.get("_is_change_interesting")
    if ici is None:
        raise AnalysisError("anchor=History._is_change_interesting not found")
    form = common.exists_form(ici.node, lambda e: isinstance(e, ast.Call) and call_name(e) == "is_ignored")
    if form is None:
        res.undecided("R11.11", "History._is_change_interesting|exists-not-ignored", ici.where, "quantifier shape not recognised")
    else:
        ok = form == ("exists", False)
        res.add("R11.11", "History._is_change_interesting|exists-not-ignored", ok, ici.where,
                "a change is recorded when at least one of its resources is not ignored" if ok else
                f"a change counts as interesting when {'every' if form[0] == 'forall' else 'some'} resource is {'ignored' if form[1] else 'not ignored'}: "
                "a change set that touches an ordinary file AND an ignored one (a backup, a .pyc) is performed but not put on the undo list -- the next "
                "undo() reverts the change before it, and this one can never be undone", function=ici.qualname)

    # ---- R11.12 (=R10.13) the handler of a failed selective undo/redo only reorders
    common.order_only_restore_rule(ctx, res, "R11.12")

    # ---- R11.9 (=R12.12) the saved undo/redo lists come back in the order they were saved
    from .c18 import history_order_rule

    history_order_rule(ctx, res, "R11.9")

    # ---- R11.4 symmetric containment
    dep = idx.need_func("rope.base.history._FindChangeDependencies._depends_on")
    pairs = set()
    sym = False
    charwise = None
    for g in common.with_private_helpers(idx, dep):
        here = set()
        # read on the copy with one-expression helpers substituted (`_is_below(a, b) or _is_below(b, a)` is the same test)
        for c in calls_in(common.inlined(idx, g)):
            if isinstance(c.func, ast.Attribute) and c.func.attr == "contains" and len(c.args) == 1:
                here.add((norm(c.func.value), norm(c.args[0])))
            # the same test on path strings: `a.startswith(b + "/")`
            if isinstance(c.func, ast.Attribute) and c.func.attr == "startswith" and len(c.args) == 1 and isinstance(c.args[0], ast.BinOp) \
                    and isinstance(c.args[0].op, ast.Add) and isinstance(c.args[0].right, ast.Constant) and c.args[0].right.value == "/":
                here.add((norm(c.args[0].left), norm(c.func.value)))
        # the same test component by component: `all(a == b for a, b in zip(p.split("/"), q.split("/")))` -- zip stops at the shorter list, so
        # this is "one path is a prefix of the other, folder by folder" in both directions at once.  Zipping the path STRINGS compares
        # characters: `mod.py` and `mod.pyi`, `pkg` and `pkg2/b.py` then "overlap"
        gnode = common.inlined(idx, g)
        unpacked = {}
        for a_ in ast.walk(gnode):
            if isinstance(a_, ast.Assign) and len(a_.targets) == 1:
                if isinstance(a_.targets[0], ast.Tuple) and isinstance(a_.value, ast.Tuple) and len(a_.targets[0].elts) == len(a_.value.elts):
                    for t_, v_ in zip(a_.targets[0].elts, a_.value.elts):
                        if isinstance(t_, ast.Name):
                            unpacked[t_.id] = v_
                elif isinstance(a_.targets[0], ast.Name):
                    unpacked[a_.targets[0].id] = a_.value
        for c in ast.walk(gnode):
            if isinstance(c, ast.Call) and call_name(c) == "zip" and len(c.args) == 2:
                vals = [unpacked.get(a_.id, a_) if isinstance(a_, ast.Name) else a_ for a_ in c.args]
                by_folder = all(isinstance(v, ast.Call) and call_name(v) == "split" and v.args and isinstance(v.args[0], ast.Constant) and v.args[0].value == "/" for v in vals)
                if by_folder:
                    a0, b0 = norm(vals[0].func.value), norm(vals[1].func.value)
                    here |= {(a0, b0), (b0, a0)}
                else:
                    charwise = f"`{ast.unparse(c)}` pairs up the CHARACTERS of the two path strings, not their folders"
        pairs |= here
        sym = sym or any((b, a) in here for a, b in here)
    res.add("R11.4", "_FindChangeDependencies._depends_on", bool(pairs) and sym and not charwise, dep.where,
            "containment is tested in both directions" if pairs and sym and not charwise else
            (f"the dependency test {charwise}: a path that merely starts with the other one, without a `/` boundary (`mod.py` / `mod.pyi`, `pkg` / `pkg2/b.py`), counts as the same "
             "resource or as lying below it -- a selective undo takes an independent later change of the sibling along") if charwise else
            "the dependency test checks containment in one direction only: a change to a file inside a later created/moved folder "
            "(or vice versa) is not recognised as dependent, so a selective undo leaves it in force")


def _dependency_by_path_rule(ctx, res) -> None:
    """R11.13: which later changes a selective undo must take along is a question about PATHS: over a history the same path can
    be a file, be moved away, and come back as a folder.  Resource equality includes the class (`File('x') != Folder('x')`)
    and `is_folder()` describes the object that was recorded, not what is at the path now.  In the dependency test (the
    function and the private helpers it calls) no positive decision hangs on membership of a resource OBJECT in the
    recorded set, and none on the recorded object's `is_folder()`; the decision reads the `.path` of both sides.  A
    decision is a `return True` (its guards are looked at) or a returned expression (`return any(...)`: looked at whole)."""
    from ..cfg import CFG
    from . import common
    idx = ctx.idx
    f = idx.need_func("rope.base.history._FindChangeDependencies._depends_on")
    parts = common.with_private_helpers(idx, f)
    n = 0
    bad = None

    def forbidden(t):
        for y in ast.walk(t):
            if isinstance(y, ast.Compare) and len(y.ops) == 1 and isinstance(y.ops[0], ast.In) and is_self_attr(y.comparators[0]) \
                    and not any(isinstance(z, ast.Attribute) and z.attr == "path" for z in ast.walk(y.left)):
                return f"`{ast.unparse(y)}`: membership of a Resource OBJECT (equality includes the class)"
            if isinstance(y, ast.Call) and call_name(y) == "is_folder":
                return f"`{ast.unparse(y)}`: the kind of the recorded object"
        return None

    paths = 0
    for g in parts:
        paths += sum(1 for x in ast.walk(g.node) if isinstance(x, ast.Attribute) and x.attr == "path")
        cfg = CFG(g.node)
        for nd in cfg.nodes:
            if nd.kind != "stmt" or not isinstance(nd.ast, ast.Return) or nd.ast.value is None:
                continue
            v = nd.ast.value
            if isinstance(v, ast.Constant):
                if v.value is not True:
                    continue
                n += 1
                for t, pol in cfg.guards(nd.id):
                    if pol and forbidden(t):
                        bad = bad or (nd, forbidden(t))
            else:
                n += 1
                if forbidden(v):
                    bad = bad or (nd, forbidden(v))
    if n == 0:
        raise AnalysisError("anchor=_FindChangeDependencies._depends_on: no decision found")
    ok = bad is None and paths >= 2
    res.add("R11.13", "_depends_on|decided-on-paths", ok, f"{f.unit.rel}:{(bad[0] if bad else f.node).lineno}",
            "dependencies between changes are decided by comparing paths" if ok else
            "a dependency is recognised under " + (bad[1] if bad else "a test that does not read the paths of both resources") +
            ": after `create file x`, `move x to y`, `create folder x`, `create x/keep.py` the later changes are not found to depend on the first -- undoing "
            "it removes the path x with everything below it while those changes stay listed as performed", function=f.qualname)

def check(ctx, res) -> None:
    _check_body(ctx, res)
    _dependency_by_path_rule(ctx, res)
    _closure_grows_with_dependents_only_rule(ctx, res)
    _move_does_not_overwrite_rule(ctx, res)


def _closure_grows_with_dependents_only_rule(ctx, res) -> None:
    """R11.14: the dependency closure of a selective undo is built by one pass over the later changes: a change is taken along
    when it touches a resource of the closure SO FAR, and only then do its own resources join the closure.  The statement
    that adds a change's resources to the recorded set runs only under the dependency test's yes.  Outside of it, an
    unrelated change pollutes the set and drags still later changes on ITS resources along: undo(#0) of `edit a, edit b,
    edit b` would also undo the third."""
    from ..cfg import CFG
    from . import common
    idx = ctx.idx
    f = idx.need_func("rope.base.history._FindChangeDependencies.__call__")
    keep = tuple(m for m in (f.cls.methods if f.cls else {}) if m.lstrip("_").startswith("depends"))  # the test itself stays a call
    node = common.inline_private_calls(idx, f, keep=keep)
    cfg = CFG(node)
    n = 0
    for nd in cfg.nodes:
        if nd.kind != "stmt" or nd.ast is None:
            continue
        ups = [c for c in calls_in(nd.ast) if isinstance(c.func, ast.Attribute) and c.func.attr in ("update", "add", "__ior__") and is_self_attr(c.func.value)
               and "resource" in c.func.value.attr]
        if isinstance(nd.ast, ast.AugAssign) and is_self_attr(nd.ast.target) and "resource" in nd.ast.target.attr:
            ups.append(nd.ast)
        if not ups or not cfg.loop_guards(nd.id):
            continue
        n += 1
        ok = any(pol and any(isinstance(c, ast.Call) and (call_name(c) or "").lstrip("_").startswith("depends") for c in ast.walk(t)) for t, pol in cfg.guards(nd.id))
        res.add("R11.14", f"_FindChangeDependencies.__call__|closure-grows-with-dependents-only#{n}", ok, f"{f.unit.rel}:{nd.lineno}",
                "a change's resources join the closure only when the change was found dependent" if ok else
                f"`{ast.unparse(nd.ast)[:70]}` runs for EVERY later change, dependent or not: after `edit a.txt (#0), edit b.txt (#1), edit b.txt (#2)`, undo(#0) takes "
                "#2 along because #1 put b.txt into the set -- b.txt ends with #1's content and #2 sits in the redo list", function=f.qualname)
    res.floor("R11.14", "updates of the recorded resource set inside the pass", n, 1)


def _move_does_not_overwrite_rule(ctx, res) -> None:
    """R11.16: undo of a move is the move back -- the exact inverse only if the destination was FREE: `shutil.move` / `os.rename` replace an
    existing file silently, and moving back does not bring it back.  Like the creation of a resource (which refuses "Resource <...> already
    exists"), the move operation of the change layer tests that nothing is at the destination before it touches the disk."""
    idx = ctx.idx
    ops = idx.need_class("rope.base.change._ResourceOperations")
    mv = ops.methods.get("move")
    if mv is None:
        raise AnalysisError("anchor=_ResourceOperations.move missing")
    node = common.inline_private_calls(idx, mv, keep=tuple(__import__("sa.rules.c13", fromlist=["x"])._command_sources(ops)[1]))
    cfg = CFG(node)
    ps = mv.call_params()
    n = 0
    for nd in cfg.nodes:
        if nd.ast is None or nd.kind not in ("stmt", "test"):
            continue
        for c in calls_in(nd.ast):
            if not (isinstance(c.func, ast.Attribute) and c.func.attr == "move" and len(c.args) == 2 and not is_self_attr(c.func)):
                continue
            n += 1
            tested = any(any(isinstance(y, ast.Call) and call_name(y) in ("exists", "lexists", "isfile", "isdir") and len(ps) > 1 and any(
                isinstance(z, ast.Name) and z.id == ps[1] for z in ast.walk(y)) for y in ast.walk(t)) for t, pol in common.plain_guards(cfg, nd.id))
            res.add("R11.16", f"_ResourceOperations.move|destination-is-free#{n}", tested, f"{mv.unit.rel}:{c.lineno}",
                    "the move is performed only after a test that nothing is at the destination" if tested else
                    f"`{ast.unparse(c)[:70]}` is performed without a test that the destination is free: `x.py` moved onto an existing `y.py` replaces it silently, the change is recorded, and "
                    "undo() moves the file back -- `y.py` is gone for good (also through Rename of a module to the name of an existing one)", function=mv.qualname)
    res.floor("R11.16", "file-system moves of the change layer", n, 1)
