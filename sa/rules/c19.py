"""C19 -- pattern matching and restructuring (clauses R19.1-R19.15)."""
from __future__ import annotations

import ast
from typing import List, Optional, Set, Tuple

from ..cfg import CFG
from ..core import AnalysisError, call_name, calls_in, dotted, is_self_attr, norm, walk_local, param_names

EXPLANATION = (
    "R19.1: every yield of RawSimilarFinder.get_matches is guarded (edge-dominance in the CFG, compound tests "
    "decomposed) by start <= match_start and match_end <= end on the region of the yielded match.  R19.2: in the "
    "wildcard matcher the already-bound path returns the structural comparison of the previous binding with the new "
    "node, and the unbound path stores the node before accepting.  R19.3: the matcher enumerates fields with "
    "ast.iter_fields filtering only expr_context, and has a rejecting exit for class, child count, list length, "
    "scalar value and recursive mismatch.  R19.4: in the statement-replacement loop an overlapping match can reach "
    "add_change only through the expression-mode edge, last_end is updated before every add_change, and only in an iteration that reaches add_change (a skipped match does not move the watermark).  R19.5: every accepting path of the default wildcard (or the matcher "
    "before it) crosses an isinstance(node, ast.*) test, so a wildcard is never bound to an empty optional field.  R19.6: no type filter in front of the statement-list scan "
    "excludes a constructor that owns a statement suite in the interpreter's grammar (ExceptHandler, match_case included).  "
    "Completeness of reported matches and meaning-preserving substitution are not decided."
    ' R19.9: the goal is re-indented relative to the START of the match region.'
    ' R19.10: a pattern is reduced to an expression node only when it is exactly one statement.'
)
EXPLANATION += ' R19.13 also requires the elif test to compare the positions of the two ifs.  R19.14: the overlap test runs over matches in source order.'
EXPLANATION += ' R19.13: an elif clause is not offered to the statement matcher.'
EXPLANATION += ' R19.12: a function that remembers its answer under a key reads, in the computation of the remembered value, nothing of its parameters that the key does not contain (followed into the helpers it calls).'
EXPLANATION += " R19.15: in the anchored modules and the shared text utilities no source text is cut with str.splitlines() (it breaks at form feed, \x1c-\x1e, \x85, U+2028/9; rope's and the ast's line numbers count \n only)."
EXPLANATION += " R19.16: per-line indentation operations (blanks put in front of a line, leading blanks stripped or counted) in the refactoring modules run only on lines that do not start inside a string literal (lines taken from the helper that pairs each line with that flag, operation guarded by the flag being off)."
ASSUMPTIONS = ["node.region is exact (rests on C08)"]


def _cmp_pairs(t: ast.AST, pol: bool) -> List[Tuple[str, str, bool]]:
    """(small, big, strict) facts from a comparison test that holds with polarity pol."""
    out = []
    if not isinstance(t, ast.Compare):
        return out
    items = [t.left] + list(t.comparators)
    for a, op, b in zip(items, t.ops, items[1:]):
        if not (isinstance(a, ast.Name) and isinstance(b, ast.Name)):
            continue
        if isinstance(op, ast.LtE):
            out.append((a.id, b.id, False) if pol else (b.id, a.id, True))
        elif isinstance(op, ast.Lt):
            out.append((a.id, b.id, True) if pol else (b.id, a.id, False))
        elif isinstance(op, ast.GtE):
            out.append((b.id, a.id, False) if pol else (a.id, b.id, True))
        elif isinstance(op, ast.Gt):
            out.append((b.id, a.id, True) if pol else (a.id, b.id, False))
    return out


def matcher_rule(ctx, res, rule: str) -> None:
    """Shared with C17 (R17.5): the structural matcher enumerates every field and rejects on every dimension."""
    idx = ctx.idx
    # ---- R19.3
    gc = idx.need_func("rope.refactor.similarfinder._ASTMatcher._get_children")
    comps = [n for n in walk_local(gc.node) if isinstance(n, ast.ListComp)]
    ok = False
    why = "field enumeration is not a comprehension over ast.iter_fields"
    if len(comps) == 1 and len(comps[0].generators) == 1:
        g = comps[0].generators[0]
        src = g.iter
        uses_iter_fields = isinstance(src, ast.Call) and call_name(src) == "iter_fields"
        filters = g.ifs
        only_ctx = len(filters) == 1 and isinstance(filters[0], ast.UnaryOp) and isinstance(filters[0].op, ast.Not) \
            and isinstance(filters[0].operand, ast.Call) and call_name(filters[0].operand) == "isinstance" \
            and (dotted(filters[0].operand.args[1]) or "").endswith("expr_context")
        no_filter = len(filters) == 0
        ok = uses_iter_fields and (only_ctx or no_filter)
        if not uses_iter_fields:
            why = "children are not enumerated with ast.iter_fields (fields may be skipped)"
        elif not ok:
            why = f"children are filtered by more than expr_context: {[ast.unparse(f) for f in filters]}"
    res.add(rule, "_get_children", ok, gc.where,
            "children = all iter_fields values except expr_context" if ok else
            f"_ASTMatcher._get_children: {why}: nodes differing only in a skipped field compare equal")
    mn = idx.need_func("rope.refactor.similarfinder._ASTMatcher._match_nodes")
    dims = {"class": False, "child-count": False, "list-length": False, "scalar": False, "recursive": 0}
    dims["scalar-type"] = False
    nlen = 0

    def make_rejects(cfg):
        def rejects(t, lab) -> bool:
            """the `lab` edge of test t leads straight to `return False`"""
            for b2, l in cfg.succ[t.id]:
                if l == lab:
                    n2 = cfg.nodes[b2]
                    if n2.kind == "stmt" and isinstance(n2.ast, ast.Return) and isinstance(n2.ast.value, ast.Constant) \
                            and n2.ast.value.value is False:
                        return True
            return False
        return rejects

    # the matcher proper, plus every private boolean helper whose falsy answer makes the matcher reject at once
    # (`if not self._helper(...): return False`): a `return False` in such a helper is a rejecting exit of the matcher
    main_cfg = CFG(mn.node)
    main_rejects = make_rejects(main_cfg)
    scan = [(mn, main_cfg)]
    from .common import with_private_helpers
    for h in with_private_helpers(idx, mn, depth=1):
        if h is mn:
            continue
        if any(t.kind == "test" and isinstance(t.ast, ast.Call) and call_name(t.ast) == h.name and main_rejects(t, "false") for t in main_cfg.nodes):
            scan.append((h, CFG(h.node)))
    for fn_, cfg in scan:
        rejects = make_rejects(cfg)
        for t in cfg.nodes:
            if t.kind != "test":
                continue
            s_ = ast.unparse(t.ast)
            if isinstance(t.ast, ast.Compare) and isinstance(t.ast.ops[0], ast.NotEq) and rejects(t, "true"):
                if "__class__" in s_:
                    dims["class"] = True
                elif s_.count("type(") == 2:
                    pass  # scalar type identity, handled below
                elif s_.count("len(") == 2:
                    nlen += 1
                else:
                    dims["scalar"] = True
            if isinstance(t.ast, ast.Call) and call_name(t.ast) == "_match_nodes" and rejects(t, "false"):
                dims["recursive"] += 1
        # scalar fields must be compared by type identity as well as by value (1 == 1.0 == True in Python)
        for t in cfg.nodes:
            if t.kind == "test" and isinstance(t.ast, ast.Compare) and isinstance(t.ast.ops[0], (ast.IsNot, ast.NotEq)) and rejects(t, "true"):
                l, r_ = t.ast.left, t.ast.comparators[0]
                if all(isinstance(x, ast.Call) and call_name(x) == "type" and len(x.args) == 1 for x in (l, r_)) \
                        and "__class__" not in ast.unparse(t.ast):
                    names = {ast.unparse(x.args[0]) for x in (l, r_)}
                    if len(names) == 2 and not any("expected" in n_ or n_ == "node" for n_ in names):
                        dims["scalar-type"] = True
    dims["child-count"] = nlen >= 1
    dims["list-length"] = nlen >= 2
    missing = [k for k, v in dims.items() if not v or (k == "recursive" and v < 2)]
    res.add(rule, "_match_nodes|rejecting-exits", not missing, mn.where,
            "rejecting exits exist for class, child count, list length, scalar type identity, scalar value and both recursive comparisons" if not missing else
            f"_ASTMatcher._match_nodes has no rejecting exit for: {missing} -- structurally different code is reported as a match",
            dims={k: (v if not isinstance(v, bool) else v) for k, v in dims.items()})


def check(ctx, res) -> None:
    _check_main(ctx, res)
    _wildcard_node_rule(ctx, res)
    _suite_owner_rule(ctx, res)
    _pure_filter_rule(ctx, res)
    _paren_preserving_rule(ctx, res)
    _indent_anchor_rule(ctx, res)
    _single_expression_pattern_rule(ctx, res)
    _no_textual_prefilter_rule(ctx, res)
    from .common import memo_key_rule

    memo_key_rule(ctx, res, "R19.12", ("rope.refactor.similarfinder", "rope.refactor.restructure", "rope.refactor.wildcards"))
    _elif_clause_rule(ctx, res)
    _source_order_rule(ctx, res)
    from .common import line_model_rule as _lm

    _lm(ctx, res, "R19.15", ('rope.refactor.similarfinder', 'rope.refactor.restructure', 'rope.refactor.wildcards', 'rope.refactor.patchedast'))
    from .common import string_aware_indent_rule as _si

    _si(ctx, res, "R19.16", sorted(m for m in ctx.idx.units if m.startswith("rope.refactor")))


def _check_main(ctx, res) -> None:
    idx = ctx.idx
    gm = idx.need_func("rope.refactor.similarfinder.RawSimilarFinder.get_matches")
    cfg = CFG(gm.node)
    ps = param_names(gm.node)
    if "start" not in ps or "end" not in ps:
        raise AnalysisError("anchor=get_matches(start, end) parameters not found")
    yields = [n for n in cfg.nodes if n.kind == "stmt" and any(isinstance(x, (ast.Yield, ast.YieldFrom)) for x in [n.ast, *walk_local(n.ast)])]
    if not yields:
        raise AnalysisError("anchor=get_matches has no yield")
    # region variables of the yielded match
    for y in yields:
        yexpr = next(x for x in [y.ast, *walk_local(y.ast)] if isinstance(x, (ast.Yield, ast.YieldFrom)))
        if isinstance(yexpr, ast.YieldFrom) or not isinstance(yexpr.value, ast.Name):
            res.fail("R19.1", "get_matches|yield", f"{gm.unit.rel}:{y.lineno}",
                     "matches are yielded wholesale (yield from / non-name) without a per-match region test: matches outside the requested region are reported")
            continue
        mv = yexpr.value.id
        lo = hi = None
        for n in walk_local(gm.node):
            if isinstance(n, ast.Assign) and isinstance(n.targets[0], ast.Tuple) and len(n.targets[0].elts) == 2 \
                    and isinstance(n.value, ast.Call) and call_name(n.value) == "get_region" \
                    and isinstance(n.value.func.value, ast.Name) and n.value.func.value.id == mv:
                lo, hi = (e.id for e in n.targets[0].elts)
        if lo is None:
            res.undecided("R19.1", "get_matches|yield", f"{gm.unit.rel}:{y.lineno}", "region of the yielded match is not unpacked from get_region()")
            continue
        facts = [f for t, pol in cfg.guards(y.id) for f in _cmp_pairs(t, pol)]
        ok_lo = any(a == "start" and b == lo for a, b, _ in facts)
        ok_hi = any(a == hi and b == "end" for a, b, _ in facts)
        res.add("R19.1", "get_matches|yield", ok_lo and ok_hi, f"{gm.unit.rel}:{y.lineno}",
                "every yielded match satisfies start <= match_start and match_end <= end" if ok_lo and ok_hi else
                "a match can be yielded without " + ("the lower-bound test start <= match_start" if not ok_lo else "the upper-bound test match_end <= end")
                + ": matches outside the requested region are reported (and replaced by restructure / extract-similar)",
                guards=[ast.unparse(t) + f"=={p}" for t, p in cfg.guards(y.id)])

    # ---- R19.2
    mw = idx.need_func("rope.refactor.similarfinder._ASTMatcher._match_wildcard")
    cfg = CFG(mw.node)
    wp = param_names(mw.node)  # self, node1, node2, mapping
    if len(wp) < 4:
        raise AnalysisError("anchor=_match_wildcard(node1, node2, mapping) signature changed")
    node2, mapping = wp[2], wp[3]
    n_bound = n_unbound = 0
    bad = []
    for n in cfg.nodes:
        if n.kind != "stmt" or not isinstance(n.ast, ast.Return):
            continue
        bound = None
        for t, pol in cfg.guards(n.id):
            if isinstance(t, ast.Compare) and isinstance(t.comparators[0], ast.Name) and t.comparators[0].id == mapping:
                if isinstance(t.ops[0], ast.NotIn):
                    bound = not pol
                elif isinstance(t.ops[0], ast.In):
                    bound = pol
        v = n.ast.value
        if bound is True:
            n_bound += 1
            good = isinstance(v, ast.Call) and call_name(v) == "_match_nodes" and len(v.args) >= 2 \
                and isinstance(v.args[0], ast.Subscript) and isinstance(v.args[0].value, ast.Name) and v.args[0].value.id == mapping \
                and isinstance(v.args[1], ast.Name) and v.args[1].id == node2
            if not good:
                bad.append((n, "the already-bound path does not return the structural comparison of the previous binding with the new node"))
        elif bound is False:
            n_unbound += 1
            if isinstance(v, ast.Constant) and v.value is True:
                is_store = lambda m: m.kind == "stmt" and isinstance(m.ast, ast.Assign) and isinstance(m.ast.targets[0], ast.Subscript) \
                    and isinstance(m.ast.targets[0].value, ast.Name) and m.ast.targets[0].value.id == mapping \
                    and isinstance(m.ast.value, ast.Name) and m.ast.value.id == node2
                if not cfg.must_pass_through(cfg.entry.id, n.id, is_store):
                    bad.append((n, "the unbound path accepts without recording the binding"))
                if not any(isinstance(t, ast.Call) and pol for t, pol in cfg.guards(n.id)):
                    bad.append((n, "the unbound path accepts without consulting the wildcard's match callback"))
        else:
            bad.append((n, "a return is not classified by a 'name in mapping' test"))
    ok = not bad and n_bound >= 1 and n_unbound >= 1
    res.add("R19.2", "_match_wildcard", ok, mw.where,
            "bound wildcard: structural comparison with the previous binding; unbound: binding stored before accepting" if ok else
            f"_match_wildcard line {bad[0][0].lineno if bad else mw.node.lineno}: {bad[0][1] if bad else 'bound/unbound paths not found'} "
            "-- equal wildcards may then bind different code")

    matcher_rule(ctx, res, "R19.3")
    # the generic 'return expected == node' for non-AST values and final accept
    # ---- R19.4
    gch = idx.need_func("rope.refactor.restructure._ChangeComputer.get_changed")
    from . import common as _common
    cfg = CFG(_common.inline_private_calls(idx, gch, keep=("_is_expression",)))  # (a branch of the method may live in a private step)
    adds = [n for n in cfg.nodes if n.kind == "stmt" and any(call_name(c) == "add_change" for c in calls_in(n.ast))]
    if not adds:
        raise AnalysisError("anchor=_ChangeComputer.get_changed add_change call not found")
    for a in adds:
        loops = [l for l in cfg.nodes if l.kind == "loop" and any(x is a.ast for s in l.ast.body for x in ast.walk(s))]
        if not loops:
            res.undecided("R19.4", "get_changed|add_change", f"{gch.unit.rel}:{a.lineno}", "add_change is not inside a loop over matches")
            continue
        head = loops[-1]
        # the region of the current match: S, E = match.get_region()
        S = E = None
        for x in walk_local(head.ast):
            if isinstance(x, ast.Assign) and isinstance(x.targets[0], ast.Tuple) and len(x.targets[0].elts) == 2 \
                    and isinstance(x.value, ast.Call) and call_name(x.value) == "get_region":
                S, E = (e.id for e in x.targets[0].elts)
        if S is None:
            res.undecided("R19.4", "get_changed|add_change", f"{gch.unit.rel}:{a.lineno}", "region of the match is not unpacked from get_region()")
            continue
        # the watermark variable: assigned from E inside the loop
        marks = {x.targets[0].id for x in walk_local(head.ast) if isinstance(x, ast.Assign) and isinstance(x.targets[0], ast.Name)
                 and isinstance(x.value, ast.Name) and x.value.id == E}
        overlap = [t for t in cfg.nodes if t.kind == "test" and any(sm == S and bg in marks for sm, bg, _ in _cmp_pairs(t.ast, True))]
        if not overlap:
            res.fail("R19.4", "get_changed|add_change", f"{gch.unit.rel}:{a.lineno}",
                     "no overlap test (match start < end of the last replaced match) before add_change: overlapping statement matches are both replaced and ChangeCollector garbles the text")
            continue
        t = overlap[0]
        avoid = [(t.id, b, l) for b, l in cfg.succ[t.id] if l == "false"]
        for e in cfg.nodes:
            if e.kind == "test" and isinstance(e.ast, ast.Call) and call_name(e.ast) == "_is_expression":
                avoid += [(e.id, b, l) for b, l in cfg.succ[e.id] if l == "true"]
        body_entry = [b for b, l in cfg.succ[head.id] if l == "true"]
        reach = cfg.reachable(body_entry[0], avoid_edges=avoid, avoid_nodes=[head.id]) if body_entry else set()
        ok = a.id not in reach
        upd = lambda n: n.kind == "stmt" and isinstance(n.ast, ast.Assign) and isinstance(n.ast.targets[0], ast.Name) \
            and n.ast.targets[0].id in marks and isinstance(n.ast.value, ast.Name) and n.ast.value.id == E
        ok2 = bool(body_entry) and cfg.must_pass_through(body_entry[0], a.id, upd)
        # the watermark is the end of the last REPLACED match: an update on a path of the iteration that does not replace
        # the match (the skipped, overlapping one) moves it past a match that overlaps nothing that was rewritten
        for u in [n for n in cfg.nodes if upd(n)]:
            after = cfg.reachable(u.id, avoid_nodes=[a.id])
            skips = head.id in after and u.id != a.id
            before = bool(body_entry) and cfg.must_pass_through(body_entry[0], u.id, lambda n: n.id == a.id)
            res.add("R19.4", "get_changed|watermark-only-for-replaced", not skips or before, f"{gch.unit.rel}:{u.lineno}",
                    "the watermark is advanced only in an iteration that replaces the match" if not skips or before else
                    f"`{ast.unparse(u.ast)}` also runs in an iteration that skips the match: a skipped (overlapping) match moves the watermark, and the next match, which overlaps "
                    "nothing that was rewritten, is left unreplaced", function=gch.qualname)
        res.add("R19.4", "get_changed|add_change", ok and ok2, f"{gch.unit.rel}:{a.lineno}",
                "an overlapping statement match is skipped before add_change and last_end is advanced for every replaced match" if ok and ok2 else
                ("an overlapping statement match (start < last_end) can still reach add_change" if not ok else
                 "last_end is not advanced to the end of every replaced match") + ": overlapping replacements corrupt the rewritten text")


def _wildcard_node_rule(ctx, res) -> None:
    """R19.5: a wildcard is bound to CODE.  The matcher hands the wildcard whatever sits in the corresponding field of
    the candidate, which for optional fields is None; somewhere on the chain matcher -> callback -> wildcard every
    accepting path must have tested that the candidate is a syntax node (isinstance against an ast class)."""
    idx = ctx.idx
    wc = idx.need_class("rope.refactor.wildcards.DefaultWildcard")
    m = wc.methods.get("matches")
    if m is None:
        raise AnalysisError("anchor=DefaultWildcard.matches missing")

    def node_vars(fn) -> Set[str]:
        """names (normalised expressions) that denote the candidate node inside fn"""
        out = set()
        for x in ast.walk(fn):
            if isinstance(x, ast.Attribute) and x.attr == "node" and isinstance(x.value, ast.Name):
                out.add(norm(x))
        for x in walk_local(fn):
            if isinstance(x, ast.Assign) and isinstance(x.value, ast.Attribute) and x.value.attr == "node" and isinstance(x.targets[0], ast.Name):
                out.add(norm(ast.Name(id=x.targets[0].id, ctx=ast.Load())))
        return out

    def is_node_test(t: ast.AST, nv: Set[str]) -> bool:
        return isinstance(t, ast.Call) and call_name(t) == "isinstance" and len(t.args) == 2 and norm(t.args[0]) in nv and \
            any((dotted(e) or "").startswith("ast.") for e in (t.args[1].elts if isinstance(t.args[1], ast.Tuple) else [t.args[1]]))

    def accepting_paths_tested(fn) -> Tuple[bool, Optional[ast.AST]]:
        """every CFG path from the entry to an accepting return crosses the true edge of a node test"""
        cfg = CFG(fn.node)
        nv = node_vars(fn.node)
        passed = [(nd.id, dst, lab) for nd in cfg.nodes if nd.kind == "test" and nd.ast is not None and is_node_test(nd.ast, nv)
                  for dst, lab in cfg.succ[nd.id] if lab == "true"]
        free = cfg.reachable(cfg.entry.id, avoid_edges=passed)
        for nd in cfg.nodes:
            if nd.kind != "stmt" or not isinstance(nd.ast, ast.Return) or nd.ast.value is None:
                continue
            v = nd.ast.value
            if isinstance(v, ast.Constant) and not v.value:
                continue
            conj = list(v.values) if isinstance(v, ast.BoolOp) and isinstance(v.op, ast.And) else [v]
            if any(is_node_test(t, nv) for t in conj):
                continue
            if nd.id in free:
                return False, nd.ast
        return True, None

    # which helper predicates must hold for matches() to accept
    cfg = CFG(m.node)
    required = set()
    for nd in cfg.nodes:
        if nd.kind == "stmt" and isinstance(nd.ast, ast.Return) and isinstance(nd.ast.value, ast.Constant) and nd.ast.value.value is True:
            for t, pol in cfg.guards(nd.id):
                if pol and isinstance(t, ast.Call) and is_self_attr(t.func) and t.func.attr in wc.methods:
                    required.add(t.func.attr)
    ok, bad_at = accepting_paths_tested(m)
    via = None
    if not ok:
        for h in sorted(required):
            ok_h, bad_h = accepting_paths_tested(wc.methods[h])
            if ok_h:
                ok, via = True, h
                break
            bad_at = bad_h or bad_at
    if not ok:
        # the matcher itself may do it
        mw = idx.need_func("rope.refactor.similarfinder._ASTMatcher._match_wildcard")
        p2 = param_names(mw.node)[2] if len(param_names(mw.node)) > 2 else None
        mcfg = CFG(mw.node)
        for nd in mcfg.nodes:
            if nd.kind == "stmt" and isinstance(nd.ast, ast.Assign) and isinstance(nd.ast.targets[0], ast.Subscript):
                if any(pol and isinstance(t, ast.Call) and call_name(t) == "isinstance" and t.args and isinstance(t.args[0], ast.Name) and t.args[0].id == p2
                       for t, pol in mcfg.guards(nd.id)):
                    ok, via = True, "_match_wildcard"
    res.add("R19.5", "DefaultWildcard|binds-nodes-only", ok, m.where if ok else f"{wc.unit.rel}:{getattr(bad_at, 'lineno', m.node.lineno)}",
            f"every accepting path tests that the candidate is a syntax node (in {via or 'matches'})" if ok else
            "the default wildcard accepts a candidate without testing that it is a syntax node (a path returns True with no isinstance(node, ast.*) "
            "test on it, here or in the matcher): for an optional field left empty in the code (bare `return`, `a[:]`, `assert c`) the wildcard is bound to "
            "None and a non-instance is reported as a match", function=m.qualname, required=sorted(required))


def _suite_owner_rule(ctx, res) -> None:
    """R19.6: "every instance in the region is reported" needs the statement matcher to slide over EVERY statement
    suite.  Suites belong to the constructors with a `stmt*` field in the interpreter's grammar -- among them
    ExceptHandler and match_case, which are neither `stmt` nor `mod`.  Any isinstance filter in front of the scan over a
    node's list fields must admit every one of them (decided with the real class hierarchy of the running `ast`)."""
    import ast as _ast
    from ..grammar import G

    idx = ctx.idx
    f = idx.need_func("rope.refactor.similarfinder._ASTMatcher._check_statements")
    owners = sorted({c for c, _ in G.stmt_list_fields()})
    from . import common as _common
    cfg = CFG(_common.inlined(idx, f))  # the scan may be a private generator the method iterates over: read in place
    scans = [nd for nd in cfg.nodes if nd.kind == "loop" and isinstance(nd.ast, ast.For) and any(
        isinstance(c, ast.Call) and call_name(c) == "iter_fields" for c in ast.walk(nd.ast.iter))]
    if not scans:
        raise AnalysisError("anchor=_ASTMatcher._check_statements: loop over ast.iter_fields(node) not found")
    p = param_names(f.node)[1]
    for k, nd in enumerate(scans, 1):
        missing: Set[str] = set()
        filt = None
        for t, pol in cfg.guards(nd.id):
            if isinstance(t, ast.Call) and call_name(t) == "isinstance" and len(t.args) == 2 and isinstance(t.args[0], ast.Name) and t.args[0].id == p:
                ks = t.args[1].elts if isinstance(t.args[1], ast.Tuple) else [t.args[1]]
                classes = tuple(getattr(_ast, (e.attr if isinstance(e, ast.Attribute) else getattr(e, "id", "")), None) for e in ks)
                if any(c is None for c in classes):
                    res.undecided("R19.6", f"_check_statements|suite-owners#{k}", f"{f.unit.rel}:{t.lineno}", f"filter classes not resolved: {ast.unparse(t)}")
                    filt = "unresolved"
                    break
                filt = t
                for o in owners:
                    admitted = issubclass(getattr(_ast, o), classes)
                    if admitted != pol:
                        missing.add(o)
        if filt == "unresolved":
            continue
        res.add("R19.6", f"_check_statements|suite-owners#{k}", not missing, f"{f.unit.rel}:{nd.lineno}",
                f"the scan over list fields runs for all {len(owners)} constructors that own a statement suite" if not missing else
                f"_check_statements scans the list fields of a node only when `{ast.unparse(filt)}`, which excludes {sorted(missing)}: statement patterns "
                "are never matched inside those suites (except-handler and case bodies), so instances there are not reported and not rewritten",
                function=f.qualname, owners=owners)


def _pure_filter_rule(ctx, res) -> None:
    """R19.7: the matcher collects matches in AST-walk order (statement lists before nested suites, ast field order for
    conditional expressions / dict displays), which is not source order.  The region restriction in get_matches is
    therefore a pure filter over ALL matches: its loop has no break and no return that could cut the scan short."""
    idx = ctx.idx
    gm = idx.need_func("rope.refactor.similarfinder.RawSimilarFinder.get_matches")
    loops = [x for x in walk_local(gm.node) if isinstance(x, ast.For)]
    if not loops:
        raise AnalysisError("anchor=RawSimilarFinder.get_matches: loop over the matches not found")
    for k, lp in enumerate(loops, 1):
        cut = [x for s_ in lp.body for x in [s_, *walk_local(s_)] if isinstance(x, (ast.Break, ast.Return))]
        res.add("R19.7", f"get_matches|pure-filter#{k}", not cut, f"{gm.unit.rel}:{(cut[0] if cut else lp).lineno}",
                "every collected match is tested against the region" if not cut else
                f"get_matches leaves the loop over the collected matches early (`{ast.unparse(cut[0])}` at line {cut[0].lineno}): the matches are in AST-walk "
                "order, not source order, so instances inside the requested region that come later in the list are not reported",
                function=gm.qualname)


def _paren_preserving_rule(ctx, res) -> None:
    """R19.8: "the bound code is inserted so that it keeps its meaning".  Regions of the patched AST exclude the
    parentheses an expression is written in, so the text bound to a wildcard must pass through a step that can restore
    them before it is substituted into the goal: what is stored into the substitution mapping is the result of a helper
    whose body produces '(' and ')' around its argument -- never the bare node text."""
    idx = ctx.idx
    f = idx.need_func("rope.refactor.restructure._ChangeComputer._get_matched_text")
    from .common import with_private_helpers
    stores = [x for g in with_private_helpers(idx, f) for x in walk_local(g.node)  # the mapping may be built in a private helper
              if isinstance(x, ast.Assign) and any(isinstance(t, ast.Subscript) for t in x.targets)
              and any(isinstance(c, ast.Call) and call_name(c) == "_get_node_text" for c in ast.walk(x.value))]
    def restores_parens(fn) -> bool:
        consts = {y.value for y in ast.walk(fn.node) if isinstance(y, ast.Constant) and isinstance(y.value, str)}
        return "(" in consts and ")" in consts

    values = {}
    if not stores and f.cls is not None:
        # the text bound to one name may be computed by a private step (`mapping[name] = self._get_bound_text(match, name)`): read it in
        # place, keeping as calls the node-text reader and the helpers that can give parentheses back
        from .common import inline_private_calls, _subst_single_locals
        keep = tuple(n_ for n_, m_ in f.cls.methods.items() if n_ == "_get_node_text" or restores_parens(m_))
        fnode = inline_private_calls(idx, f, keep=keep)
        for x in walk_local(fnode):
            if isinstance(x, ast.Assign) and any(isinstance(t, ast.Subscript) for t in x.targets):
                v = _subst_single_locals(fnode, x.value)
                if any(isinstance(c, ast.Call) and call_name(c) == "_get_node_text" for c in ast.walk(v)):
                    stores.append(x)
                    values[id(x)] = v
    if not stores:
        raise AnalysisError("anchor=_ChangeComputer._get_matched_text: store of the bound text into the mapping not found")

    for k, st in enumerate(stores, 1):
        v = values.get(id(st), st.value)
        ok = False
        if isinstance(v, ast.Call) and call_name(v) != "_get_node_text" and is_self_attr(v.func) and f.cls is not None:
            h = idx.find_method(f.cls.qualname, v.func.attr)
            ok = h is not None and restores_parens(h)
        if ok:
            # the parentheses may stand on other lines than the expression (`(\n    a + b\n) * c`): the text looked at before the
            # node reaches back to the start of the source and the text after it on to its end -- blanks AND line breaks are skipped
            for j, sub in enumerate([x for x in walk_local(h.node) if isinstance(x, ast.Subscript) and isinstance(x.slice, ast.Slice) and is_self_attr(x.value)], 1):
                if sub.slice.lower is not None and sub.slice.upper is not None:
                    res.fail("R19.8", f"{h.name}|parentheses-are-looked-for-across-lines#{k}.{j}", f"{h.unit.rel}:{sub.lineno}",
                             f"`{ast.unparse(sub)[:70]}` bounds the search for the enclosing parenthesis (to the node's own line): in `return (\\n    a + b\\n) * c` the `(` stands on the "
                             "line above and the `)` on the line below, they are not seen, and `${x} * ${y}` -> `${y} * ${x}` gives `c * a + b`", function=h.qualname)
        if ok:
            # once the helper has SEEN the parentheses around the node, every way out gives them back: keeping a pair too many is harmless, dropping
            # the pair of `not(a or b)` because its `(` "looks like a call" changes what the goal means
            hcfg = CFG(h.node)
            reported = set()
            for t in hcfg.nodes:
                if t.kind != "test" or not any(isinstance(c, ast.Call) and call_name(c) in ("endswith", "startswith") and c.args and isinstance(c.args[0], ast.Constant)
                                               and c.args[0].value in ("(", ")") for c in ast.walk(t.ast)):
                    continue
                for b, lab in hcfg.succ[t.id]:
                    if lab != "true":
                        continue
                    seen_nodes = hcfg.reachable(b)
                    # only when this edge means "both parentheses seen": the last test of the conjunction
                    for r in [x for x in hcfg.nodes if x.id in seen_nodes and x.kind == "stmt" and isinstance(x.ast, ast.Return) and x.ast.value is not None]:
                        gs = hcfg.guards(r.id)
                        both = any(pol and any(isinstance(c, ast.Call) and call_name(c) == "endswith" for c in ast.walk(g)) for g, pol in gs) and \
                            any(pol and any(isinstance(c, ast.Call) and call_name(c) == "startswith" for c in ast.walk(g)) for g, pol in gs)
                        consts = {y.value for y in ast.walk(r.ast.value) if isinstance(y, ast.Constant) and isinstance(y.value, str)}
                        if both and not {"(", ")"} <= consts and r.id not in reported:
                            reported.add(r.id)
                            res.fail("R19.8", f"{h.name}|parentheses-seen-are-given-back#{k}.{len(reported)}", f"{h.unit.rel}:{r.lineno}",
                                     f"`{ast.unparse(r.ast)[:50]}` hands the bound text back bare although the node was found written in parentheses: `not(a or b)` restructured with "
                                     "`not ${x}` -> `not ${x}` becomes `not a or b` (a `(` glued to a keyword passes for a call parenthesis), and the only argument of a call moved "
                                     "next to an operator loses its grouping (`abs(a - b)` -> `max(a - b, -a - b)`)", function=h.qualname)
        res.add("R19.8", f"_get_matched_text|bound-text#{k}", ok, f"{f.unit.rel}:{st.lineno}",
                "the bound text passes through a parenthesis-restoring step before substitution" if ok else
                "the text bound to a wildcard is substituted into the goal as the bare node region: `(a + b) * c` restructured with `${x} * ${y}` -> "
                "`${y} * ${x}` becomes `c * a + b` (the region of `a + b` does not contain its parentheses)", function=f.qualname)


def _indent_anchor_rule(ctx, res) -> None:
    """R19.9: continuation lines of a multi-line goal are indented like the line where the match STARTS (that line's
    indentation is what the first line of the replacement inherits).  The offset handed to the re-indenting helper is
    therefore the start component of the match region."""
    from .common import pair_component
    idx = ctx.idx
    f = idx.need_func("rope.refactor.restructure._ChangeComputer._get_matched_text")
    calls = [c for c in calls_in(f.node) if call_name(c) == "_auto_indent" and c.args]
    if not calls:
        raise AnalysisError("anchor=_ChangeComputer._get_matched_text: call of _auto_indent not found")
    for k, c in enumerate(calls, 1):
        comp = pair_component(f.node, c.args[0], {"get_region"})
        if comp is None:
            res.undecided("R19.9", f"_get_matched_text|indent-anchor#{k}", f"{f.unit.rel}:{c.lineno}", f"`{ast.unparse(c.args[0])}` is not a component of the match region")
            continue
        res.add("R19.9", f"_get_matched_text|indent-anchor#{k}", comp == 0, f"{f.unit.rel}:{c.lineno}",
                "the replacement is re-indented relative to the line where the match starts" if comp == 0 else
                f"the replacement is re-indented relative to `{ast.unparse(c.args[0])}`, the END of the match: when the match spans several lines whose last line "
                "is indented differently from the first (an if/else, a call with a continuation line) the continuation lines of the goal get the wrong "
                "indentation and the result does not parse", function=f.qualname)


def _single_expression_pattern_rule(ctx, res) -> None:
    """R19.10: a pattern is searched as ONE expression node only when it consists of exactly one statement, and that
    statement is an expression statement.  Reducing `${f}(${x})` + newline + `${y} = len(${x})` to its first expression makes
    every call a match, reports regions of one statement, and leaves the wildcards of the other statements unbound."""
    idx = ctx.idx
    f = idx.need_func("rope.refactor.similarfinder.RawSimilarFinder._create_pattern")
    cfg = CFG(f.node)
    n = 0
    for nd in cfg.nodes:
        if nd.kind != "stmt" or not isinstance(nd.ast, (ast.Return, ast.Assign)) or nd.ast.value is None:
            continue
        v = nd.ast.value
        if not (isinstance(v, ast.Attribute) and v.attr == "value" and isinstance(v.value, ast.Subscript) and not isinstance(v.value.slice, ast.Slice)):
            continue
        n += 1
        lst = ast.unparse(v.value.value)

        def exactly_one(t, pol) -> bool:
            if isinstance(t, ast.Compare) and len(t.ops) == 1 and isinstance(t.left, ast.Call) and call_name(t.left) == "len" \
                    and t.left.args and ast.unparse(t.left.args[0]) == lst and isinstance(t.comparators[0], ast.Constant):
                return (isinstance(t.ops[0], ast.Eq) and t.comparators[0].value == 1 and pol) or \
                    (isinstance(t.ops[0], ast.NotEq) and t.comparators[0].value == 1 and not pol)
            return False

        ok = any(exactly_one(t, pol) for t, pol in cfg.guards(nd.id))
        res.add("R19.10", f"_create_pattern|single-statement#{n}", ok, f"{f.unit.rel}:{nd.lineno}",
                "the pattern is reduced to an expression node only when it is exactly one statement" if ok else
                f"the pattern is reduced to `{ast.unparse(v)}` without the test that it has exactly ONE statement: a pattern of several statements that begins "
                "with an expression statement is searched as that first expression alone -- non-instances are reported, regions cover one statement, and the "
                "wildcards of the remaining statements stay unbound", function=f.qualname)
    res.floor("R19.10", "reductions of a pattern to an expression node", n, 1)


def _no_textual_prefilter_rule(ctx, res) -> None:
    """R19.11: matching is done on the syntax tree, so an instance need not SPELL the pattern: `elif` matches `else:` + `if`,
    `'ab'` matches `"a" "b"`, comments differ.  In the per-resource loop of a restructuring no resource is skipped (and
    nothing else is decided) on a containment test against the resource's text; only the result of the tree search counts."""
    idx = ctx.idx
    f = idx.need_func("rope.refactor.restructure.Restructure.get_changes")
    from . import common

    node = common.inlined(idx, f)
    cfg = CFG(node)
    texts = {t.id for x in walk_local(node) if isinstance(x, ast.Assign) and isinstance(x.value, ast.Call)
             and (call_name(x.value) in ("read", "read_bytes") or (isinstance(x.value.func, ast.Attribute) and x.value.func.attr == "source_code"))
             for t in x.targets if isinstance(t, ast.Name)}
    texts |= {t.id for x in walk_local(node) if isinstance(x, ast.Assign) and isinstance(x.value, ast.Attribute) and x.value.attr == "source_code"
              for t in x.targets if isinstance(t, ast.Name)}

    def textual(t) -> bool:
        for y in ast.walk(t):
            if isinstance(y, ast.Compare) and len(y.ops) == 1 and isinstance(y.ops[0], (ast.In, ast.NotIn)):
                r = y.comparators[0]
                if (isinstance(r, ast.Name) and r.id in texts) or (isinstance(r, ast.Attribute) and r.attr == "source_code") \
                        or (isinstance(r, ast.Call) and call_name(r) == "read"):
                    return True
        return False

    loops = [l for l in walk_local(node) if isinstance(l, ast.For) and any(call_name(c) in ("get_pymodule", "_compute_changes") for c in calls_in(l))]
    if not loops:
        raise AnalysisError("anchor=Restructure.get_changes: per-resource loop not found")
    bad = None
    for nd in cfg.nodes:
        if nd.kind == "test" and nd.ast is not None and textual(nd.ast) and any(
                any(y is nd.ast for y in ast.walk(l)) or True for l in loops if any(y is nd.ast for y in ast.walk(l))):
            bad = nd
    res.add("R19.11", "Restructure.get_changes|tree-search-for-every-resource", bad is None, f"{f.unit.rel}:{(bad or cfg.entry).lineno if bad else loops[0].lineno}",
            "no resource is skipped on a test against its text" if bad is None else
            f"`{ast.unparse(bad.ast)}` decides on the TEXT of the resource whether it is searched at all: an instance that does not spell the pattern's words "
            "(`else:` + `if` for `elif`, an implicitly concatenated string, different comments) is found by the tree matcher but its file is skipped, so "
            "the restructuring silently leaves it unchanged", function=f.qualname)


def _elif_clause_rule(ctx, res) -> None:
    """R19.13: every match must be a genuine instance.  The statement matcher offers every list-valued field of every node to
    the pattern.  One such list is not a list of free-standing statements: the `orelse` of an `If` that holds a single `If`
    spelled `elif` -- its source starts with `elif`, its region is the clause, and replacing the region with the goal
    text turns the clause into a second `if`.  On the way from the field loop to the list matcher there is a test that
    looks at the field name `orelse` and at the kind of the single element (`isinstance(<list>[0], ast.If)`, helpers read
    in place)."""
    from . import common
    idx = ctx.idx
    f = idx.need_func("rope.refactor.similarfinder._ASTMatcher._check_statements")
    node = common.inlined(idx, f)
    cfg = CFG(node)
    cls = f.cls
    n = 0
    for nd in cfg.nodes:
        if nd.kind not in ("stmt", "test") or nd.ast is None:
            continue
        # the list matcher, called -- or, when it was inlined, the statement-sequence match it performs
        calls = [c for c in ([nd.ast] if isinstance(nd.ast, ast.Call) else []) + list(calls_in(nd.ast)) if is_self_attr(c.func) and ("stmt_list" in c.func.attr or c.func.attr == "_match_stmts")]
        if not calls:
            continue
        n += 1

        missing_position = {"v": False}

        def looks_at_elif(t) -> bool:
            texts = [t]
            for c in ast.walk(t):
                m = None
                if isinstance(c, ast.Call) and is_self_attr(c.func) and cls is not None:
                    m = idx.find_method(cls.qualname, c.func.attr)
                elif isinstance(c, ast.Call) and isinstance(c.func, ast.Name):
                    m = idx.functions.get(f"{f.unit.modname}.{c.func.id}")
                if m is not None:
                    texts.append(m.node)
            has_field = any(isinstance(x, ast.Constant) and x.value == "orelse" for tt in texts for x in ast.walk(tt)) or \
                any(isinstance(x, ast.Attribute) and x.attr == "orelse" for tt in texts for x in ast.walk(tt))
            # (`only = orelse[0] ... isinstance(only, ast.If)`: a local bound once is read through)
            owner = lambda tt: tt if isinstance(tt, (ast.FunctionDef, ast.AsyncFunctionDef)) else node
            has_kind = any(isinstance(x, ast.Call) and call_name(x) == "isinstance" and len(x.args) == 2 and (dotted(x.args[1]) or "").split(".")[-1] == "If"
                           and isinstance(common._subst_single_locals(owner(tt), x.args[0]), ast.Subscript) for tt in texts for x in ast.walk(tt))
            # `else:` + a nested `if` has the same tree as `elif`; only the position tells them apart (the elif's If starts in
            # the column of the outer if): without that comparison the statements of an else block that consists of one `if`
            # are never offered to the matcher, and instances there are not found
            has_pos = sum(1 for tt in texts for x in ast.walk(tt) if isinstance(x, ast.Attribute) and x.attr == "col_offset") >= 2
            missing_position["v"] = missing_position["v"] or (has_field and has_kind and not has_pos)
            return has_field and has_kind and has_pos
        # "not (field is orelse and it is an elif clause)" is a disjunction, so it is no single guard of the call: what must
        # hold is that within one round of the field loop the call cannot be reached from the edge on which the test
        # (with the field-name test in front of it or inside it) answered yes
        loops = [x.id for x in cfg.nodes if x.kind == "loop"]
        ok = False
        for t in cfg.nodes:
            if t.kind != "test":
                continue
            combined = looks_at_elif(ast.BoolOp(op=ast.And(), values=[t.ast] + [gt for gt, gp in cfg.guards(t.id) if gp]))
            if not combined:
                continue
            for b, lab in cfg.succ[t.id]:
                if lab == "true" and nd.id not in cfg.reachable(b, avoid_nodes=loops):
                    ok = True
        res.add("R19.13", f"_ASTMatcher._check_statements|elif-clause-is-no-statement-list#{n}", ok, f"{f.unit.rel}:{nd.lineno}",
                "the orelse list that is an elif clause is not offered to the statement matcher" if ok else
                ("the test that skips an `orelse` holding a single If does not compare positions (`col_offset` of the nested If and of the outer one): an `else:` block whose "
                 "only statement is an `if` looks the same and is skipped too -- an instance of the pattern in it is not reported, and a restructuring rewrites its siblings but "
                 "not it") if missing_position["v"] else
                f"`{ast.unparse(calls[0])}` is applied to every list-valued field, also to the `orelse` of an If that holds one If spelled `elif`: the pattern "
                "`if ${c}: ...` matches the clause, the match's region starts at the keyword `elif`, and restructuring writes the goal over it -- `elif b:` becomes "
                "`if b:` and the program takes both branches", function=f.qualname)
    res.floor("R19.13", "applications of the statement-list matcher", n, 1)


def _source_order_rule(ctx, res) -> None:
    """R19.14: the replacement loop drops a statement match whose start lies before the end of the match it handled last
    ("overlapping").  That is a statement about positions only if the matches arrive in SOURCE ORDER.  The finder walks the
    tree node by node and offers each node's statement lists in turn: the matches of a nested block come after those of the
    block around it, whatever their position.  The loop that keeps the watermark therefore iterates over the matches
    sorted by region (or the matches are sorted where they are stored)."""
    from . import common as _common
    idx = ctx.idx
    gch = idx.need_func("rope.refactor.restructure._ChangeComputer.get_changed")
    node = _common.inline_private_calls(idx, gch, keep=("_is_expression",))
    loops = [l for l in walk_local(node) if isinstance(l, ast.For) and any(call_name(c) == "get_region" for c in calls_in(l))
             and any(call_name(c) == "add_change" for c in calls_in(l))]
    if not loops:
        raise AnalysisError("anchor=_ChangeComputer.get_changed: the loop over the matches not found")
    cls = gch.cls
    n = 0
    for lp in loops:
        # only the loop with a watermark matters
        if not any(isinstance(x, ast.Compare) and len(x.ops) == 1 and isinstance(x.ops[0], (ast.Lt, ast.LtE, ast.Gt, ast.GtE)) for st in lp.body for x in ast.walk(st)):
            continue
        n += 1
        it = _common._subst_single_locals(node, lp.iter)
        sorted_here = any(isinstance(c, ast.Call) and call_name(c) == "sorted" for c in ast.walk(it))
        sorted_at_store = False
        if cls is not None:
            for m in cls.methods.values():
                for x in walk_local(m.node):
                    if isinstance(x, ast.Assign) and any(is_self_attr(t, "matches") for t in x.targets) and any(isinstance(c, ast.Call) and call_name(c) == "sorted" for c in ast.walk(x.value)):
                        sorted_at_store = True
                    if isinstance(x, ast.Expr) and isinstance(x.value, ast.Call) and call_name(x.value) == "sort" and isinstance(x.value.func, ast.Attribute) and is_self_attr(x.value.func.value, "matches"):
                        sorted_at_store = True
        ok = sorted_here or sorted_at_store
        res.add("R19.14", f"_ChangeComputer.get_changed|matches-in-source-order#{n}", ok, f"{gch.unit.rel}:{lp.lineno}",
                "the matches are handled in source order, so `start < last_end` means overlap" if ok else
                f"the loop `for ... in {ast.unparse(lp.iter)[:40]}` compares each match with the end of the previous one, but the matches come in the finder's traversal order (a "
                "block's matches before those of the blocks nested in it): a nested instance that lies BEFORE a later top-level instance is taken for an overlap and left "
                "unrewritten, while its siblings are rewritten", function=gch.qualname)
    # (no overlap test at all is R19.4's finding)
    res.analysed["replacement loops with an overlap test:R19.14"] = n
