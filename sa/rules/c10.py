"""C10 -- a composite change is all-or-nothing (structural clauses R10.1-R10.14)."""
from __future__ import annotations

import ast
from typing import Dict, List, Optional, Set

from .. import callgraph
from ..cfg import CFG
from ..core import AnalysisError, call_name, calls_in, dotted, is_self_attr, norm, walk_local, param_names
from . import common

EXPLANATION = (
    "Path rules over the statement CFGs of rope/base/change.py, history.py and the job wrapper, under the "
    "property's own fault model (every call may raise; the task may be stopped at any check_status): "
    "R10.1 rollback handlers iterate the done-list in the reverse of insertion order (parity of insertion x "
    "iteration discipline); R10.2 every path out of a rollback handler re-raises; R10.3 no call between the "
    "fallible sub-change call and its bookkeeping append; R10.4 in the job wrapper no call that can reach an "
    "explicit raise follows the effect unless guarded by a handler invoking the inverse; R10.5 history lists "
    "are not mutated on a path that can still fail in the same iteration; R10.6 current_change is reset on every "
    "exit. Decides these structural necessary conditions, not tree equality after failure."
)
EXPLANATION += " R10.14: inside a rollback handler the inverse operation is taken of the completed sub-changes only (elements of the compensation loop), never of the failing one."
EXPLANATION += " R10.15: every use of a process exit status in rope.base.fscommands decides between returning and raising.  R10.16: in the back ends that run a program, remove can take back what the creation commands made (plain removal for unregistered paths; for git the options of `rm` from a hand-confirmed table)."
ASSUMPTIONS = [
    "fault model: only statements containing a call/raise/assert may raise",
    "atomicity of a single fscommands primitive is outside the model",
    "callee resolution for 'can reach a raise' uses the E2 call graph (exact where typed, by-name with arity otherwise)",
]


def _rollback_tries(fn: ast.AST):
    """try statements whose body appends to a local list inside a loop and
    whose handler iterates that list."""
    out = []
    for t in walk_local(fn):
        if not isinstance(t, ast.Try) or not t.handlers:
            continue
        local_lists = set()
        for n in [x for s in t.body for x in [s, *walk_local(s)]] + list(fn.body):
            if isinstance(n, ast.Assign) and isinstance(n.value, (ast.List, ast.Call)):
                if isinstance(n.value, ast.List) and not n.value.elts or \
                        (isinstance(n.value, ast.Call) and call_name(n.value) in ("list", "deque") and not n.value.args):
                    for tg in n.targets:
                        if isinstance(tg, ast.Name):
                            local_lists.add(tg.id)
        inserts = []
        for loop in [x for s in t.body for x in [s, *walk_local(s)] if isinstance(x, (ast.For, ast.While))]:
            for c in calls_in(loop):
                if isinstance(c.func, ast.Attribute) and isinstance(c.func.value, ast.Name) \
                        and c.func.value.id in local_lists and c.func.attr in ("append", "insert", "appendleft", "extend"):
                    inserts.append((loop, c))
        if not inserts:
            continue
        for h in t.handlers:
            for n in [x for s in h.body for x in [s, *walk_local(s)]]:
                if isinstance(n, (ast.For, ast.While)):
                    src = n.iter if isinstance(n, ast.For) else n.test
                    names = {x.id for x in ast.walk(src) if isinstance(x, ast.Name)}
                    for loop, c in inserts:
                        if c.func.value.id in names:
                            out.append((t, h, loop, c, n))
    return out


def _rollback_tries_indexed(fn: ast.AST):
    """the same discipline kept with a COUNTER: the try body loops over <changes> | reversed(<changes>) and counts the steps completed
    -- the `enumerate` index, or a local incremented by one in the loop -- and a handler loop runs over a slice of <changes>
    bounded by that counter.  -> (try, handler, body loop, None, handler loop)"""
    out = []
    for t in walk_local(fn):
        if not isinstance(t, ast.Try) or not t.handlers:
            continue
        for loop in [x for s_ in t.body for x in [s_, *walk_local(s_)] if isinstance(x, ast.For)]:
            k = _loop_counter(loop)
            if k is None:
                continue
            for h in t.handlers:
                for n in [x for s_ in h.body for x in [s_, *walk_local(s_)]]:
                    if isinstance(n, ast.For) and any(isinstance(y, ast.Name) and y.id == k for y in ast.walk(n.iter)):
                        out.append((t, h, loop, None, n))
    return out


def _loop_counter(loop: ast.For) -> Optional[str]:
    if isinstance(loop.iter, ast.Call) and call_name(loop.iter) == "enumerate" and len(loop.iter.args) == 1 and not loop.iter.keywords \
            and isinstance(loop.target, ast.Tuple) and len(loop.target.elts) == 2 and all(isinstance(e, ast.Name) for e in loop.target.elts):
        return loop.target.elts[0].id
    incs = [st for st in loop.body if isinstance(st, ast.AugAssign) and isinstance(st.op, ast.Add) and isinstance(st.target, ast.Name)
            and isinstance(st.value, ast.Constant) and st.value.value == 1]
    return incs[0].target.id if len(incs) == 1 else None


def _indexed_rollback_verdict(fn: ast.AST, loop: ast.For, hloop: ast.For):
    """(ok | None, reason) for the counter form"""
    from .common import _subst_single_locals
    k = _loop_counter(loop)
    enum = isinstance(loop.iter, ast.Call) and call_name(loop.iter) == "enumerate"
    it = _subst_single_locals(fn, loop.iter.args[0] if enum else loop.iter)
    backward = isinstance(it, ast.Call) and call_name(it) == "reversed" and len(it.args) == 1
    e = ast.unparse(it.args[0] if backward else it)
    # the counter is itself a local bound once (`undone = 0`) when it is the enumerate index: it is not read through
    import copy as _copy
    masked = _copy.deepcopy(hloop.iter)
    for y in ast.walk(masked):
        if isinstance(y, ast.Name) and y.id == k:
            y.id = "__counter__"
    h = ast.unparse(_subst_single_locals(fn, masked)).replace("__counter__", k).replace(" :]", ":]")
    if not enum:
        # the counter counts COMPLETED steps only if it is incremented after the fallible call of the round
        inc = next(st for st in loop.body if isinstance(st, ast.AugAssign) and isinstance(st.target, ast.Name) and st.target.id == k)
        calls_before = [st for st in loop.body[:loop.body.index(inc)] if any(isinstance(c, ast.Call) and isinstance(c.func, ast.Attribute) and c.func.attr in ("do", "undo") for c in ast.walk(st))]
        if not calls_before:
            return False, (f"`{k} += 1` stands before the call it counts: when that call fails the counter already includes it, and the handler compensates a sub-change "
                           "that was never performed")
    neg = any(isinstance(x, ast.Slice) and any(isinstance(b, ast.UnaryOp) and isinstance(b.op, ast.USub) and isinstance(b.operand, ast.Name) and b.operand.id == k
                                               for b in (x.lower, x.upper) if b is not None) for x in ast.walk(hloop.iter))
    if neg:
        return False, (f"the handler iterates `{h}`: `{k}` counts the steps completed and is 0 when the very FIRST step fails, and a slice bound of -0 is 0 -- "
                       f"`{e}[-0:]` is the whole list: every sub-change is compensated although none was touched (a swap of two files done by three moves is applied a second time)")
    if not backward:
        if h == f"reversed({e}[:{k}])":
            return True, f"the first {k} sub-changes, the ones completed, are compensated last-first"
        if h == f"{e}[:{k}]":
            return False, f"the handler iterates `{h}` in the order the sub-changes were applied: they are undone oldest-first"
    else:
        if h == f"{e}[len({e}) - {k}:]":
            return True, f"the last {k} sub-changes, the ones completed, are compensated in their original order"
        if h == f"reversed({e}[len({e}) - {k}:])":
            return False, f"the handler iterates `{h}`: the sub-changes undone last-first are re-applied last-first"
    return None, f"counter form not recognised: body over `{ast.unparse(loop.iter)}`, handler over `{h}`"


def _insert_discipline(c: ast.Call) -> Optional[str]:
    if c.func.attr == "append":
        return "back"
    if c.func.attr == "appendleft":
        return "front"
    if c.func.attr == "insert" and c.args and isinstance(c.args[0], ast.Constant) and c.args[0].value == 0:
        return "front"
    return None


def _iter_discipline(loop: ast.AST, lst: str) -> Optional[str]:
    if isinstance(loop, ast.For):
        it = loop.iter
        if isinstance(it, ast.Name) and it.id == lst:
            return "forward"
        if isinstance(it, ast.Call) and call_name(it) == "reversed" and len(it.args) == 1 \
                and isinstance(it.args[0], ast.Name) and it.args[0].id == lst:
            return "backward"
        if isinstance(it, ast.Call) and call_name(it) in ("list", "tuple", "iter", "from_iterable") and len(it.args) == 1:
            inner = ast.For(target=loop.target, iter=it.args[0], body=loop.body, orelse=[])
            return _iter_discipline(inner, lst)
        if isinstance(it, ast.Subscript) and isinstance(it.value, ast.Name) and it.value.id == lst \
                and isinstance(it.slice, ast.Slice):
            s = it.slice
            if s.lower is None and s.upper is None:
                if s.step is None:
                    return "forward"
                if isinstance(s.step, ast.UnaryOp) and isinstance(s.step.op, ast.USub) \
                        and isinstance(s.step.operand, ast.Constant) and s.step.operand.value == 1:
                    return "backward"
        return None
    if isinstance(loop, ast.While):
        if isinstance(loop.test, ast.Name) and loop.test.id == lst:
            pops = [c for c in calls_in(loop) if isinstance(c.func, ast.Attribute) and c.func.attr in ("pop", "popleft")
                    and isinstance(c.func.value, ast.Name) and c.func.value.id == lst]
            if len(pops) == 1:
                p = pops[0]
                if p.func.attr == "pop" and not p.args:
                    return "backward"
                if p.func.attr == "popleft" or (p.args and isinstance(p.args[0], ast.Constant) and p.args[0].value == 0):
                    return "forward"
    return None


def _compensated(fn, cfg, fnode, is_hist_list, param_mutators) -> bool:
    """the fallible call lies in a try whose handler restores a history list (in place, directly or through a helper
    that mutates the list parameter it is given) and re-raises on every path"""
    for t in walk_local(fn):
        if not isinstance(t, ast.Try) or not any(x is fnode.ast or any(y is fnode.ast for y in ast.walk(x)) for x in t.body):
            continue
        for h in t.handlers:
            restores = False
            for st in h.body:
                for x in [st, *ast.walk(st)]:
                    if isinstance(x, ast.stmt) and any(is_hist_list(e) for e in common.mutated_exprs(x)):
                        restores = True
                    if isinstance(x, ast.Call) and is_self_attr(x.func) and x.func.attr in param_mutators:
                        if any(i < len(x.args) and is_hist_list(x.args[i]) for i in param_mutators[x.func.attr]):
                            restores = True
            hn = cfg.node_of_stmt(h)
            reraises = hn is not None and cfg.exit.id not in cfg.reachable(hn.id) and cfg.raise_exit.id in cfg.reachable(hn.id)
            if restores and reraises:
                return True
    return False


def _builtin_exc(name: str):
    import builtins
    o = getattr(builtins, name, None)
    return o if isinstance(o, type) and issubclass(o, BaseException) else None


def _exc_roots(idx, qual: str, seen=None) -> Set[str]:
    """names of the builtin exception classes a class of the tree derives from"""
    seen = seen or set()
    if qual in seen:
        return set()
    seen.add(qual)
    c = idx.classes.get(qual)
    out: Set[str] = set()
    if c is None:
        return out
    for be, b in zip(c.base_exprs, c.bases):
        if b and b in idx.classes:
            out |= _exc_roots(idx, b, seen)
        elif isinstance(be, ast.Name) and _builtin_exc(be.id):
            out.add(be.id)
        elif isinstance(be, ast.Attribute) and _builtin_exc(be.attr):
            out.add(be.attr)
    return out


def _raised_exception_classes(idx) -> Dict[str, str]:
    """exception classes of the tree that rope/base raises explicitly: qualname -> where"""
    out: Dict[str, str] = {}
    for f in idx.functions.values():
        if not f.unit.modname.startswith("rope.base."):
            continue
        for r in common.explicit_raises(f.node):
            e = r.exc.func if isinstance(r.exc, ast.Call) else r.exc
            q = idx.resolve(f.unit.modname, e) if e is not None else None
            if q and q in idx.classes and _exc_roots(idx, q):
                out.setdefault(q, f"{f.unit.rel}:{r.lineno}")
    return out


def _handler_catches(h: ast.ExceptHandler) -> Optional[List[str]]:
    """builtin class names a handler catches; None = not decidable (non-builtin names)"""
    if h.type is None:
        return ["BaseException"]
    ts = h.type.elts if isinstance(h.type, ast.Tuple) else [h.type]
    names = []
    for t in ts:
        if isinstance(t, ast.Name) and _builtin_exc(t.id):
            names.append(t.id)
        else:
            return None
    return names


def _breadth_rule(idx, res, name: str, f, h: ast.ExceptHandler, raised: Dict[str, str]) -> None:
    """R10.8: the rollback handler catches every exception class of the tree that rope/base raises (the task stop included)"""
    catches = _handler_catches(h)
    if catches is None:
        res.undecided("R10.8", name, f"{f.unit.rel}:{h.lineno}", f"handler type {ast.unparse(h.type)} is not a builtin exception class")
        return
    missed = []
    for q, where in sorted(raised.items()):
        roots = _exc_roots(idx, q)
        if not any(issubclass(_builtin_exc(r), _builtin_exc(c)) for r in roots for c in catches):
            missed.append((q, where, sorted(roots)))
    res.add("R10.8", name, not missed, f"{f.unit.rel}:{h.lineno}",
            f"the handler ({', '.join(catches)}) catches all {len(raised)} exception classes rope/base raises" if not missed else
            f"the rollback handler catches {', '.join(catches)} but {missed[0][0]} (raised at {missed[0][1]}) derives from {missed[0][2]}: when "
            "performing fails with it (a stopped task, a refused file operation) the handler is skipped and the applied sub-changes stay applied",
            function=f.qualname, catches=catches, missed=[m[0] for m in missed])


def check(ctx, res) -> None:
    _check_main(ctx, res)
    # ---- R10.12 (=R11.1, content changes): rollback calls undo() on the sub-changes already done; for a content change that is
    # only a rollback if undo writes back what do read (and nothing else)
    from . import c11
    from .. import report

    tmp = report.Results("C11")
    c11.check(ctx, tmp)
    got = [i for i in tmp.instances if i.rule == "R11.1" and i.key.endswith("|ChangeContents")]
    if not got:
        raise AnalysisError("anchor=R11.1 instance for ChangeContents not produced")
    for i in got:
        res.add("R10.12", "ChangeContents|undo-restores-what-do-read", i.status == report.OK if i.status != report.UNDECIDED else None, i.where, i.what, **i.detail)


    common.order_only_restore_rule(ctx, res, "R10.13")
    _subprocess_status_rule(ctx, res)
    _vcs_remove_takes_back_creation_rule(ctx, res)


def _check_main(ctx, res) -> None:
    idx = ctx.idx
    comp = common.composite_change(idx)
    raised = _raised_exception_classes(idx)
    res.floor("R10.8", "exception classes raised in rope/base", len(raised), 5)
    rel = comp.unit.rel

    # ---------------- R10.1 / R10.2 / R10.3 on every rollback try in rope/base
    n_roll = 0
    for f in sorted(idx.functions.values(), key=lambda f: f.qualname):
        if not f.unit.modname.startswith("rope.base."):
            continue
        # (a rollback handler whose body was moved into a private helper -- `self._roll_back(done)` -- is read in place; the helpers
        # themselves are not rollback sites)
        if not any(isinstance(x, ast.Try) for x in walk_local(f.node)):
            continue
        fnode = common.inlined(idx, f)
        for t, h, loop, ins, hloop in _rollback_tries(fnode) + _rollback_tries_indexed(fnode):
            n_roll += 1
            name = f.qualname.replace("rope.base.change.", "")
            where = f"{f.unit.rel}:{hloop.lineno}"
            if ins is None:
                okx, why = _indexed_rollback_verdict(fnode, loop, hloop)
                if okx is None:
                    res.undecided("R10.1", name, where, why)
                else:
                    res.add("R10.1", name, okx, where, why, function=f.qualname)
                a = b = None
            else:
                lst = ins.func.value.id
                a, b = _insert_discipline(ins), _iter_discipline(hloop, lst)
            if ins is None:
                pass
            elif a is None or b is None:
                res.undecided("R10.1", name, where, f"rollback shape not recognised (insert={a}, iterate={b})")
            else:
                rev = (a, b) in (("back", "backward"), ("front", "forward"))
                res.add("R10.1", name, rev, where,
                        "rollback iterates the done-list in reverse of insertion order" if rev else
                        f"rollback handler iterates '{lst}' in insertion order ({a}/{b}): sub-changes are undone "
                        "oldest-first, so a later change's inverse runs after the earlier one it depends on was already reverted",
                        function=f.qualname, insert=a, iterate=b)
            # R10.2
            cfg = CFG(fnode)
            hn = cfg.node_of_stmt(h)
            reach = cfg.reachable(hn.id)
            inside = {id(x) for s in h.body for x in [s, *ast.walk(s)]}
            escaped = [cfg.nodes[i] for i in reach
                       if cfg.nodes[i].ast is not None and cfg.nodes[i].kind != "finally" and i != hn.id
                       and id(cfg.nodes[i].ast) not in inside]
            ok = cfg.exit.id not in reach and not escaped and cfg.raise_exit.id in reach
            res.add("R10.2", name, ok, f"{f.unit.rel}:{h.lineno}",
                    "every path out of the rollback handler raises" if ok else
                    "a path leaves the rollback handler without raising: the failure is swallowed",
                    function=f.qualname)
            _breadth_rule(idx, res, name, f, h, raised)
            # R10.14 what is compensated is exactly what was completed: inside the handler the inverse operation is taken of elements
            # of the compensation loop only -- never of another element picked from the list of sub-changes (the one that just FAILED
            # is not among the completed ones: it left nothing, or what it left is its own business to take back before it raises)
            tgt = hloop.target.id if isinstance(hloop, ast.For) and isinstance(hloop.target, ast.Name) else None
            done_lists = {ins.func.value.id} if ins is not None else set()

            def completed(v) -> bool:
                """the loop variable of the compensation loop, or an element taken from the done-list (`done.pop()`, `done[-1]`)"""
                if isinstance(v, ast.Name) and v.id in (tgt, "self"):
                    return True
                if isinstance(v, ast.Call) and isinstance(v.func, ast.Attribute) and v.func.attr in ("pop", "popleft") and isinstance(v.func.value, ast.Name) and v.func.value.id in done_lists:
                    return True
                return isinstance(v, ast.Subscript) and isinstance(v.value, ast.Name) and v.value.id in done_lists
            stray = [x for s_ in h.body for x in ast.walk(s_) if isinstance(x, ast.Attribute) and x.attr in ("do", "undo") and not completed(x.value)]
            res.add("R10.14", name, not stray, f"{f.unit.rel}:{(stray[0] if stray else h).lineno}",
                    "the handler takes the inverse of the completed sub-changes only" if not stray else
                    f"the handler also applies `{ast.unparse(stray[0])[:70]}` -- the inverse of a sub-change that is not one of the completed ones: when the failing step is a "
                    "creation refused because the file EXISTS, its undo removes the file that was there before; for a nested composite, which has already rolled itself back, "
                    "the steps are undone a second time", function=f.qualname)
            # R10.11 the compensating call is the INVERSE of the call being rolled back (do <-> undo)
            INV = {"do": "undo", "undo": "do"}
            body_calls = {c.func.attr for c in calls_in(loop) if isinstance(c.func, ast.Attribute) and c.func.attr in INV
                          and not (isinstance(c.func.value, ast.Name) and c.func.value.id == "self")}
            comp_calls = {c.func.attr for c in calls_in(hloop) if isinstance(c.func, ast.Attribute) and c.func.attr in INV
                          and not (isinstance(c.func.value, ast.Name) and c.func.value.id == "self")}
            if len(body_calls) == 1 and comp_calls:
                fwd = next(iter(body_calls))
                ok11 = comp_calls == {INV[fwd]}
                res.add("R10.11", name, ok11, f"{f.unit.rel}:{hloop.lineno}",
                        f"sub-changes that were {fwd}ne are rolled back with {INV[fwd]}()" if ok11 else
                        f"the rollback handler calls {sorted(comp_calls)} on the sub-changes that the body has just {fwd}ne -- the inverse is {INV[fwd]}(): "
                        "a failed composite change applies its completed sub-changes a second time instead of reverting them", function=f.qualname)
            else:
                res.undecided("R10.11", name, f"{f.unit.rel}:{hloop.lineno}", f"fallible/compensating calls not recognised ({sorted(body_calls)}, {sorted(comp_calls)})")
            # R10.7 the compensating calls must not be interruptible by the task whose stop may be the failure
            # being rolled back: they must not receive the enclosing method's job-set parameter.
            fparams = {a.arg for a in f.node.args.args[1:]} | {a.arg for a in f.node.args.kwonlyargs}
            leaked = []
            for c in calls_in(hloop):
                if isinstance(c.func, ast.Attribute) and c.func.attr in ("do", "undo"):
                    used = {x.id for a in list(c.args) + [k.value for k in c.keywords] for x in ast.walk(a) if isinstance(x, ast.Name)}
                    if used & fparams:
                        leaked.append((c, sorted(used & fparams)))
            res.add("R10.7", name, not leaked, f"{f.unit.rel}:{hloop.lineno}",
                    "rollback calls run with the default (null) job set, so a stopped task cannot interrupt the rollback" if not leaked else
                    f"the rollback handler calls {leaked[0][0].func.attr}({', '.join(leaked[0][1])}) with the caller's job set: when the failure being "
                    "rolled back is a task stop, the first compensating call hits the same stop check, raises again, and nothing is rolled back",
                    function=f.qualname)
            # R10.3
            if ins is None:
                res.add("R10.3", name, True, f"{f.unit.rel}:{loop.lineno}", "the bookkeeping is the loop counter itself: it advances only when the fallible call has returned", function=f.qualname)
                continue
            blk = loop.body
            ins_stmt = next((s for s in blk if any(x is ins for x in ast.walk(s))), None)
            ok3, why = None, "append is not a direct statement of the loop body"
            if ins_stmt is not None:
                i = blk.index(ins_stmt)
                appended = ins.args[-1] if ins.args else None
                prev = blk[i - 1] if i > 0 else None
                if prev is not None and isinstance(prev, ast.Expr) and isinstance(prev.value, ast.Call) \
                        and isinstance(prev.value.func, ast.Attribute) and appended is not None \
                        and norm(prev.value.func.value) == norm(appended) \
                        and len(calls_in(ins_stmt)) == 1:
                    ok3, why = True, "bookkeeping append directly follows the fallible call on the same object"
                else:
                    ok3, why = False, ("the done-list append is not adjacent to the fallible call on the appended object: "
                                       "a failure in between loses track of an applied sub-change")
            res.add("R10.3", name, ok3, f"{f.unit.rel}:{ins.lineno}", why, function=f.qualname)
    res.floor("R10.1", "rollback loops", n_roll, 2)

    # ---------------- R10.4 job wrapper
    deco, inner, wrapped = common.job_wrapper(idx)
    res.floor("R10.4", "wrapped do/undo methods", len(wrapped), 7)
    cg = callgraph.get(ctx)
    param = deco.node.args.args[0].arg if deco.node.args.args else None
    effect = [c for c in calls_in(inner) if isinstance(c.func, ast.Name) and c.func.id == param]
    if len(effect) != 1:
        raise AnalysisError("anchor=role:job-wrapper effect call (call of the decorated function) not unique")
    cfg = CFG(inner)
    en = cfg.node_containing(effect[0])[0]
    after = cfg.reachable(en.id, labels={"", "true", "false", "case", "nomatch"}) - {en.id}
    inner_q = next(q for q, fi in idx.functions.items() if fi.node is inner)
    sites = {id(s.node): s for s in cg.sites.get(inner_q, [])}
    raising_funcs = {q for q, fi in idx.functions.items() if common.explicit_raises(fi.node)}
    n_after = 0
    for nid in sorted(after):
        node = cfg.nodes[nid]
        if node.ast is None or node.kind in ("exit", "raise"):
            continue
        for c in calls_in(node.ast) + ([node.ast] if isinstance(node.ast, ast.Call) else []):
            s = sites.get(id(c))
            if s is None:
                continue
            n_after += 1
            prev = cg.reach(s.targets)
            hit = sorted(set(prev) & raising_funcs)
            cname = dotted(c.func) or call_name(c)
            if not hit:
                res.ok("R10.4", f"{deco.name}|{cname}", f"{deco.unit.rel}:{c.lineno}",
                       "call after the effect cannot reach an explicit raise")
                continue
            # guarded by a try whose handler calls the inverse?  (shape: handler contains a call on `self`.)
            guarded = False
            for t in walk_local(inner):
                if isinstance(t, ast.Try) and any(x is c for s2 in t.body for x in ast.walk(s2)):
                    for h in t.handlers:
                        if any(isinstance(x, ast.Call) for s2 in h.body for x in ast.walk(s2)):
                            guarded = True
            path = cg.path_to(prev, hit[0])
            res.add("R10.4", f"{deco.name}|{cname}", guarded, f"{deco.unit.rel}:{c.lineno}",
                    "raising call after the effect is guarded by a compensating handler" if guarded else
                    f"'{cname}' runs after the wrapped effect and can raise ({' -> '.join(p.split('.')[-2] + '.' + p.split('.')[-1] for p in path)}): "
                    "the primitive change stays applied but is neither recorded as done nor inverted",
                    path=path, wrapped=[w.qualname for w in wrapped])
    res.analysed["R10.4_calls_after_effect"] = n_after

    # ---------------- R10.5 / R10.6 history
    hist = idx.need_class("rope.base.history.History")
    lists = common.list_attrs_of_init(hist)
    aliases = common.property_aliases(hist)
    list_names = set(lists) | {a for a, t in aliases.items() if t in lists}
    if len(lists) < 2:
        raise AnalysisError("anchor=History list attributes (self.X = [] in __init__) fewer than 2")

    # a private helper may be handed one of the lists, or the step to perform, by every caller in the class
    list_params: Dict[str, Set[str]] = {}    # method -> parameter names that are a history list at every call site
    step_params: Dict[str, Dict[str, Set[str]]] = {}  # method -> parameter name -> methods passed in
    for hname, hm in hist.methods.items():
        ps = hm.call_params()
        sites = [c for m2 in hist.methods.values() for c in calls_in(m2.node) if is_self_attr(c.func, hname)]
        for i, p in enumerate(ps):
            actual = [c.args[i] for c in sites if i < len(c.args)]
            if sites and len(actual) == len(sites) and all(is_self_attr(a) and a.attr in list_names for a in actual):
                list_params.setdefault(hname, set()).add(p)
            passed = {a.attr for a in actual if is_self_attr(a) and a.attr in hist.methods}
            if passed:
                step_params.setdefault(hname, {})[p] = passed
    current = {"method": None}

    def is_hist_list(e: ast.AST) -> bool:
        if is_self_attr(e) and e.attr in list_names:
            return True
        return isinstance(e, ast.Name) and e.id in list_params.get(current["method"], set())

    # helper methods that mutate a parameter list
    param_mutators: Dict[str, Set[int]] = {}
    for name, m in hist.methods.items():
        ps = [a.arg for a in m.node.args.args][1:]
        for st in walk_local(m.node):
            for e in common.mutated_exprs(st) if isinstance(st, ast.stmt) else []:
                if isinstance(e, ast.Name) and e.id in ps:
                    param_mutators.setdefault(name, set()).add(ps.index(e.id))

    # fallible: x.do(...)/x.undo(...) with x not self's own bookkeeping; transitively via self.m()
    def direct_fallible(fn: ast.AST) -> List[ast.Call]:
        return [c for c in calls_in(fn) if isinstance(c.func, ast.Attribute) and c.func.attr in ("do", "undo", "redo")
                and not (isinstance(c.func.value, ast.Name) and c.func.value.id == "self")]

    fall_methods = {n for n, m in hist.methods.items() if direct_fallible(m.node)}
    changed = True
    while changed:
        changed = False
        for n, m in hist.methods.items():
            if n in fall_methods:
                continue
            for c in calls_in(m.node):
                if is_self_attr(c.func) and c.func.attr in fall_methods:
                    fall_methods.add(n)
                    changed = True
                # the step handed in as a bound method: `perform(...)` where a caller passes self._perform_undos
                if isinstance(c.func, ast.Name) and step_params.get(n, {}).get(c.func.id, set()) & fall_methods:
                    fall_methods.add(n)
                    changed = True
    n_hist = 0
    for name in sorted(fall_methods):
        m = hist.methods[name]
        current["method"] = name
        cfg = CFG(m.node)
        muts, falls = [], []
        for node in cfg.nodes:
            if node.ast is None or node.kind not in ("stmt", "test"):
                continue
            a = node.ast
            exprs = common.mutated_exprs(a)
            if any(is_hist_list(e) for e in exprs):
                muts.append((node, "direct"))
            for c in calls_in(a) + ([a] if isinstance(a, ast.Call) else []):
                if is_self_attr(c.func) and c.func.attr in param_mutators:
                    for i in param_mutators[c.func.attr]:
                        if i < len(c.args) and is_hist_list(c.args[i]):
                            muts.append((node, f"via {c.func.attr}"))
                if (isinstance(c.func, ast.Attribute) and c.func.attr in ("do", "undo", "redo")
                        and not (isinstance(c.func.value, ast.Name) and c.func.value.id == "self")) \
                        or (is_self_attr(c.func) and c.func.attr in fall_methods) \
                        or (isinstance(c.func, ast.Name) and step_params.get(name, {}).get(c.func.id, set()) & fall_methods):
                    falls.append(node)
        loop_heads = [n.id for n in cfg.nodes if n.kind == "loop"]
        n_hist += 1
        bad = []
        for mn, how in muts:
            for fnode in falls:
                if fnode.id == mn.id:
                    continue
                # same-iteration path m -> fallible call, then the call's exceptional edge leaves
                if cfg.exists_path(mn.id, fnode.id, avoiding=loop_heads) and \
                        any(lab == "exc" for _, lab in cfg.succ[fnode.id]):
                    if _compensated(m.node, cfg, fnode, is_hist_list, param_mutators):
                        continue
                    bad.append((mn, how, fnode))
            in_finally = False
            for t in walk_local(m.node):
                if isinstance(t, ast.Try) and any(x is mn.ast for s in t.finalbody for x in ast.walk(s)):
                    in_finally = True
            if in_finally:
                bad.append((mn, how + " in finally", mn))
        construct = f"History.{name}"
        if bad:
            mn, how, fnode = bad[0]
            res.fail("R10.5", construct, f"{m.unit.rel}:{mn.lineno}",
                     f"history list is mutated ({how}, line {mn.lineno}) before the fallible call at line {fnode.lineno} "
                     "of the same call: if that call raises, the undo/redo lists are left changed although the operation failed",
                     function=m.qualname, mutation_line=mn.lineno, fallible_line=fnode.lineno)
        else:
            res.ok("R10.5", construct, m.where,
                   f"{len(muts)} history-list mutation(s) all lie after the fallible call of their iteration",
                   function=m.qualname)
        # R10.8 on the compensating handlers of this method
        for t in walk_local(m.node):
            if isinstance(t, ast.Try):
                for h in t.handlers:
                    if any(isinstance(x, ast.stmt) and any(is_hist_list(e) for e in common.mutated_exprs(x)) or
                           (isinstance(x, ast.Call) and is_self_attr(x.func) and x.func.attr in param_mutators)
                           for st in h.body for x in [st, *ast.walk(st)]):
                        _breadth_rule(idx, res, construct, m, h, raised)
        # R10.6
        sets = [n for n in cfg.nodes if n.kind == "stmt" and isinstance(n.ast, ast.Assign)
                and any(is_self_attr(t, "current_change") for t in n.ast.targets)]
        nonnull = [n for n in sets if not (isinstance(n.ast.value, ast.Constant) and n.ast.value.value is None)]
        is_reset = lambda n: n.kind == "stmt" and isinstance(n.ast, ast.Assign) and \
            any(is_self_attr(t, "current_change") for t in n.ast.targets) and \
            isinstance(n.ast.value, ast.Constant) and n.ast.value.value is None
        for s in nonnull:
            ok = all(cfg.must_pass_through(s.id, e, is_reset) for e in (cfg.exit.id, cfg.raise_exit.id))
            res.add("R10.6", construct, ok, f"{m.unit.rel}:{s.lineno}",
                    "current_change is reset to None on every exit (normal and exceptional)" if ok else
                    "a path leaves the method with current_change still set: later contents_before_current_change answers from a stale change",
                    function=m.qualname)
    res.floor("R10.5", "fallible history methods", n_hist, 5)

    # ---- R10.9 each file-system primitive has exactly its own effect (rollback replays inverse primitives)
    common.fs_primitive_purity_rule(ctx, res, "R10.9")

    # ---- R10.10 (=R09.9) the analysis callback inside every write lets nothing escape after the effect
    common.soa_observer_rule(ctx, res, "R10.10")


# ---------------------------------------------------------------------------------------------------------------------------------
# R10.15 / R10.16 the file-system commands that run a subprocess

def _subprocess_status_rule(ctx, res) -> None:
    """R10.15: the rollback of a composite change counts a sub-change as done when its file-system command RETURNED and as failed when it
    RAISED.  The commands of the version-control back ends that run a program (`git`, `darcs`) learn of a failure only from the exit
    status: a status that is dropped turns "git refused" into "done", and the rollback (or the change itself) goes on over a tree that is
    not what it believes.  So: every call of a function of rope.base.fscommands that returns a process's exit status has its value tested,
    with a raise on the failing side -- in the caller, or the function raises itself (`check_call`, `run(check=True)`, an own test)."""
    idx = ctx.idx
    mod = "rope.base.fscommands"
    fns = [f for f in idx.functions.values() if f.unit.modname == mod]

    def returns_status(fn) -> bool:
        """returns `<process>.returncode` / `.wait()` / `subprocess.call(...)`: the caller has to look at it"""
        for r in walk_local(fn.node):
            if isinstance(r, ast.Return) and r.value is not None:
                v = r.value
                if isinstance(v, ast.Attribute) and v.attr == "returncode":
                    return True
                if isinstance(v, ast.Call) and call_name(v) in ("wait", "call", "poll"):
                    return True
        return False

    def raises_on_failure(fn) -> bool:
        """the function tests the status itself and raises (or lets subprocess do it)"""
        for c in calls_in(fn.node):
            if call_name(c) in ("check_call", "check_output"):
                return True
            if call_name(c) == "run" and any(k.arg == "check" and isinstance(k.value, ast.Constant) and k.value.value is True for k in c.keywords):
                return True
        return False

    status_fns = {f.name: f for f in fns if f.cls is None and returns_status(f) and not raises_on_failure(f)}
    runners = {f.name for f in fns if f.cls is None and any(call_name(c) in ("Popen", "call", "run", "check_call", "check_output") for c in calls_in(f.node))}
    if not runners:
        raise AnalysisError("anchor=rope.base.fscommands: no function that runs a subprocess found")
    n = 0
    for f in sorted(fns, key=lambda f: f.qualname):
        for c in calls_in(f.node):
            if not (isinstance(c.func, ast.Name) and c.func.id in status_fns):
                continue
            n += 1
            cfg = CFG(f.node)
            nodes = cfg.node_containing(c)
            ok = False
            why = "the exit status is dropped (the call is a statement of its own)"
            # the status is bound to a local or tested in place; some raise stands under a test that reads it
            names = set()
            for nd in nodes:
                if nd.kind in ("stmt", "cond") and isinstance(nd.ast, ast.Assign):
                    names |= {t.id for t in nd.ast.targets if isinstance(t, ast.Name)}
                if nd.kind == "stmt" and isinstance(nd.ast, ast.Return):
                    ok = True  # handed on: the caller of THIS function is looked at in its turn (it then is a status function itself)
            for r in cfg.nodes:
                if r.kind == "stmt" and isinstance(r.ast, ast.Raise):
                    for t, _pol in cfg.guards(r.id):
                        if any(x is c for x in ast.walk(t)) or any(isinstance(x, ast.Name) and x.id in names for x in ast.walk(t)):
                            ok = True
            if names and not ok:
                why = f"the exit status is bound to `{sorted(names)[0]}` but no raise depends on it"
            res.add("R10.15", f"{f.qualname.split('.', 3)[-1]}|exit-status-of-{c.func.id}#{n}", ok, f"{f.unit.rel}:{c.lineno}",
                    "the exit status decides between returning and raising" if ok else
                    f"{f.qualname.split('.', 3)[-1]}: {why}.  A refused command (`git rm` of a file that is only staged, `git mv` of an untracked file) "
                    "returns like a command that had its effect: the composite change, and its rollback, count it as done and leave the tree "
                    "half-changed without reporting anything", function=f.qualname)
    # a status function that nobody calls with a test is fine; one that is gone (the runners raise themselves) leaves nothing to check --
    # then every runner must raise on failure
    if not status_fns:
        for name in sorted(runners):
            f = next(x for x in fns if x.cls is None and x.name == name)
            n += 1
            ok = raises_on_failure(f) or any(isinstance(r, ast.Raise) for r in walk_local(f.node))
            res.add("R10.15", f"{name}|raises-on-failure#{n}", ok, f.where,
                    "the runner raises when the program fails" if ok else f"{name} runs a program and neither returns nor tests its exit status", function=f.qualname)
    res.floor("R10.15", "uses of a process exit status", n, 1)


# what `git rm` needs in order to take back what rope's own creation commands made (confirmed by reading git-rm(1) and on a scratch
# repository): a file created by create_file is `git add`ed -- staged, not in HEAD -- and `git rm` without -f refuses it ("has changes
# staged in the index"); a folder is removed only with -r.
_GIT_RM_NEEDS = (({"-f", "--force"}, "a file that create_file has just staged is refused without it"),
                 ({"-r"}, "a folder is not removed without it"))


def _vcs_remove_takes_back_creation_rule(ctx, res) -> None:
    """R10.16: the rollback of CreateFolder / CreateFile is `remove`.  In a command class that runs a program, what `create_*` made must be
    something `remove` can take away: (a) when a creation command does NOT register the path with the version-control program (plain
    mkdir), `remove` has a path on which the plain removal runs (the program does not know the path: "pathspec did not match"); (b) for
    git, the `rm` argument list carries the options without which git refuses what rope itself has just created (table _GIT_RM_NEEDS)."""
    idx = ctx.idx
    n = 0
    for cls in sorted(idx.classes.values(), key=lambda c: c.qualname):
        if cls.unit.modname != "rope.base.fscommands":
            continue
        do = cls.methods.get("_do")
        if do is None or not any(isinstance(c.func, ast.Name) for c in calls_in(do.node)):
            continue  # not a class that runs a program
        rm = cls.methods.get("remove")
        if rm is None:
            continue
        def registers(m) -> bool:
            return any(is_self_attr(c.func, "_do") for c in calls_in(m.node))
        # the removal may be split into private steps (`self._remove_tracked(rel)`, `self._remove_untracked(path)`): read in place; the
        # runner of the program stays a call
        rm_node = common.inline_private_calls(idx, rm, keep=("_do",))
        path_param = (param_names(rm.node) + [None, None])[1]
        plain_calls = [c for c in calls_in(rm_node) if isinstance(c.func, ast.Attribute) and c.func.attr == "remove" and is_self_attr(c.func.value, "normal_actions")]

        def is_the_path(e) -> bool:
            e = common._subst_single_locals(rm_node, e)
            return isinstance(e, ast.Name) and e.id == path_param

        unregistered = [k for k in ("create_file", "create_folder") if k in cls.methods and not registers(cls.methods[k])]
        n += 1
        wrong_arg = [c for c in plain_calls if not (c.args and is_the_path(c.args[0]))]
        ok = not unregistered or (bool(plain_calls) and not wrong_arg)
        res.add("R10.16", f"{cls.name}.remove|takes-back-an-unregistered-creation", ok, rm.where,
                "what a creation command made without telling the program is removed plainly" if ok else
                (f"{cls.name}.remove hands `{ast.unparse(wrong_arg[0].args[0]) if wrong_arg[0].args else ''}` to the plain removal, not the path it was given: a path relative to "
                 "the repository root is looked up from the process's working directory, is not found there, and the untracked folder that create_folder made stays in the tree"
                 if wrong_arg else
                 f"{cls.name}.{unregistered[0]} makes the path without registering it with the program, but {cls.name}.remove only asks the program to "
                 "remove it: the program does not know the path, nothing is removed, and the rollback of a failed composite change leaves the stray "
                 "folder in the tree"), function=rm.qualname)
        # the existence test in front of the plain removal looks at the same path
        for t in [c for c in calls_in(rm_node) if call_name(c) in ("exists", "lexists") and c.args]:
            n += 1
            ok_t = is_the_path(t.args[0])
            res.add("R10.16", f"{cls.name}.remove|what-is-left-is-looked-for-at-the-path-given", ok_t, f"{rm.unit.rel}:{t.lineno}",
                    "what the program left behind is looked for at the path the command was given" if ok_t else
                    f"{cls.name}.remove tests `{ast.unparse(t)[:60]}`: not the path it was given (a path relative to the repository root is resolved against the process's "
                    "working directory), so the untracked folder is never found and never removed", function=rm.qualname)
        if registers(rm):
            for c in calls_in(rm_node):
                if is_self_attr(c.func, "_do") and c.args and isinstance(c.args[0], ast.List):
                    words = [e.value for e in c.args[0].elts if isinstance(e, ast.Constant) and isinstance(e.value, str)]
                    if cls.name == "GITCommands" and words[:1] == ["rm"]:
                        n += 1
                        missing = [why for opts, why in _GIT_RM_NEEDS if not (opts & set(words))]
                        res.add("R10.16", "GITCommands.remove|git-rm-options", not missing, f"{rm.unit.rel}:{c.lineno}",
                                "`git rm` is given the options without which it refuses what rope has just created" if not missing else
                                f"GITCommands.remove runs `git {' '.join(words)} <path>`: {'; '.join(missing)} -- the rollback of CreateFile / CreateFolder "
                                "removes nothing", function=rm.qualname)
    res.floor("R10.16", "remove commands of the program-running back ends", n, 2)
