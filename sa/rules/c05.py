"""C05 -- moving definitions and modules keeps importers working (structural clauses R05.1-R05.23)."""
from __future__ import annotations

import ast
from typing import Dict, List, Optional, Set, Tuple

from ..cfg import CFG
from . import common
from ..core import AnalysisError, FuncInfo, call_name, calls_in, const_str, is_self_attr, norm, param_names, walk_local

EXPLANATION = (
    "The text of the rewritten imports and references is a runtime value and is NOT decided.  Decided are seven "
    "structural necessary conditions of the move machinery.  R05.1 (change-set typestate): in every function of the "
    "move/rename/to-package modules that announces a MoveResource, no ChangeContents is added on any path after it "
    "(the contents change holds the old resource object: it would write to the old path), and a CreateFolder that the "
    "move targets precedes it.  R05.2 (placeholder discipline): a '__rope_...' placeholder handed to a renamer is "
    "replaced on every path to the announced contents, except across the edge that proves nothing was renamed.  R05.3 "
    "(every module is considered): an iteration of the per-module loop reaches a rewriting call or leaves through the "
    "false edge of an occurrence test (or a textual test of the moved name).  R05.4 (moved code keeps its imports): "
    "the import list added to the moved code derives from both the origin module's imports and the back-import of "
    "the origin's own names, and the destination adds the list it is given.  R05.5 (relative imports): whatever "
    "changes package -- a moved module, the modules inside a moved package, a module turned into a package, moved "
    "code -- passes through relatives_to_absolutes before it is announced.  R05.6: the move of the resource itself "
    "is announced on every path (up to the same-project test).  R05.7 (splice integrity): text spliced into the "
    "destination keeps the whole destination text (source[:c] + x + source[c:] with one and the same c).  R05.8 (=R07.7) and R05.9: the "
    "import-insertion helper every move uses identifies a from-import by (module, level) and tests 'already provided by "
    "an existing import' on dotted names with the trailing dot.  R05.10: a from-import's module_name is compared with an "
    "absolute module name only under a test of its level.  R05.11: an effectful per-statement step is never short-circuited by "
    "the flag it accumulates.  R05.12: module-ness of a renamed name is decided on the object, not on the kind of the name.  R05.13: a from-import name obtained "
    "by splitting a dotted module name is its last component.  R05.14 (=R07.10): relative module lookup climbs (level - 1) packages on every path."
    ' R05.17: the folder of the import filter belongs to the resource the organised module was built for.'
)
EXPLANATION += " R05.19: in the anchored modules and the shared text utilities no source text is cut with str.splitlines() (it breaks at form feed, \x1c-\x1e, \x85, U+2028/9; rope's and the ast's line numbers count \n only)."
EXPLANATION += " R05.20 (=R07.19): the used-name finder that decides which imports travel with moved code visits every non-body child of a def / class in the enclosing scope."
EXPLANATION += " R05.21: inside the loop over the files of a refactoring no handler swallows an error (a file is never silently left out of a multi-file change)."
EXPLANATION += " R05.22: the text of a moved global is cut out as it stands, not re-indented (a conditionally defined global is not lifted out of its block)."
EXPLANATION += " R05.23 (=R01.24): no strip / lstrip / rstrip call in rope has an argument that spells an affix (module names are cut with slices / removesuffix)."
EXPLANATION += " R05.25: the import filter of MoveGlobal reaches the equality test with the source module's name also when the module lives in a package (from the true side of the dotted-name test)."
ASSUMPTIONS = [
    "helper summaries: self.m() resolves through the class MRO; x.y.m() is attributed to every method m of the analysed modules",
    "ChangeSet.do applies changes in insertion order (decided under C10/C11)",
]

MOVE = "rope.refactor.move"
MODULES = (MOVE, "rope.refactor.rename", "rope.refactor.topackage")
KINDS = ("ChangeContents", "MoveResource", "CreateFolder", "CreateFile", "RemoveResource")


def _short(f: FuncInfo) -> str:
    return f.qualname.split(".", 2)[-1]


def _added_kinds_direct(node: Optional[ast.AST]) -> Set[str]:
    out: Set[str] = set()
    if node is None:
        return out
    for c in ([node] if isinstance(node, ast.Call) else []) + calls_in(node):
        if call_name(c) == "add_change" and c.args and isinstance(c.args[0], ast.Call) and call_name(c.args[0]) in KINDS:
            out.add(call_name(c.args[0]))
    return out


class _Summ:
    """transitive per-function facts inside a set of functions; `self.m()` resolves through the class (MRO), any other
    call by method name across the given functions"""

    def __init__(self, idx, funcs: List[FuncInfo], direct):
        self.idx = idx
        self.funcs = {f.qualname: f for f in funcs}
        self.by_name: Dict[str, List[FuncInfo]] = {}
        for f in funcs:
            self.by_name.setdefault(f.name, []).append(f)
        self.facts: Dict[str, Set[str]] = {q: set(direct(f.node)) for q, f in self.funcs.items()}
        changed = True
        while changed:
            changed = False
            for q, f in self.funcs.items():
                for c in calls_in(f.node):
                    for g in self.callees(f, c):
                        if g.qualname != q and not self.facts[g.qualname] <= self.facts[q]:
                            self.facts[q] |= self.facts[g.qualname]
                            changed = True

    def callees(self, f: Optional[FuncInfo], c: ast.Call) -> List[FuncInfo]:
        cn = call_name(c)
        if f is not None and f.cls is not None and is_self_attr(c.func):
            m = self.idx.find_method(f.cls.qualname, cn)
            return [m] if m is not None and m.qualname in self.funcs else []
        if isinstance(c.func, ast.Name):
            return [g for g in self.by_name.get(cn, []) if g.cls is None]
        return [g for g in self.by_name.get(cn, []) if g.cls is not None]

    def of_call(self, f: Optional[FuncInfo], c: ast.Call) -> Set[str]:
        out: Set[str] = set()
        for g in self.callees(f, c):
            out |= self.facts[g.qualname]
        return out


def _node_calls(nd) -> List[ast.Call]:
    if nd.ast is None or nd.kind not in ("stmt", "test"):
        return []
    return ([nd.ast] if isinstance(nd.ast, ast.Call) else []) + calls_in(nd.ast)


def _replaces_in_helper(idx, f, call: ast.Call, P: str) -> bool:
    """`self._helper(..., P, ...)` where the helper, on every path to a return, passes `<that parameter>` to `.replace(...)`:
    the placeholder is replaced inside the helper (a summary, so that extracting the import-and-replace step into a method
    does not change the verdict)."""
    if not (is_self_attr(call.func) and f.cls is not None):
        return False
    h = idx.find_method(f.cls.qualname, call.func.attr)
    if h is None:
        return False
    ps = [a.arg for a in h.node.args.posonlyargs + h.node.args.args][1:]
    pname = None
    for i, a in enumerate(call.args):
        if isinstance(a, ast.Name) and a.id == P and i < len(ps):
            pname = ps[i]
    for k in call.keywords:
        if isinstance(k.value, ast.Name) and k.value.id == P:
            pname = k.arg
    if pname is None:
        return False
    hcfg = CFG(h.node)

    def replaces(nd) -> bool:
        return nd.ast is not None and any(isinstance(c.func, ast.Attribute) and c.func.attr == "replace" and c.args
                                          and isinstance(c.args[0], ast.Name) and c.args[0].id == pname for c in _node_calls(nd))

    rets = [nd for nd in hcfg.nodes if nd.kind == "stmt" and isinstance(nd.ast, ast.Return)]
    return bool(rets) and all(replaces(r) or hcfg.must_pass_through(hcfg.entry.id, r.id, replaces) for r in rets)


def _stale_import_cleanup_rule(ctx, res) -> None:
    """R05.18: after a global is moved, every client module has its now-stale import of the source removed -- ALSO a
    client that imports the name without ever using it (`from pkg.source import f, other`; the name inside a from-import is
    a fixed primary that the renamer skips, so "the renamer changed nothing" does not mean "nothing to clean up").  In the
    per-client branch of MoveGlobal the filtered organize_imports is therefore not conditional on the renamer's result."""
    idx = ctx.idx
    n = 0
    for f in sorted(idx.functions.values(), key=lambda f: f.qualname):
        if f.unit.modname != "rope.refactor.move" or f.cls is None or f.cls.name != "MoveGlobal":
            continue
        node = f.node  # (each function on its own: a per-client step extracted into a method is analysed there)
        results = {t.id for x in walk_local(node) if isinstance(x, ast.Assign) and isinstance(x.value, ast.Call)
                   and call_name(x.value) == "rename_in_module" for t in x.targets if isinstance(t, ast.Name)}
        if not results:
            continue
        cfg = CFG(node)
        flags = {t.id for x in walk_local(node) if isinstance(x, ast.Assign) and isinstance(x.value, ast.Compare)
                 and isinstance(x.value.left, ast.Name) and x.value.left.id in results for t in x.targets if isinstance(t, ast.Name)}
        for nd in cfg.nodes:
            if nd.ast is None or nd.kind != "stmt":
                continue
            for c in calls_in(nd.ast):
                if call_name(c) == "organize_imports" and any(k.arg == "import_filter" for k in c.keywords):
                    n += 1
                    dep = [t for t, pol in cfg.guards(nd.id) if any(isinstance(y, ast.Name) and y.id in results | flags for y in ast.walk(t))]
                    ok = not dep
                    res.add("R05.18", f"{_short(f)}|stale-import-cleanup#{n}", ok, f"{f.unit.rel}:{c.lineno}",
                            "the stale import of the source module is cleaned up whether or not the renamer changed anything" if ok else
                            f"the clean-up of stale imports runs only under `{ast.unparse(dep[0])}`, i.e. only when the renamer changed something: a client with "
                            "`from pkg.source import f, other` that never USES f keeps the line, and importing the client fails (cannot import name 'f')",
                            function=f.qualname)
    res.floor("R05.18", "filtered import clean-ups in MoveGlobal clients", n, 1)


def _import_filter_folder_rule(ctx, res) -> None:
    """R05.17: while tidying the imports of a module after a move, "does this from-import import the source module" is
    decided by resolving the (possibly relative) import against a folder.  That folder is the folder of the module whose
    imports are being organised -- the resource the organised pymodule was built for -- not of some other module at hand."""
    idx = ctx.idx
    n = 0
    seen_sites = set()
    for f in sorted(idx.functions.values(), key=lambda f: f.qualname):
        if f.unit.modname != "rope.refactor.move":
            continue
        # (a step that only forwards its parameters -- `_without_stale_imports(pymodule, folder)` -- is read in place at its callers)
        f_params = set(param_names(f.node))
        called_here = f.name.startswith("_") and any(call_name(c2) == f.name for g in idx.functions.values() if g.unit is f.unit and g is not f for c2 in calls_in(g.node))
        f_node = common.inlined(idx, f)
        for c in calls_in(f_node):
            if call_name(c) != "organize_imports" or not c.args:
                continue
            flt = next((k.value for k in c.keywords if k.arg == "import_filter"), None)
            folder = None
            if isinstance(flt, ast.Call) and call_name(flt) == "_import_filter_in" and flt.args:
                folder = flt.args[0]
            elif isinstance(flt, ast.Lambda):
                # the same filter written out: `lambda stmt: self._import_filter(stmt, folder)`
                inner = [x for x in ast.walk(flt.body) if isinstance(x, ast.Call) and call_name(x) == "_import_filter"]
                if inner:
                    folder = inner[0].args[1] if len(inner[0].args) > 1 else next((k.value for k in inner[0].keywords if k.arg == "folder"), None)
            if folder is None:
                continue
            if isinstance(folder, ast.Name):
                # the binding of the local that stands nearest above the use (`folder = file_.parent` ... `lambda stmt: ...(stmt, folder)`)
                defs = sorted((a_ for a_ in walk_local(f_node) if isinstance(a_, ast.Assign) and a_.lineno <= flt.lineno
                               and any(isinstance(t, ast.Name) and t.id == folder.id for t in a_.targets)), key=lambda a_: a_.lineno)
                if defs:
                    folder = defs[-1].value
            if called_here and isinstance(folder, ast.Name) and folder.id in f_params:
                continue
            if (c.lineno, c.col_offset) in seen_sites:
                continue  # the same call read in place in a caller
            seen_sites.add((c.lineno, c.col_offset))
            n += 1
            subject = folder.value if isinstance(folder, ast.Attribute) and folder.attr == "parent" else None

            def resources_of(e, depth=0, before=c.lineno):
                """the resource(s) the module expression e was built for"""
                if depth > 6:
                    return set()
                if isinstance(e, ast.Call):
                    nm = call_name(e)
                    if nm == "get_pymodule" and e.args:
                        return {norm(e.args[0])}
                    if nm == "get_string_module" and len(e.args) >= 3:
                        return {norm(e.args[2])}
                    if nm == "new_pymodule" and e.args:
                        return resources_of(e.args[0], depth + 1, e.lineno)
                    return set()
                if isinstance(e, ast.Name):
                    out = set()
                    for x in walk_local(f_node):
                        if isinstance(x, ast.Assign) and x.lineno < before and any(isinstance(t, ast.Name) and t.id == e.id for t in x.targets):
                            out |= resources_of(x.value, depth + 1, x.lineno)
                    return out
                return set()

            rs = resources_of(c.args[0])
            if subject is None or not rs:
                res.undecided("R05.17", f"{_short(f)}|filter-folder#{n}", f"{f.unit.rel}:{c.lineno}",
                              f"folder `{ast.unparse(folder)}` / resource of the organised module not recognised")
                continue
            ok = norm(subject) in rs
            res.add("R05.17", f"{_short(f)}|filter-folder#{n}", ok, f"{f.unit.rel}:{flt.lineno}",
                    f"relative imports of the organised module are resolved against its own folder ({ast.unparse(folder)})" if ok else
                    f"the imports of a module built for another resource than `{ast.unparse(subject)}` are filtered with the folder "
                    f"`{ast.unparse(folder)}`: a relative `from .src import f` in that module is resolved against another package, is not recognised as an "
                    "import of the source module, and the stale import stays next to the new one (ImportError when the module is imported)",
                    function=f.qualname)
    res.floor("R05.17", "organize_imports calls with a folder-bound import filter", n, 2)


def check(ctx, res) -> None:
    _check_main(ctx, res)
    _shared(ctx, res)
    _import_filter_folder_rule(ctx, res)
    _filter_selects_the_module_itself_rule(ctx, res)
    _stale_import_cleanup_rule(ctx, res)
    from .common import line_model_rule as _lm

    _lm(ctx, res, "R05.19", ('rope.refactor.move', 'rope.refactor.rename', 'rope.refactor.topackage', 'rope.refactor.importutils', 'rope.refactor.importutils.module_imports', 'rope.refactor.importutils.actions', 'rope.base.libutils'))
    from .c07 import header_children_rule

    header_children_rule(ctx, res, "R05.20")
    from .common import per_file_no_skip_rule as _pf

    _pf(ctx, res, "R05.21", ('rope.refactor.move', 'rope.refactor.rename', 'rope.refactor.topackage'))
    _moving_text_is_not_reindented_rule(ctx, res)
    from .common import affix_strip_rule

    affix_strip_rule(ctx, res, "R05.23")


def _check_main(ctx, res) -> None:
    idx = ctx.idx
    for m in MODULES:
        idx.need_unit(m)
    funcs = [f for f in idx.functions.values() if f.unit.modname in MODULES]
    by_mod: Dict[str, List[FuncInfo]] = {}
    for f in funcs:
        by_mod.setdefault(f.unit.modname, []).append(f)

    # ------------------------------------------------------------------ R05.1 / R05.6
    n1 = n6 = 0
    for mod, fs in sorted(by_mod.items()):
        kinds = _Summ(idx, fs, _added_kinds_direct)

        for f in sorted(fs, key=lambda f: f.qualname):
            if "MoveResource" not in kinds.facts[f.qualname]:
                continue

            def node_kinds(nd, f=f) -> Set[str]:
                out = set()
                for c in _node_calls(nd):
                    out |= _added_kinds_direct(c)
                    out |= kinds.of_call(f, c)
                return out

            cfg = CFG(f.node)
            movers = [nd for nd in cfg.nodes if "MoveResource" in node_kinds(nd)]
            if not movers:
                continue
            n1 += 1
            bad = None
            for mv in movers:
                after = set()
                for b, _ in cfg.succ[mv.id]:
                    after |= cfg.reachable(b)
                for nd in cfg.nodes:
                    if nd.id in after and nd.id != mv.id and "ChangeContents" in node_kinds(nd):
                        bad = (mv, nd)
                if mv.id in after and "ChangeContents" in node_kinds(mv) and "MoveResource" in _added_kinds_direct(mv.ast):
                    bad = (mv, mv)
            res.add("R05.1", f"{_short(f)}|no-contents-after-move", bad is None, f"{f.unit.rel}:{movers[0].lineno}",
                    "every contents change is announced before the resource is moved" if bad is None else
                    f"{_short(f)} announces a ChangeContents (line {bad[1].lineno}) on a path after the MoveResource (line {bad[0].lineno}): the contents "
                    "change holds the resource at its OLD path, so performing the set writes a stray file at the old location and the moved "
                    "module keeps its unfixed imports", function=f.qualname)
            folders = [nd for nd in cfg.nodes if nd.ast is not None and nd.kind == "stmt" and "CreateFolder" in _added_kinds_direct(nd.ast)]
            direct_movers = [nd for nd in movers if nd.ast is not None and "MoveResource" in _added_kinds_direct(nd.ast)]
            if folders and direct_movers:
                ok = all(cfg.must_pass_through(cfg.entry.id, mv.id, lambda n: n.ast is not None and n.kind == "stmt" and "CreateFolder" in _added_kinds_direct(n.ast))
                         for mv in direct_movers)
                res.add("R05.1", f"{_short(f)}|folder-before-move", ok, f"{f.unit.rel}:{direct_movers[0].lineno}",
                        "the folder the resource is moved into is created before the move" if ok else
                        f"{_short(f)} can announce the MoveResource before the CreateFolder of its destination: performing the set fails half-way",
                        function=f.qualname)
    res.floor("R05.1", "functions announcing a MoveResource", n1, 3)
    # ------------------------------------------------------------------ R05.6 the move itself is announced
    for fq in (f"{MOVE}.MoveModule._calculate_changes", "rope.refactor.topackage.ModuleToPackage.get_changes"):
        f = idx.need_func(fq)
        cfg = CFG(f.node)
        n6 += 1
        direct_movers = [nd for nd in cfg.nodes if nd.kind == "stmt" and "MoveResource" in _added_kinds_direct(nd.ast)]
        proj_false = [(nd.id, dst, lab) for nd in cfg.nodes if nd.kind == "test" and isinstance(nd.ast, ast.Compare)
                      and len(nd.ast.ops) == 1 and isinstance(nd.ast.ops[0], ast.Eq)
                      and any(isinstance(x, ast.Attribute) and x.attr == "project" for x in ast.walk(nd.ast))
                      for dst, lab in cfg.succ[nd.id] if lab == "false"]
        free = cfg.reachable(cfg.entry.id, avoid_nodes=[m.id for m in direct_movers], avoid_edges=proj_false)
        ok = bool(direct_movers) and cfg.exit.id not in free
        res.add("R05.6", f"{_short(f)}|move-announced", ok, f.where,
                "every normal path announces the MoveResource (or fails the same-project test)" if ok else
                f"{_short(f)} has a normal path that returns the change set without the MoveResource: references are rewritten to the new "
                "location but the module is never moved there", function=f.qualname)

    mv_funcs = by_mod[MOVE]

    # ------------------------------------------------------------------ R05.2 placeholder discipline
    n2 = 0
    for f in sorted(mv_funcs, key=lambda f: f.qualname):
        ph: Dict[str, ast.stmt] = {}
        for x in walk_local(f.node):
            if isinstance(x, ast.Assign) and len(x.targets) == 1 and isinstance(x.targets[0], ast.Name):
                lits = [c.value for c in ast.walk(x.value) if isinstance(c, ast.Constant) and isinstance(c.value, str)]
                if any(s.startswith("__rope_") for s in lits):
                    ph[x.targets[0].id] = x
        if not ph:
            continue
        cfg = CFG(f.node)
        for P in sorted(ph):
            n2 += 1
            uses_P = lambda e: any(isinstance(y, ast.Name) and y.id == P for y in ast.walk(e))
            intro, repl = [], []
            handle_vars, result_vars = set(), set()
            for nd in cfg.nodes:
                for c in _node_calls(nd):
                    if isinstance(c.func, ast.Attribute) and c.func.attr == "replace" and c.args and uses_P(c.args[0]):
                        repl.append(nd)
                    elif _replaces_in_helper(idx, f, c, P):
                        repl.append(nd)
                    elif any(uses_P(a) for a in list(c.args) + [k.value for k in c.keywords]):
                        intro.append(nd)
                        if isinstance(nd.ast, ast.Assign) and isinstance(nd.ast.targets[0], ast.Name):
                            (handle_vars if call_name(c)[:1].isupper() or call_name(c).startswith("_Change") else result_vars).add(nd.ast.targets[0].id)
            # names that stand for "something was renamed": v = <result> is not None
            flags = set()
            for x in walk_local(f.node):
                if isinstance(x, ast.Assign) and isinstance(x.targets[0], ast.Name) and isinstance(x.value, ast.Compare) \
                        and isinstance(x.value.ops[0], ast.IsNot) and isinstance(x.value.left, ast.Name) and x.value.left.id in result_vars:
                    flags.add(x.targets[0].id)

            def nothing_renamed_edge(nd) -> Optional[str]:
                """label of the edge of test nd that proves no occurrence was replaced"""
                t = nd.ast
                if isinstance(t, ast.Name) and t.id in flags:
                    return "false"
                if isinstance(t, ast.Compare) and len(t.ops) == 1 and isinstance(t.left, ast.Name) and t.left.id in result_vars \
                        and isinstance(t.comparators[0], ast.Constant) and t.comparators[0].value is None:
                    return "false" if isinstance(t.ops[0], ast.IsNot) else ("true" if isinstance(t.ops[0], ast.Is) else None)
                if isinstance(t, ast.Attribute) and isinstance(t.value, ast.Name) and t.value.id in handle_vars:
                    return "false"
                return None

            esc = []
            for nd in cfg.nodes:
                if nd.kind == "test" and nd.ast is not None:
                    lab = nothing_renamed_edge(nd)
                    if lab:
                        esc += [(nd.id, dst, l) for dst, l in cfg.succ[nd.id] if l == lab]
            sinks = [nd for nd in cfg.nodes if nd.kind == "stmt" and nd.ast is not None and
                     (any(call_name(c) == "ChangeContents" for c in _node_calls(nd)) or isinstance(nd.ast, ast.Return))]
            leak = None
            for i in intro:
                reach = set()
                for b, _ in cfg.succ[i.id]:
                    reach |= cfg.reachable(b, avoid_nodes=[r.id for r in repl] + [x.id for x in cfg.nodes if x.kind == "loop"], avoid_edges=esc)
                hit = [s for s in sinks if s.id in reach]
                if hit:
                    leak = (i, hit[0])
                    break
            if not intro:
                res.undecided("R05.2", f"{_short(f)}|placeholder#{sorted(ph).index(P) + 1}", f.where, "placeholder is never handed to a renamer")
                continue
            res.add("R05.2", f"{_short(f)}|placeholder#{sorted(ph).index(P) + 1}", leak is None, f"{f.unit.rel}:{ph[P].lineno}",
                    "the placeholder is replaced on every path to the announced contents, except where nothing was renamed" if leak is None else
                    f"{_short(f)}: the placeholder handed to the renamer at line {leak[0].lineno} can reach line {leak[1].lineno} without passing "
                    "`.replace(placeholder, ...)` and without crossing the edge that proves nothing was renamed: a client module is written with "
                    "`__rope_..._` where the moved name should be", function=f.qualname)
    res.floor("R05.2", "placeholders in rope/refactor/move.py", n2, 2)

    # ------------------------------------------------------------------ R05.3 every module is considered
    REWRITERS = {"rename_in_module", "get_changed_module"}
    rewr = _Summ(idx, mv_funcs, lambda fn: {call_name(c) for c in calls_in(fn)} & REWRITERS)

    def rewriting(nd, f) -> bool:
        for c in _node_calls(nd):
            if call_name(c) in REWRITERS or rewr.of_call(f, c):
                return True
        return False

    def skip_edges(cfg, fn) -> List[Tuple[int, int, str]]:
        out = []
        for nd in cfg.nodes:
            if nd.kind != "test" or nd.ast is None:
                continue
            t = nd.ast
            if any(call_name(c) == "occurs_in_module" for c in _node_calls(nd)):
                out += [(nd.id, d, l) for d, l in cfg.succ[nd.id] if l == "false"]
            if isinstance(t, ast.Compare) and len(t.ops) == 1 and isinstance(t.ops[0], (ast.In, ast.NotIn)) and \
                    any(isinstance(x, ast.Attribute) and x.attr == "old_name" for x in ast.walk(t.left)):
                want = "false" if isinstance(t.ops[0], ast.In) else "true"
                out += [(nd.id, d, l) for d, l in cfg.succ[nd.id] if l == want]
        return out

    n3 = 0
    for f in sorted(mv_funcs, key=lambda f: f.qualname):
        if f.name != "_calculate_changes":
            continue
        cfg = CFG(f.node)
        p_res = param_names(f.node)
        loops = [n for n in cfg.nodes if n.kind == "loop" and isinstance(n.ast, ast.For) and isinstance(n.ast.iter, ast.Name) and n.ast.iter.id in p_res]
        for lp in loops:
            n3 += 1
            body = [b for b, l in cfg.succ[lp.id] if l == "true"]
            free = cfg.reachable(body[0], avoid_nodes=[n.id for n in cfg.nodes if rewriting(n, f)], avoid_edges=skip_edges(cfg, f)) if body else set()
            ok = bool(body) and lp.id not in free
            res.add("R05.3", f"{_short(f)}|every-module", ok, f"{f.unit.rel}:{lp.lineno}",
                    "every module of the loop reaches a rewriting call or is skipped only where the moved name does not occur" if ok else
                    f"{_short(f)} can finish an iteration of the per-module loop without rewriting the module and without an occurrence test: "
                    "a client that imports the moved name keeps its stale import and fails when it is imported", function=f.qualname)
    # helpers that may return early
    for f in sorted(mv_funcs, key=lambda f: f.qualname):
        if f.name == "_change_occurrences_in_module":
            n3 += 1
            cfg = CFG(f.node)
            free = cfg.reachable(cfg.entry.id, avoid_nodes=[n.id for n in cfg.nodes if rewriting(n, f)], avoid_edges=skip_edges(cfg, f))
            ok = cfg.exit.id not in free
            res.add("R05.3", f"{_short(f)}|early-return", ok, f.where,
                    "returns without rewriting only where the moved module does not occur" if ok else
                    f"{_short(f)} can return without rewriting and without an occurrence test", function=f.qualname)
    res.floor("R05.3", "per-module loops and early-returning helpers", n3, 3)

    # ------------------------------------------------------------------ R05.4 moved code keeps its imports
    mc = idx.need_func(f"{MOVE}.moving_code_with_imports")
    ps = param_names(mc.node)
    # the origin module = project.get_pymodule(<resource param>)
    origin = set()
    for x in walk_local(mc.node):
        if isinstance(x, ast.Assign) and isinstance(x.value, ast.Call) and call_name(x.value) == "get_pymodule" and isinstance(x.targets[0], ast.Name) \
                and x.value.args and isinstance(x.value.args[0], ast.Name) and x.value.args[0].id in ps:
            origin.add(x.targets[0].id)
    if not origin:
        raise AnalysisError("anchor=moving_code_with_imports: origin module (project.get_pymodule(resource)) not found")

    def labels_of(e: ast.AST) -> Set[str]:
        out = set()
        for c in ([e] if isinstance(e, ast.Call) else []) + [y for y in ast.walk(e) if isinstance(y, ast.Call)]:
            if call_name(c) == "module_imports" and c.args and isinstance(c.args[0], ast.Name) and c.args[0].id in origin:
                out.add("origin-imports")
            if call_name(c) == "get_from_import":
                out.add("back-import")
        return out

    taint: Dict[str, Set[str]] = {}
    changed = True
    while changed:
        changed = False
        for x in walk_local(mc.node):
            tgt, val = None, None
            if isinstance(x, ast.Assign) and isinstance(x.targets[0], ast.Name):
                tgt, val = x.targets[0].id, x.value
            elif isinstance(x, ast.AugAssign) and isinstance(x.target, ast.Name):
                tgt, val = x.target.id, x.value
            elif isinstance(x, ast.Expr) and isinstance(x.value, ast.Call) and isinstance(x.value.func, ast.Attribute) \
                    and x.value.func.attr in ("append", "extend", "insert") and isinstance(x.value.func.value, ast.Name) and x.value.args:
                tgt, val = x.value.func.value.id, x.value.args[-1]
            if tgt is None:
                continue
            new = labels_of(val)
            for y in ast.walk(val):
                if isinstance(y, ast.Name) and y.id in taint:
                    new |= taint[y.id]
            if not new <= taint.get(tgt, set()):
                taint[tgt] = taint.get(tgt, set()) | new
                changed = True
    adds = [c for c in calls_in(mc.node) if call_name(c) in ("_add_imports_to_module", "add_imports") and len(c.args) >= 2]
    if not adds:
        raise AnalysisError("anchor=moving_code_with_imports: call adding the imports to the moving code not found")
    got = set()
    for c in adds:
        a = c.args[-1]
        got |= labels_of(a)
        for y in ast.walk(a):
            if isinstance(y, ast.Name):
                got |= taint.get(y.id, set())
    missing = {"origin-imports", "back-import"} - got
    res.add("R05.4", "moving_code_with_imports|import-sources", not missing, f"{mc.unit.rel}:{adds[0].lineno}",
            "the imports added to the moved code derive from the origin's import statements and from the back-import of its own names" if not missing else
            f"the import list added to the moved code does not derive from {sorted(missing)}: the moved definition loses "
            + ("the modules its body uses (NameError at the destination)" if "origin-imports" in missing else
               "the names it used from the module it came from (helpers defined next to it)"), function=mc.qualname)
    # which names go into the back-import: everything of the origin that the moving code does not define itself; a name
    # may be left out only on evidence from the moving code or from the import statements that are copied along
    back = [c for c in calls_in(mc.node) if call_name(c) == "get_from_import" and len(c.args) >= 2]
    for c in back:
        src_expr = c.args[1]
        comp = None
        if isinstance(src_expr, ast.Name):
            for x in walk_local(mc.node):
                if isinstance(x, ast.Assign) and isinstance(x.targets[0], ast.Name) and x.targets[0].id == src_expr.id:
                    comp = x.value
        else:
            comp = src_expr
        if not isinstance(comp, (ast.ListComp, ast.SetComp, ast.GeneratorExp)) or len(comp.generators) != 1 or \
                not (isinstance(comp.generators[0].iter, ast.Name) and comp.generators[0].iter.id in origin):
            res.undecided("R05.4", "moving_code_with_imports|back-names", f"{mc.unit.rel}:{c.lineno}",
                          "the back-import name list is not a single comprehension over the origin module")
            continue
        elt = comp.generators[0].target.id if isinstance(comp.generators[0].target, ast.Name) else None
        conds = []
        for i in comp.generators[0].ifs:
            conds += list(i.values) if isinstance(i, ast.BoolOp) and isinstance(i.op, ast.And) else [i]
        moving_vars = {x.targets[0].id for x in walk_local(mc.node) if isinstance(x, ast.Assign) and isinstance(x.targets[0], ast.Name)
                       and isinstance(x.value, ast.Call) and call_name(x.value) == "get_string_module"}
        allowed_roots = moving_vars | {v for v, t in taint.items() if "origin-imports" in t}
        foreign = []
        for cnd in conds:
            okc = isinstance(cnd, ast.Compare) and len(cnd.ops) == 1 and isinstance(cnd.ops[0], ast.NotIn) and isinstance(cnd.left, ast.Name) \
                and cnd.left.id == elt and any(isinstance(y, ast.Name) and y.id in allowed_roots for y in ast.walk(cnd.comparators[0]))
            if not okc:
                foreign.append(cnd)
        res.add("R05.4", "moving_code_with_imports|back-names", not foreign, f"{mc.unit.rel}:{comp.lineno}",
                "a name of the origin is left out of the back-import only when the moving code defines it (or a copied import provides it)" if not foreign else
                f"the back-import leaves out names of the origin module on the condition `{ast.unparse(foreign[0])}`, which is evidence neither from the "
                "moving code nor from the import statements copied with it: a name the origin binds some other way (an import inside try/except or "
                "if/else, which is not a copied top-level import statement) reaches the moved code by neither route (NameError at the destination)",
                function=mc.qualname)
    # the destination adds the list it is given
    n4 = 1
    for f in sorted(mv_funcs, key=lambda f: f.qualname):
        got_vars = []
        for x in walk_local(f.node):
            if isinstance(x, ast.Assign) and isinstance(x.value, ast.Call) and call_name(x.value) in ("moving_code_with_imports", "_get_moving_element_with_imports") \
                    and isinstance(x.targets[0], ast.Tuple) and len(x.targets[0].elts) == 2 and f.name != "_get_moving_element_with_imports":
                got_vars.append((x, x.targets[0].elts[1].id, x.targets[0].elts[0].id))
        for x, imps, moving in got_vars:
            n4 += 1
            cfg = CFG(f.node)
            start = cfg.node_of_stmt(x)
            uses = lambda nd, v: nd.ast is not None and nd.kind in ("stmt", "test") and any(
                any(isinstance(y, ast.Name) and y.id == v for a in list(c.args) + [k.value for k in c.keywords] for y in ast.walk(a)) for c in _node_calls(nd))
            ok = start is not None and cfg.must_pass_through(start.id, cfg.exit.id, lambda nd: uses(nd, imps))
            res.add("R05.4", f"{_short(f)}|adds-imports", ok, f"{f.unit.rel}:{x.lineno}",
                    "the imports that come with the moving code are added to the destination on every path" if ok else
                    f"{_short(f)} receives the imports that belong to the moving code but has a path to its return that never hands them to an "
                    "import-adding call: the moved definition arrives without its imports", function=f.qualname)
    res.floor("R05.4", "import-carrying sites", n4, 2)

    # ------------------------------------------------------------------ R05.5 relative imports are made absolute
    ABS = "relatives_to_absolutes"
    all_funcs = [f for f in idx.functions.values() if f.unit.modname in (MOVE, "rope.refactor.topackage")]
    absr = _Summ(idx, all_funcs, lambda fn: {ABS} if any(call_name(c) == ABS for c in calls_in(fn)) else set())

    def absolutises(nd, f) -> bool:
        return any(call_name(c) == ABS or absr.of_call(f, c) for c in _node_calls(nd))

    n5 = 0
    # (a) the three single-object cases: every path to the announcement passes the absolutiser
    for fq, what in ((f"{MOVE}.moving_code_with_imports", "moved code"),
                     ("rope.refactor.topackage.ModuleToPackage.get_changes", "module turned into a package")):
        f = idx.need_func(fq)
        cfg = CFG(f.node)
        n5 += 1
        ok = cfg.must_pass_through(cfg.entry.id, cfg.exit.id, lambda nd, f=f: absolutises(nd, f))
        res.add("R05.5", f"{_short(f)}|absolutise", ok, f.where,
                f"every normal path passes through {ABS}" if ok else
                f"{_short(f)} has a path to its return that never calls {ABS}: the relative imports of the {what} are resolved against its NEW "
                "package afterwards and reach other modules (or none)", function=f.qualname)
    mm = idx.need_class(f"{MOVE}.MoveModule")
    calc = mm.methods.get("_calculate_changes")
    if calc is None:
        raise AnalysisError("anchor=MoveModule._calculate_changes missing")
    cfg = CFG(calc.node)
    loops = [n for n in cfg.nodes if n.kind == "loop" and isinstance(n.ast, ast.For)]
    if not loops:
        raise AnalysisError("anchor=MoveModule._calculate_changes: per-module loop missing")
    lp = loops[0]
    var = lp.ast.target.id if isinstance(lp.ast.target, ast.Name) else None

    src_branch = [nd for nd in cfg.nodes if absolutises(nd, calc) and any(pol and _is_eq_source(t, var) for t, pol in cfg.guards(nd.id))]
    member_branch = [nd for nd in cfg.nodes if absolutises(nd, calc) and any((not pol) and _is_eq_source(t, var) for t, pol in cfg.guards(nd.id))]
    n5 += 2
    res.add("R05.5", "MoveModule|moved-module", bool(src_branch), calc.where,
            f"the moving module itself goes through {ABS}" if src_branch else
            f"MoveModule never passes the moving module through {ABS}: its relative imports point into the wrong package after the move",
            function=calc.qualname)
    res.add("R05.5", "MoveModule|package-members", bool(member_branch), calc.where,
            f"modules other than the moved resource itself (the members of a moved package) can reach {ABS}" if member_branch else
            f"MoveModule calls {ABS} only for the resource that is being moved; when that resource is a package, the modules inside it are "
            "moved with their relative imports unchanged: `from .. import x` in pkg/mod.py is resolved against the new parent package "
            "after the move and fails (or imports something else)", function=calc.qualname)
    # the absolutiser of the moved module must not sit behind a folder test that excludes every file
    res.floor("R05.5", "absolutising obligations", n5, 4)

    # ------------------------------------------------------------------ R05.7 splice integrity
    n7 = 0
    for f in sorted(mv_funcs, key=lambda f: f.qualname):
        for x in walk_local(f.node):
            if not (isinstance(x, ast.BinOp) and isinstance(x.op, ast.Add)):
                continue
            # flatten the + chain; only top-most chains
            terms, todo = [], [x]
            while todo:
                e = todo.pop()
                if isinstance(e, ast.BinOp) and isinstance(e.op, ast.Add):
                    todo += [e.right, e.left]
                else:
                    terms.append(e)
            heads = [t for t in terms if isinstance(t, ast.Subscript) and isinstance(t.slice, ast.Slice) and t.slice.lower is None and t.slice.upper is not None]
            tails = [t for t in terms if isinstance(t, ast.Subscript) and isinstance(t.slice, ast.Slice) and t.slice.upper is None and t.slice.lower is not None]
            for h in heads:
                for tl in tails:
                    if norm(h.value) != norm(tl.value):
                        continue
                    n7 += 1
                    ok = norm(h.slice.upper) == norm(tl.slice.lower)
                    res.add("R05.7", f"{_short(f)}|splice#{n7}", ok, f"{f.unit.rel}:{x.lineno}",
                            "head and tail of the spliced text meet at the same offset" if ok else
                            f"{_short(f)} splices text as {ast.unparse(h)} + ... + {ast.unparse(tl)} with different cut points: part of the destination "
                            "module is duplicated or lost when the moved definition is inserted", function=f.qualname)
    res.floor("R05.7", "text splices in rope/refactor/move.py", n7, 1)


def _is_eq_source(t: ast.AST, var: Optional[str]) -> bool:
    if var is None or not (isinstance(t, ast.Compare) and len(t.ops) == 1 and isinstance(t.ops[0], ast.Eq)):
        return False
    a, b = t.left, t.comparators[0]
    is_var = lambda e: isinstance(e, ast.Name) and e.id == var
    is_src = lambda e: is_self_attr(e, "source")
    return (is_var(a) and is_src(b)) or (is_var(b) and is_src(a))


def _shared(ctx, res) -> None:
    # R05.8 (=R07.7): clients get their new import through add_import; two from-imports are the same only with the same level
    from .c07 import _from_import_identity_rule
    from .common import prefix_boundary_rule

    _from_import_identity_rule(ctx, res, "R05.8")
    from .common import relative_level_rule

    relative_level_rule(ctx, res, "R05.14")
    from .c16 import module_header_rule

    module_header_rule(ctx, res, "R05.15")
    # R05.9: "an existing import already provides the new one" is a test on dotted names
    prefix_boundary_rule(ctx, res, "R05.9", ["rope.refactor.importutils.actions.AddingVisitor.visitNormalImport"])
    # R05.10: a from-import's module_name is relative text when level > 0; comparing it with an ABSOLUTE dotted name is
    # only meaningful where the level has been tested (or the import has been resolved to a resource instead)
    idx = ctx.idx
    n10 = 0
    for f in sorted((f for f in idx.functions.values() if f.unit.modname == MOVE), key=lambda f: f.qualname):
        cfg = None
        k = 0
        for x in walk_local(f.node):
            if not (isinstance(x, ast.Compare) and len(x.ops) == 1 and isinstance(x.ops[0], (ast.Eq, ast.NotEq))):
                continue
            a, b = x.left, x.comparators[0]
            is_mn = lambda e: isinstance(e, ast.Attribute) and e.attr == "module_name"
            if is_mn(a) == is_mn(b):
                continue
            other = b if is_mn(a) else a
            if isinstance(other, ast.Constant):
                continue
            n10 += 1
            k += 1
            cfg = cfg or CFG(f.node)
            ok = any(any(isinstance(y, ast.Attribute) and y.attr == "level" for y in ast.walk(t))
                     for nd in cfg.node_containing(x) for t, pol in cfg.guards(nd.id))
            res.add("R05.10", f"{_short(f)}|level-blind#{k}", ok, f"{f.unit.rel}:{x.lineno}",
                    "the comparison with an absolute module name is made only where the import's level has been tested" if ok else
                    f"{_short(f)} compares a from-import's module_name with the absolute name `{ast.unparse(other)}` without looking at .level: a client "
                    "that imports the source module relatively (`from .src import f`) is not recognised, keeps its stale import after the move and "
                    "fails with ImportError when it is imported", function=f.qualname)
    res.floor("R05.10", "module_name comparisons with absolute names in move.py", n10, 2)

    # R05.11: `flag = flag or step(...)` inside a loop skips step() for every later element once the flag is set; if
    # step() edits the statements it is given, the later ones are left stale.  The effectful call must come first.
    mods = [f for f in idx.functions.values() if f.unit.modname in MODULES or f.unit.modname.startswith("rope.refactor.importutils")]
    by_name: Dict[str, List[FuncInfo]] = {}
    for f in mods:
        by_name.setdefault(f.name, []).append(f)

    def effectful(g: FuncInfo) -> bool:
        ps = set(g.call_params())
        for x in walk_local(g.node):
            if isinstance(x, (ast.Assign, ast.AugAssign)):
                for t in (x.targets if isinstance(x, ast.Assign) else [x.target]):
                    if isinstance(t, (ast.Attribute, ast.Subscript)) and isinstance(t.value, ast.Name) and t.value.id in ps:
                        return True
            if isinstance(x, ast.Call) and isinstance(x.func, ast.Attribute) and isinstance(x.func.value, ast.Name) and x.func.value.id in ps \
                    and (x.func.attr.startswith(("add", "empty", "remove", "append", "insert", "set_", "filter")) or x.func.attr in ("clear", "pop", "extend")):
                return True
        return False

    n11 = 0
    for f in sorted(mods, key=lambda f: f.qualname):
        for lp in [x for x in walk_local(f.node) if isinstance(x, (ast.For, ast.While))]:
            for st in [y for s_ in lp.body for y in [s_, *walk_local(s_)]]:
                if not (isinstance(st, ast.Assign) and len(st.targets) == 1 and isinstance(st.targets[0], ast.Name)
                        and isinstance(st.value, ast.BoolOp) and isinstance(st.value.op, ast.Or)):
                    continue
                flag = st.targets[0].id
                vals = st.value.values
                calls = [(i, v) for i, v in enumerate(vals) if isinstance(v, ast.Call)]
                flags = [i for i, v in enumerate(vals) if isinstance(v, ast.Name) and v.id == flag]
                if not calls or not flags:
                    continue
                for i, c in calls:
                    gs = [g for g in by_name.get(call_name(c), []) if (g.cls is not None) == isinstance(c.func, ast.Attribute)]
                    if not gs or not any(effectful(g) for g in gs):
                        continue
                    n11 += 1
                    ok = i < min(flags)
                    res.add("R05.11", f"{_short(f)}|accumulate:{call_name(c)}", ok, f"{f.unit.rel}:{st.lineno}",
                            "the effectful step is evaluated before the accumulated flag" if ok else
                            f"{_short(f)} accumulates `{flag} = {ast.unparse(st.value)}` inside a loop: once {flag} is true the call to {call_name(c)} "
                            "(which edits the import statement it is given) is short-circuited for every later statement, so a second stale "
                            "import of the moved module in the same client is left as it was", function=f.qualname)
    res.floor("R05.11", "flag-accumulating effectful steps in loops", n11, 1)

    # R05.12: whether a rename is the rename of a module is a fact about the OBJECT the name denotes (a from-imported or
    # aliased module is not an ImportedModule pyname), decided against the module base class
    # (found by its ROLE: the test under which Rename.get_changes announces the move of the module's file -- whether it is
    # written in place or in a one-line predicate such as _is_renaming_a_module)
    rm = idx.need_func("rope.refactor.rename.Rename.get_changes")
    rm_node = common.inlined(idx, rm)
    rcfg = CFG(rm_node)
    base = "rope.base.pyobjects.AbstractModule"
    idx.need_class(base)
    movers = [nd for nd in rcfg.nodes if nd.kind == "stmt" and nd.ast is not None and any(
        call_name(c) in (common.rename_module_step(idx).name, "MoveResource") for c in calls_in(nd.ast))]
    if not movers:
        raise AnalysisError("anchor=Rename.get_changes: the step that moves the renamed module's file not found")
    tests = []  # (isinstance call, the function whose locals it may name)
    for nd in movers:
        for t, pol in common.plain_guards(rcfg, nd.id):
            if pol:
                srcs = [t] + (common.flag_sources(rcfg, rm_node, t.id) if isinstance(t, ast.Name) else [])
                tests += [(y, rm_node) for e in srcs for y in ast.walk(e) if isinstance(y, ast.Call) and call_name(y) == "isinstance" and len(y.args) == 2]
                # a predicate of the class with several statements (`if not isinstance(obj, AbstractModule): return False` ...): its body is read
                for c in ast.walk(t):
                    if isinstance(c, ast.Call) and is_self_attr(c.func) and rm.cls is not None:
                        pm = idx.find_method(rm.cls.qualname, c.func.attr)
                        if pm is not None:
                            tests += [(y, pm.node) for y in ast.walk(pm.node) if isinstance(y, ast.Call) and call_name(y) == "isinstance" and len(y.args) == 2]
    ok12 = False
    why = "the move of the file is not guarded by any isinstance test"
    for t, owner in tests:
        on_object = any(isinstance(y, ast.Call) and call_name(y) == "get_object" for y in ast.walk(t.args[0]))
        if not on_object and isinstance(t.args[0], ast.Name):
            on_object = any(isinstance(x, ast.Assign) and isinstance(x.targets[0], ast.Name) and x.targets[0].id == t.args[0].id
                            and any(isinstance(y, ast.Call) and call_name(y) == "get_object" for y in ast.walk(x.value)) for x in walk_local(owner))
        ks = t.args[1].elts if isinstance(t.args[1], ast.Tuple) else [t.args[1]]
        quals = [idx.resolve(rm.unit.modname, k) for k in ks]
        covers = base in quals or {"rope.base.pyobjects.PyModule", "rope.base.pyobjects.PyPackage"} <= set(quals) or \
            {"rope.base.pyobjectsdef.PyModule", "rope.base.pyobjectsdef.PyPackage"} <= set(quals)
        if on_object and covers:
            ok12 = True
        elif not on_object:
            why = f"`{ast.unparse(t)}` tests the kind of the NAME, not the object it denotes"
        else:
            why = f"`{ast.unparse(t)}` does not cover every module class"
    res.add("R05.12", "Rename._is_renaming_a_module|object-not-name", ok12, rm.where,
            "module-ness is decided on get_object() against the module base class" if ok12 else
            f"Rename._is_renaming_a_module: {why}: a rename started on a module bound by `from pkg import mod` (an ImportedName whose object is a "
            "module) rewrites every importer but never moves the file, so every importer fails with ModuleNotFoundError", function=rm.qualname)

    # R05.13: the names of a from-import are single identifiers.  Where such a name is obtained by splitting a dotted
    # module name, it must be the LAST component (rsplit(sep, 1) / rpartition), else `from a import b.c` is emitted.
    n13 = 0
    for f in sorted((f for f in idx.functions.values() if f.unit.modname in MODULES or f.unit.modname.startswith("rope.refactor.importutils")),
                    key=lambda f: f.qualname):
        splits: Dict[str, Tuple[ast.Call, int, int]] = {}
        for x in walk_local(f.node):
            if isinstance(x, ast.Assign) and isinstance(x.targets[0], ast.Tuple) and isinstance(x.value, ast.Call) \
                    and isinstance(x.value.func, ast.Attribute) and x.value.func.attr in ("split", "rsplit", "partition", "rpartition") \
                    and x.value.args and const_str(x.value.args[0]) == ".":
                for i, t in enumerate(x.targets[0].elts):
                    if isinstance(t, ast.Name):
                        splits[t.id] = (x.value, i, len(x.targets[0].elts))
        for c in calls_in(f.node):
            if call_name(c) != "FromImport" or len(c.args) < 3 or not isinstance(c.args[2], ast.List):
                continue
            for e in c.args[2].elts:
                if isinstance(e, ast.Tuple) and e.elts and isinstance(e.elts[0], ast.Name) and e.elts[0].id in splits:
                    call, i, k = splits[e.elts[0].id]
                    n13 += 1
                    right = (call.func.attr == "rsplit" and len(call.args) == 2 and isinstance(call.args[1], ast.Constant) and call.args[1].value == 1) \
                        or call.func.attr == "rpartition"
                    ok = right and i == k - 1
                    res.add("R05.13", f"{_short(f)}|imported-name:{n13}", ok, f"{f.unit.rel}:{call.lineno}",
                            "the imported name is the last component of the dotted module name" if ok else
                            f"{_short(f)} builds `from <pkg> import <name>` with <name> taken from `{ast.unparse(call)}` (component {i + 1} of {k}): for a module "
                            "nested more than one package deep the name still contains a dot and the client gets `from a import b.c` (SyntaxError)",
                            function=f.qualname)
    res.floor("R05.13", "from-import names obtained by splitting a dotted name", n13, 1)

    # R05.16: an import statement rebuilt while walking the (name, alias) pairs of an existing one keeps each alias: the
    # client's code refers to the alias, not to the name
    n16 = 0
    for f in sorted((f for f in idx.functions.values() if f.unit.modname in MODULES or f.unit.modname.startswith("rope.refactor.importutils")),
                    key=lambda f: f.qualname):
        for lp in [x for x in walk_local(f.node) if isinstance(x, ast.For) and isinstance(x.target, ast.Tuple) and len(x.target.elts) == 2
                   and all(isinstance(e, ast.Name) for e in x.target.elts)]:
            nvar, avar = lp.target.elts[0].id, lp.target.elts[1].id
            if "alias" not in avar:
                continue
            for c in [y for s_ in lp.body for y in [s_, *walk_local(s_)] if isinstance(y, ast.Call) and call_name(y) in ("FromImport", "NormalImport")]:
                for lst in [a for a in c.args if isinstance(a, ast.List)]:
                    for e in lst.elts:
                        if isinstance(e, ast.Tuple) and len(e.elts) == 2:
                            n16 += 1
                            ok = isinstance(e.elts[1], ast.Name) and e.elts[1].id == avar
                            res.add("R05.16", f"{_short(f)}|alias-kept#{n16}", ok, f"{f.unit.rel}:{e.lineno}",
                                    "the rebuilt import keeps the alias of the pair it replaces" if ok else
                                    f"{_short(f)} rebuilds an import for `{ast.unparse(e.elts[0])}` with alias `{ast.unparse(e.elts[1])}` instead of the alias of the pair it "
                                    "is walking: `from pkg import mod as m` becomes `from pkg2 import mod` while the client still calls `m.f()` (NameError)",
                                    function=f.qualname)
    res.floor("R05.16", "imports rebuilt pair by pair", n16, 1)


def _moving_text_is_not_reindented_rule(ctx, res) -> None:
    """R05.22: a global that is moved is a TOP-LEVEL definition: its text is cut out of the module as it stands.  A definition that sits
    inside a module-level `if` / `try` (a platform switch, an optional speed-up with a second variant in the `else` arm) is defined
    conditionally; lifted out of its block it becomes unconditional, the names of its block come back as imports that fail when the
    block did not run, and the variant that stays behind is rewritten as if it were the moved one.  rope refuses such a move because
    the indented text does not parse on its own.  The function that cuts the moving text out therefore does not re-indent it (no
    `fix_indentation` / `indent_lines` / `textwrap.dedent` on the way)."""
    from .common import with_private_helpers
    idx = ctx.idx
    f = idx.need_func("rope.refactor.move.MoveGlobal._get_moving_element")
    fam = with_private_helpers(idx, f, depth=2)
    bad = [(g, c) for g in fam for c in calls_in(g.node) if call_name(c) in ("fix_indentation", "indent_lines", "dedent", "get_body")]
    res.add("R05.22", "MoveGlobal._get_moving_element|moving-text-is-taken-as-written", not bad, f.where if not bad else f"{bad[0][0].unit.rel}:{bad[0][1].lineno}",
            "the text of the moved global is cut out as it stands" if not bad else
            f"`{ast.unparse(bad[0][1])[:60]}` re-indents the text of the moved global: a definition inside a module-level `if` / `try` block is accepted and lifted out of its condition -- "
            "names of its block come back as `from source import NAME` (ImportError when the block did not run), and with a second variant in the `else` arm the remaining "
            "`def` header is rewritten (`def util.checksum(data):`), so the source module no longer compiles", function=f.qualname)


def _filter_selects_the_module_itself_rule(ctx, res) -> None:
    """R05.25: after a global was moved, the imports of every client are cleaned of the stale name by organize_imports, which touches only the
    statements the import filter SELECTS.  An absolute `from <source module> import name` is the plainest form there is: the filter
    answers for it by the equality `<info>.module_name == <name of the source module>`.  When the source module lives in a package the
    filter first looks at the other form (`from <package> import <module>`) -- and the equality test must still be reached when that form
    does not match: from the TRUE side of the `"." in module_name` test there is a path to the return that holds the equality.  An early
    `return <package form>` inside that branch leaves `from pkg.src import f` unselected: the stale import stays, next to the new one, and
    the client raises ImportError when it is imported."""
    from ..cfg import CFG
    idx = ctx.idx
    cls = idx.need_class("rope.refactor.move.MoveGlobal")
    n = 0
    for m in sorted(cls.methods.values(), key=lambda m: m.name):
        modnames = {t.id for a in walk_local(m.node) if isinstance(a, ast.Assign) and isinstance(a.value, ast.Call) and call_name(a.value) == "modname"
                    for t in a.targets if isinstance(t, ast.Name)}
        if not modnames or not any(isinstance(p, ast.arg) and p.arg == "stmt" for p in m.node.args.args):
            continue
        fnode = common.inline_private_calls(idx, m)
        cfg = CFG(fnode)

        def is_equality(e) -> bool:
            return any(isinstance(c, ast.Compare) and len(c.ops) == 1 and isinstance(c.ops[0], ast.Eq)
                       and any(isinstance(s, ast.Attribute) and s.attr == "module_name" for s in (c.left, c.comparators[0]))
                       and any(isinstance(s, ast.Name) and s.id in modnames for s in (c.left, c.comparators[0])) for c in ast.walk(e))

        answers = [nd for nd in cfg.nodes if nd.kind == "stmt" and isinstance(nd.ast, ast.Return) and nd.ast.value is not None
                   and (is_equality(nd.ast.value) or any(pol and is_equality(t) for t, pol in cfg.guards(nd.id)))]
        dotted = [nd for nd in cfg.nodes if nd.kind == "test" and isinstance(nd.ast, ast.Compare) and len(nd.ast.ops) == 1 and isinstance(nd.ast.ops[0], ast.In)
                  and isinstance(nd.ast.left, ast.Constant) and nd.ast.left.value == "." and isinstance(nd.ast.comparators[0], ast.Name) and nd.ast.comparators[0].id in modnames]
        n += 1
        if not answers:
            ok, why = False, "no answer is decided by the equality of the statement's module name with the source module's name"
        else:
            ok, why = True, ""
            for d in dotted:
                for b, lab in cfg.succ[d.id]:
                    if lab == "true" and not any(a.id in cfg.reachable(b) or a.id == b for a in answers):
                        ok, why = False, "inside the branch for a source module in a package the answer is returned from the `from <package> import <module>` form alone: the equality test is never reached"
        res.add("R05.25", f"MoveGlobal.{m.name}|from-import-of-the-source-module-is-selected", ok, m.where,
                "an absolute from-import of the source module is selected whether or not the module lives in a package" if ok else
                f"MoveGlobal.{m.name}: {why}.  `from pkg.src import scale` in a client is then not selected, organize_imports leaves it as it is next to the new `import pkg.dst`, "
                "and the client raises ImportError (cannot import name 'scale' from 'pkg.src') when it is imported", function=m.qualname)
    res.floor("R05.25", "import filters of MoveGlobal", n, 1)
