"""C08 -- source-annotated syntax tree (VGC + RCA rules R08.1-R08.13)."""
from __future__ import annotations

import ast
import tokenize
from typing import Dict, List, Optional, Set

from .. import fold, rca
from .. import vgc as vgc_mod
from ..core import AnalysisError, call_name, calls_in, const_str, dotted, is_self_attr, walk_local
from ..grammar import G

EXPLANATION = (
    "R08.1: every constructor ast.parse(mode='exec') can produce has a _<T> method on the patching walker, or is "
    "folded into every parent handler (the parent's children list contains the constructor's sub-fields).  R08.2: for "
    "every handler, every node-typed field of T flows (abstract interpretation of the list-building code, through "
    "helper methods and by-reference list mutation) into the children sequence handed to _handle -- otherwise the "
    "nodes below that field never receive .region.  R08.3: the operator table has an entry for every operator "
    "constructor of the grammar.  R08.4: each sub-language of tokenize.Number is included (DFA product, counter-example "
    "reported) in rope's number pattern.  R08.5: every tokenizer string prefix followed by a string body is a word of "
    "rope's string/f-string patterns.  R08.6: a first-match search over the walker's stack of open nodes iterates innermost-first "
    "(reverse of the push order).  R08.7: the parameter-list layout pairs defaults with exactly posonlyargs + args (padded idiom "
    "included) and kw_defaults with kwonlyargs.  R08.8 (=R14.6): the line table that turns the interpreter's line numbers into offsets breaks lines at '\\n' only.  Token search, parenthesis attribution and write-back equality are not decided."
    ' R08.10: every forward search of the token source starts at the cursor self.offset.'
)
EXPLANATION += ' R08.12: the comment test of the token source looks at the LAST `#` before the token.'
EXPLANATION += ' R08.2 is per branch for dispatching handlers: each method the node is handed to covers every field but those the dispatch test looks at.'
EXPLANATION += ' R08.11: a `col_offset`/`end_col_offset` of an AST node (UTF-8 bytes) reaches a character offset only through codeanalyze.column_to_offset; it is otherwise only compared, or is the start column of a node tested to be a statement.'
EXPLANATION += " R08.13: the backward token search returns a found index only under a positive comment test."
EXPLANATION += " R08.14: no slice of the source between two named positions is empty by construction (its upper bound a copy, on every path, of the name its lower bound is computed from)."
ASSUMPTIONS = [
    "language inclusion is decided over ASCII plus representatives of the non-ASCII \\w/\\d/\\s classes",
    "zero-width assertions in rope's patterns are erased on the right-hand side (can only enlarge rope's language)",
]

WALKER = "rope.refactor.patchedast._PatchingASTWalker"
SOURCE = "rope.refactor.patchedast._Source"
TOKEN_SUMS = {"boolop", "operator", "unaryop", "cmpop", "expr_context"}
# fields that never carry source text
EXEMPT_FIELDS = {("Module", "type_ignores"): "only populated with type_comments=True, which rope never passes"}


def _sink_paths(v, ctor: str) -> Optional[Set[str]]:
    h = v.handler(WALKER, ctor)
    if h is None:
        return None
    out: Set[str] = set()
    for e in v.summary(WALKER, h).effects:
        if e.kind == "sink":
            out |= set(e.paths)
    return out


def _covers(sink: Set[str], fld, depth: int = 0) -> bool:
    """Field is covered if it is handed over whole (f or f.*), or -- for a product-typed field -- if every
    node-typed sub-field of the product is handed over (folding)."""
    f = fld.name
    if f in sink or f"{f}.*" in sink:
        return True
    if fld.type in G.products and depth < 2:
        sub = G.ctors[fld.type]
        need = [g for g in sub.fields if g.is_node and g.type not in TOKEN_SUMS]
        subsink = {p[len(f) + 1:] for p in sink if p.startswith(f + ".")}
        return bool(need) and all(_covers(subsink, g, depth + 1) for g in need)
    return False


def check(ctx, res) -> None:
    _check_main(ctx, res)
    _stack_rule(ctx, res)
    _alignment_rule(ctx, res)
    # R08.8 (=R14.6): the walker converts the interpreter's line numbers to offsets through the line table
    from .c14 import line_table_rule

    line_table_rule(ctx, res, "R08.8")
    _fstring_family_rule(ctx, res)
    _cursor_rule(ctx, res)
    # R08.11: the walker's offsets are character offsets; a byte column of the AST is converted or only compared
    from .common import byte_column_rule, column_to_offset_anchor

    column_to_offset_anchor(ctx, res, "R08.11")
    byte_column_rule(ctx, res, "R08.11", ("rope.refactor.patchedast",), rest=True)
    _no_slice_empty_by_construction_rule(ctx, res)
    _comment_test_rule(ctx, res)
    _backward_search_passes_the_comment_test_rule(ctx, res)


def _cursor_rule(ctx, res) -> None:
    """R08.10: the token source keeps ONE cursor, `self.offset`.  Whether a found token lies in a comment is decided by
    scanning from the cursor (`_good_token`), and skipping a comment moves the cursor to the end of the line.  Every
    FORWARD search of the source text therefore starts at the cursor: a search resumed from somewhere else (the end of a
    rejected match) can return a token that lies before the cursor -- inside the comment just skipped -- and the comment
    scan, given an empty range, accepts it."""
    idx = ctx.idx
    src = idx.need_class(SOURCE)
    n = 0
    for mname, m in sorted(src.methods.items()):
        for c in calls_in(m.node):
            if not isinstance(c.func, ast.Attribute) or c.func.attr not in ("index", "find", "search", "match"):
                continue
            if c.func.attr in ("index", "find"):
                if not is_self_attr(c.func.value, "source") or len(c.args) < 2:
                    continue
                start = c.args[1]
            else:
                if not (c.args and is_self_attr(c.args[0], "source")) or len(c.args) < 2:
                    continue
                start = c.args[1]
            n += 1
            ok = any(is_self_attr(x, "offset") for x in ast.walk(start))
            res.add("R08.10", f"_Source.{mname}|search-from-cursor#{n}", ok, f"{m.unit.rel}:{c.lineno}",
                    "the forward search starts at the cursor" if ok else
                    f"`{ast.unparse(c)}` starts at `{ast.unparse(start)}`, not at the cursor self.offset: after a comment was skipped the search can return a "
                    "token that lies before the cursor (a second number / comma / string inside the same comment), `_good_token` scans an empty range and "
                    "accepts it, and the node's region is text inside a comment", function=m.qualname)
    res.floor("R08.10", "forward searches of the token source", n, 4)


def _check_main(ctx, res) -> None:
    idx = ctx.idx
    idx.need_class(WALKER)
    v = vgc_mod.VGC(idx)
    v.sink_methods = {"_handle"}
    reachable = G.reachable_ctors("Module")
    ctors = sorted(c for c in reachable if G.ctors[c].sum not in TOKEN_SUMS | {"type_ignore"})
    res.floor("R08.1", "constructors reachable from Module", len(ctors), 75)

    # ---- R08.1 / R08.2
    n_handlers = 0
    for c in ctors:
        ct = G.ctors[c]
        h = v.handler(WALKER, c)
        if h is None:
            # folded?  every (parent, field) of this type must hand over this constructor's node fields
            parents = [(p.name, f) for p in G.ctors.values() if p.name in reachable for f in p.fields
                       if c in G.ctors_of(f.type)]
            bad = []
            for pn, f in parents:
                sink = _sink_paths(v, pn)
                if sink is None or not _covers(sink, f):
                    bad.append(f"{pn}.{f.name}")
            res.add("R08.1", c, not bad, idx.classes[WALKER].where,
                    f"{c} has no handler but is folded into its parent handlers" if not bad else
                    f"the patching walker has no _{c} method and {bad} do not place its sub-fields among their children: "
                    f"a {c} node gets the 'unknown node' fallback (empty region at the current offset, warning)")
            continue
        n_handlers += 1
        res.ok("R08.1", c, h.where, f"handler {h.name}")
        sink = _sink_paths(v, c) or set()
        if not any(e.kind == "sink" for e in v.summary(WALKER, h).effects):
            res.undecided("R08.2", c, h.where, "handler never reaches _handle (idiom not recognised)")
            continue
        for f in ct.fields:
            if not f.is_node or f.type in TOKEN_SUMS or (c, f.name) in EXEMPT_FIELDS:
                continue
            ok = _covers(sink, f)
            res.add("R08.2", f"{c}.{f.name}", ok, h.where,
                    f"{c}.{f.name} is placed among the children" if ok else
                    f"_{c} never places node.{f.name} among the children it hands to _handle: the node(s) below {c}.{f.name} never receive "
                    f".region/.sorted_children (children expression covers {sorted(sink)})")
        # a handler that only DISPATCHES (`if len(node.finalbody): self._TryFinally(node) else: self._TryExcept(node)`):
        # the union above hides a field that one of the branches forgets.  Each method the node is handed to as a whole
        # must cover every field itself -- except the fields the dispatch test looks at (known empty on one side).
        for st in h.node.body:
            if not isinstance(st, ast.If):
                continue
            tested = {x.attr for x in ast.walk(st.test) if isinstance(x, ast.Attribute)}
            for nm in [x.id for x in ast.walk(st.test) if isinstance(x, ast.Name)]:  # a test that was given a name
                defs = [a.value for a in h.node.body if isinstance(a, ast.Assign) and len(a.targets) == 1 and isinstance(a.targets[0], ast.Name) and a.targets[0].id == nm]
                if len(defs) == 1:
                    tested |= {x.attr for x in ast.walk(defs[0]) if isinstance(x, ast.Attribute)}
            branch_calls = [c for b in (st.body, st.orelse) for s_ in b for c in ast.walk(s_)
                            if isinstance(c, ast.Call) and is_self_attr(c.func) and len(c.args) == 1 and isinstance(c.args[0], ast.Name)
                            and c.args[0].id in [a.arg for a in h.node.args.args[1:2]]]
            for c_ in branch_calls:
                m_ = idx.find_method(WALKER, c_.func.attr)
                if m_ is None or m_ is h:
                    continue
                msink: Set[str] = set()
                for e in v.summary(WALKER, m_).effects:
                    if e.kind == "sink":
                        msink |= set(e.paths)
                if not msink:
                    continue
                for f in ct.fields:
                    if not f.is_node or f.type in TOKEN_SUMS or (c, f.name) in EXEMPT_FIELDS or f.name in tested:
                        continue
                    okb = _covers(msink, f)
                    res.add("R08.2", f"{c}.{f.name}@{m_.name}", okb, m_.where,
                            f"{m_.name} places node.{f.name} among the children" if okb else
                            f"_{c} hands the whole node to {m_.name}, which never places node.{f.name} among the children it hands to _handle: on that branch the "
                            f"node(s) below {c}.{f.name} never receive .region/.sorted_children, and their text is scanned for the next token "
                            f"(children expression covers {sorted(msink)})")
    res.floor("R08.1", "handlers", n_handlers, 70)

    # ---- R08.3 operator table
    w = idx.classes[WALKER]
    table = w.class_attrs.get("_operators")
    if not isinstance(table, ast.Dict):
        raise AnalysisError("anchor=_PatchingASTWalker._operators dict literal not found")
    keys = {const_str(k) for k in table.keys}
    need = set()
    for s in ("boolop", "operator", "unaryop", "cmpop"):
        need |= set(G.sums[s])
    missing = sorted(need - keys)
    res.add("R08.3", "_operators", not missing, f"{w.unit.rel}:{table.lineno}",
            f"operator table covers all {len(need)} operator constructors" if not missing else
            f"operator table has no entry for {missing}: annotating an expression using that operator raises KeyError",
            operators=len(need))
    # spelled tokens agree with the interpreter's own unparser table where one exists
    spelled = {const_str(k): const_str(val) for k, val in zip(table.keys, table.values)}
    ref = {}
    up = getattr(ast, "_Unparser", None)
    if up is not None:
        for attr in ("binop", "unop", "cmpops", "boolops"):
            ref.update(getattr(up, attr, {}))
    wrong = sorted(k for k, val in spelled.items() if k in ref and ref[k] != val)
    res.add("R08.3", "_operators|spelling", not wrong, f"{w.unit.rel}:{table.lineno}",
            f"{len(set(spelled) & set(ref))} operator spellings agree with ast's own unparser table" if not wrong else
            f"operator spellings differ from the interpreter's for {wrong}: the token search consumes the wrong text")

    # ---- R08.4 numbers
    folder = fold.get(ctx)
    src = idx.need_class(SOURCE)
    npat_m = idx.need_func(SOURCE + "._get_number_pattern")  # a method, or moved to module level
    try:
        npat = folder.call_function(npat_m.qualname)
    except fold.Unfoldable as e:
        raise AnalysisError(f"number pattern not foldable: {e}")
    res.analysed["number_pattern"] = npat
    rope_num = rca.build(npat, erase_assertions=True)
    subs = ["Hexnumber", "Binnumber", "Octnumber", "Decnumber", "Pointfloat", "Expfloat", "Imagnumber"]
    n4 = 0
    for name in subs:
        pat = getattr(tokenize, name, None)
        if pat is None:
            continue
        try:
            tok = rca.build(pat)
        except rca.Undecided as e:
            res.undecided("R08.4", name, npat_m.where, f"tokenizer pattern not analysable: {e}")
            continue
        for variant, excl in (("plain", {"_"}), ("underscore", set())):
            n4 += 1
            sigma_backup = rca.UNIVERSE[:]
            try:
                if excl:
                    rca.UNIVERSE[:] = [c for c in sigma_backup if c not in excl]
                ok, cex, states = rca.included(tok, rope_num)
            finally:
                rca.UNIVERSE[:] = sigma_backup
            if variant == "underscore" and not ok and "_" not in (cex or ""):
                # same failure as the plain variant; do not double-report
                continue
            res.add("R08.4", f"{name}|{variant}", ok, npat_m.where,
                    f"L(tokenize.{name}{' without _' if excl else ''}) is included in rope's number pattern ({states} product states)" if ok else
                    f"the tokenizer accepts the {name} literal {cex!r} but rope's number pattern does not match it whole: "
                    f"the Constant node gets the region of a prefix of the literal (e.g. x = {cex})",
                    counter_example=cex)
    res.floor("R08.4", "number sub-languages x variants", n4, 12)

    # ---- R08.5 string prefixes
    try:
        sp = folder.call_function("rope.base.codeanalyze.get_string_pattern")
        fp = folder.call_function("rope.base.codeanalyze.get_formatted_string_pattern")
    except fold.Unfoldable as e:
        raise AnalysisError(f"string patterns not foldable: {e}")
    # the walker must use exactly these two (consume_string)
    cs = src.methods.get("consume_string")
    from .common import with_private_helpers
    used = {call_name(c) for g in with_private_helpers(idx, cs) for c in calls_in(g.node)} if cs else set()  # the pattern may be built in a private helper
    if not {"get_string_pattern", "get_formatted_string_pattern"} <= used:
        raise AnalysisError("anchor=_Source.consume_string no longer builds its pattern from get_string_pattern/get_formatted_string_pattern")
    both = rca.build(f"(?:{sp})|(?:{fp})", erase_assertions=True)
    groups: Dict[str, List[str]] = {}
    for p in sorted(tokenize._all_string_prefixes()):
        groups.setdefault(p.lower(), []).append(p)
    for low, variants in sorted(groups.items()):
        bad = [p for p in variants if not (rca.accepts(both, p + '"x"') and rca.accepts(both, p + "'''x\ny'''"))]
        res.add("R08.5", f"prefix:{low or '(none)'}", not bad, cs.where,
                f"string prefix {variants} + body is a word of rope's string patterns" if not bad else
                f"string literals with prefix {bad} are not matched whole by rope's string/f-string patterns: the literal's region starts "
                "after (part of) the prefix")
    res.floor("R08.5", "prefix groups", len(groups), 8)


def _stack_rule(ctx, res) -> None:
    """R08.6: the walker keeps the not-yet-consumed children of every open node on a stack (innermost last).  A
    first-match search over that stack ("the next statement", which bounds how far a string literal may extend) must
    look at the innermost block first, i.e. iterate in the reverse of the push order."""
    from .c10 import _insert_discipline, _iter_discipline

    idx = ctx.idx
    w = idx.need_class("rope.refactor.patchedast._PatchingASTWalker")
    init = w.methods.get("__init__")
    stacks = set()
    for n in walk_local(init.node) if init else []:
        if isinstance(n, ast.Assign) and isinstance(n.value, ast.List) and not n.value.elts:
            stacks |= {t.attr for t in n.targets if is_self_attr(t) and t.attr.endswith("stack")}
    if not stacks:
        raise AnalysisError("anchor=_PatchingASTWalker.__init__: no `self.<x>stack = []` found")
    n = 0
    for attr in sorted(stacks):
        pushes = []
        for m in w.methods.values():
            for c in calls_in(m.node):
                if isinstance(c.func, ast.Attribute) and is_self_attr(c.func.value, attr) and c.func.attr in ("append", "insert", "appendleft"):
                    pushes.append(_insert_discipline(c))
        if not pushes or None in pushes or len(set(pushes)) != 1:
            continue
        push = pushes[0]
        for mname, m in sorted(w.methods.items()):
            for loop in [x for x in walk_local(m.node) if isinstance(x, ast.For)]:
                from .common import _subst_single_locals
                liter = _subst_single_locals(m.node, loop.iter)  # the iterable may be held in a local
                while isinstance(liter, ast.Call) and (dotted(liter.func) or "").endswith("chain.from_iterable") and len(liter.args) == 1:
                    liter = liter.args[0]  # flattening the entries keeps their order
                if not any(is_self_attr(x, attr) for x in ast.walk(liter)):
                    continue
                first_match = any(isinstance(x, (ast.Return, ast.Break)) for s_ in loop.body for x in [s_, *walk_local(s_)])
                if not first_match:
                    continue
                n += 1
                # normalise `reversed(self.stack)` etc. by substituting a plain name for the attribute
                class _Sub(ast.NodeTransformer):
                    def visit_Attribute(self, node):
                        return ast.Name(id="__stack__", ctx=ast.Load()) if is_self_attr(node, attr) else self.generic_visit(node)
                import copy
                it = _Sub().visit(copy.deepcopy(liter))
                disc = _iter_discipline(ast.For(target=loop.target, iter=it, body=loop.body, orelse=[]), "__stack__")
                if disc is None:
                    res.undecided("R08.6", f"_PatchingASTWalker.{mname}|{attr}", f"{m.unit.rel}:{loop.lineno}",
                                  f"iteration order over self.{attr} not recognised ({ast.unparse(loop.iter)})")
                    continue
                ok = (push, disc) in (("back", "backward"), ("front", "forward"))
                res.add("R08.6", f"_PatchingASTWalker.{mname}|{attr}", ok, f"{m.unit.rel}:{loop.lineno}",
                        f"first-match search over self.{attr} starts at the innermost open node" if ok else
                        f"{mname} searches self.{attr} from the OUTERMOST open node ({ast.unparse(loop.iter)}; entries are pushed at the {push}): the 'next "
                        "statement' that bounds a string literal is taken from an enclosing block, so a string inside a nested block swallows the string "
                        "that starts the following statement and annotating the module fails or regions overlap", function=m.qualname)
    res.floor("R08.6", "first-match searches over the walker's stacks", n, 1)


def _alignment_rule(ctx, res) -> None:
    """R08.7: where the walker lays out a parameter list it pairs default values with the parameters the language
    reference aligns them with (defaults: the tail of posonlyargs + args; kw_defaults: kwonlyargs element-wise).  The
    padded idiom `[None] * (len(X) - len(defaults)) + defaults` zipped with Y needs X and Y to be that same list."""
    from .. import argalign

    idx = ctx.idx
    n = 0
    for f in sorted(idx.functions.values(), key=lambda f: f.qualname):
        if f.unit.modname != "rope.refactor.patchedast" or not argalign.destructures(f.node):
            continue
        rd = argalign.reads(f.node)
        ps = argalign.pairings(f.node)
        seen = set()
        for pr in ps:
            n += 1
            seen.add(pr.which)
            allowed = "posonlyargs + args" if pr.which == "defaults" else "kwonlyargs"
            res.add("R08.7", f"{f.name}|pairs:{pr.which}", pr.ok, f"{f.unit.rel}:{pr.node.lineno}",
                    f"{pr.which} is aligned with exactly {allowed}" if pr.ok else
                    f"{f.name} aligns arguments.{pr.which} with {sorted(pr.labels)}" + (f" after padding to the length of {sorted(pr.pad_labels)}" if pr.pad_labels is not None else "")
                    + f" instead of exactly {allowed}: with positional-only parameters a default is attached to the wrong parameter (token mismatch: annotating the "
                    "module fails) or trailing parameters get no region", function=f.qualname)
        for which in ("defaults", "kw_defaults"):
            if which in rd and which not in seen:
                res.undecided("R08.7", f"{f.name}|pairs:{which}", f.where, f"how {which} is aligned with parameters was not recognised")
    res.floor("R08.7", "default alignments in the patched-AST walker", n, 2)


def _fstring_family_rule(ctx, res) -> None:
    """R08.9: the token stream of an f-string is walked through two node kinds, JoinedStr and FormattedValue (its
    replacement fields; a format spec is a JoinedStr again).  Wherever the walker's token loop treats f-string tokens
    specially (no comment skipping: '#' is ordinary text there), the test names BOTH kinds."""
    idx = ctx.idx
    f = idx.need_func("rope.refactor.patchedast._PatchingASTWalker._handle")
    from ..cfg import CFG
    from .common import with_private_helpers
    n = 0
    sites = [(g, c) for g in with_private_helpers(idx, f) for c in calls_in(g.node) if call_name(c) == "consume_joined_string"]
    for g, c in sites:
        cfg = CFG(g.node)
        # the selection of the special consumption path, read off the CFG: the isinstance test(s) that hold on every
        # path to the call (however the if/elif/else chain is written)
        tests = [t for nd in cfg.node_containing(c) for t, pol in cfg.guards(nd.id)
                 if pol and isinstance(t, ast.Call) and call_name(t) == "isinstance" and len(t.args) == 2]
        for x in tests:
            ks = x.args[1].elts if isinstance(x.args[1], ast.Tuple) else [x.args[1]]
            names = {(e.attr if isinstance(e, ast.Attribute) else getattr(e, "id", "")) for e in ks}
            if not names & {"JoinedStr", "FormattedValue"}:
                continue
            n += 1
            ok = {"JoinedStr", "FormattedValue"} <= names
            res.add("R08.9", f"_handle|fstring-family#{n}", ok, f"{g.unit.rel}:{x.lineno}",
                    "the f-string token path is selected for JoinedStr and FormattedValue alike" if ok else
                    f"_handle selects the f-string token path with `{ast.unparse(x)}` only: the tokens of a replacement field ({{, :, format spec, }}) go through "
                    "the ordinary consumer, which takes a '#' in the literal text before the field for a comment start (f\"issue #{n}\"): annotating fails "
                    "with MismatchedTokenError or regions are taken from a later line", function=g.qualname)
    res.floor("R08.9", "f-string selections in the token loop", n, 1)


def _comment_test_rule(ctx, res) -> None:
    """R08.12: whether a found token lies in a comment is decided by the LAST `#` between the cursor and the token: the token is
    comment text exactly when no line break follows that `#`.  A search for the FIRST `#` answers for some earlier comment: with
    two comments between two tokens (`# a` / `# not except here` / `except E:`) the line break after the first one makes the
    word in the second look like code, and the node's region starts inside the comment.  In the comment test of the token
    source every search for the character `#` is a last-occurrence search (`rindex` / `rfind`)."""
    from .common import with_private_helpers
    idx = ctx.idx
    src = idx.need_class(SOURCE)
    m = src.methods.get("_good_token")
    if m is None:
        # by role: the method that looks for "#" and for a line break between two offsets
        m = next((x for x in src.methods.values() if any(const_str(a) == "#" for c in calls_in(x.node) for a in c.args)
                  and any(const_str(a) == "\n" for c in calls_in(x.node) for a in c.args)), None)
    if m is None:
        raise AnalysisError("anchor=_Source: the comment test of found tokens not found")
    # the test proper may live in a private helper of the method (a function of the module handed the text and the offsets)
    searches = [c for g in with_private_helpers(idx, m) for c in calls_in(g.node)
                if isinstance(c.func, ast.Attribute) and c.func.attr in ("index", "find", "rindex", "rfind") and c.args and const_str(c.args[0]) == "#"]
    # ... or through a helper that is handed the character: `self._last_index("#", start, offset)` with `rindex(char, ...)` inside
    via = {}
    for g in with_private_helpers(idx, m):
        for c in calls_in(g.node):
            if is_self_attr(c.func) and any(const_str(a) == "#" for a in c.args):
                h = src.methods.get(c.func.attr)
                if h is None:
                    continue
                j = next(i for i, a in enumerate(c.args) if const_str(a) == "#")
                hp = [a.arg for a in h.node.args.args][1:]
                if j >= len(hp):
                    continue
                inner = [x for x in calls_in(h.node) if isinstance(x.func, ast.Attribute) and x.func.attr in ("index", "find", "rindex", "rfind")
                         and x.args and isinstance(x.args[0], ast.Name) and x.args[0].id == hp[j]]
                for x in inner:
                    searches.append(c)
                    via[id(c)] = x.func.attr
    if not searches:
        raise AnalysisError("anchor=_Source._good_token: no search for '#'")
    for k, c in enumerate(searches, 1):
        ok = via.get(id(c), c.func.attr) in ("rindex", "rfind")
        res.add("R08.12", f"_Source.{m.name}|last-hash-decides#{k}", ok, f"{m.unit.rel}:{c.lineno}",
                "the comment test looks at the last `#` before the token" if ok else
                f"`{ast.unparse(c)[:60]}` finds the FIRST `#` between the cursor and the token: when an earlier comment line lies in between, the line break after it makes a "
                "word inside a later comment pass for code -- `except` / `finally` / an argument name mentioned in a comment gets the node's region, which then "
                "disagrees with the interpreter's position (or the annotation raises MismatchedTokenError)", function=m.qualname)


def _backward_search_passes_the_comment_test_rule(ctx, res) -> None:
    """R08.13: the backward search for a token (`rfind_token`, used to find the opening parenthesis of a parenthesised operand) hands back a
    candidate only after the comment test said it is code: every `return <found index>` stands under a positive `_good_token(...)`.
    A shortcut "no line break between the candidate and the end, so it is real" is right for the FIRST candidate only -- after a
    rejection the end of the search window lies inside the comment, and an earlier `(` of the same comment line passes it:
    `x = (  # f(x) (see note)` / `a + b) * 2` gets a region that starts in the comment, or the annotation fails with
    MismatchedTokenError."""
    from .common import inlined
    from ..cfg import CFG
    idx = ctx.idx
    src = idx.need_class(SOURCE)
    m = src.methods.get("rfind_token")
    if m is None:
        raise AnalysisError("anchor=_Source.rfind_token not found")
    cfg = CFG(inlined(idx, m))
    n = 0
    for nd in cfg.nodes:
        if nd.kind != "stmt" or not isinstance(nd.ast, ast.Return) or nd.ast.value is None or (isinstance(nd.ast.value, ast.Constant) and nd.ast.value.value is None):
            continue
        n += 1
        ok = any(pol and any(isinstance(c, ast.Call) and call_name(c) in ("_good_token", "_is_outside_comment") for c in ast.walk(t)) for t, pol in cfg.guards(nd.id))
        res.add("R08.13", f"_Source.rfind_token|found-index-passed-the-comment-test#{n}", ok, f"{m.unit.rel}:{nd.lineno}",
                "the found index is returned only after the comment test" if ok else
                f"`{ast.unparse(nd.ast)}` hands back a candidate that did not pass the comment test: after one rejected candidate the window ends inside the comment, and an earlier "
                "`(` on the same comment line is returned as a real parenthesis -- `x = (  # f(x) (see note)` / `    a + b) * 2`: the operand's region starts inside the comment "
                "or the annotation fails with MismatchedTokenError", function=m.qualname)
    res.floor("R08.13", "returns of a found index in the backward token search", n, 1)


def _no_slice_empty_by_construction_rule(ctx, res) -> None:
    """R08.14: `write_ast` gives the source back only if the pieces put into `sorted_children` tile the region without a gap.  The pieces are
    slices `self.source[a : b]` between two cursor positions.  A slice whose upper bound is, on every path, a copy of the name its lower
    bound is computed from (`start = index` ... `self.source[index + 1 : start]`) can never hold a character: a contradiction in the code
    itself -- the text that should have been kept (what stands between an opening parenthesis and the first element: a blank, a line
    break, a comment) is dropped from the children, and the written text no longer equals the source."""
    from ..cfg import CFG
    idx = ctx.idx
    n = 0
    for f in sorted(idx.functions.values(), key=lambda f: f.qualname):
        if f.unit.modname != "rope.refactor.patchedast" or f.parent is not None:
            continue
        slices = [x for x in walk_local(f.node) if isinstance(x, ast.Subscript) and isinstance(x.slice, ast.Slice) and x.slice.lower is not None and x.slice.upper is not None
                  and isinstance(x.slice.upper, ast.Name)]
        if not slices:
            continue
        cfg = None
        for sl in slices:
            lo, up = sl.slice.lower, sl.slice.upper
            base = lo.left if isinstance(lo, ast.BinOp) and isinstance(lo.op, ast.Add) and isinstance(lo.right, ast.Constant) else lo
            if not isinstance(base, ast.Name) or base.id == up.id:
                continue
            n += 1
            cfg = cfg or CFG(f.node)
            here = cfg.node_containing(sl)
            defs = [d for d in cfg.nodes if d.kind == "stmt" and isinstance(d.ast, ast.Assign) and any(isinstance(t, ast.Name) and t.id == up.id for t in d.ast.targets)]
            params = {a.arg for a in f.node.args.args}
            empty = False
            if here and defs:
                # the definitions of the upper bound that reach the slice
                reaching = [d for d in defs if any(h.id in cfg.reachable(d.id, avoid_nodes=[x.id for x in defs if x is not d]) for h in here)]
                from_entry = up.id in params and any(h.id in cfg.reachable(cfg.entry.id, avoid_nodes=[x.id for x in defs]) for h in here)
                base_defs = [d for d in cfg.nodes if d.kind == "stmt" and isinstance(d.ast, ast.Assign) and any(isinstance(t, ast.Name) and t.id == base.id for t in d.ast.targets)]

                def rebound_between(d) -> bool:  # the lower bound's name gets another value between the copy and the slice
                    return any(b.id in cfg.reachable(d.id) and any(h.id in cfg.reachable(b.id) for h in here) for b in base_defs if b is not d)

                empty = bool(reaching) and not from_entry and all(isinstance(d.ast.value, ast.Name) and d.ast.value.id == base.id and not rebound_between(d) for d in reaching)
            res.add("R08.14", f"{f.qualname.split('.', 3)[-1]}|slice-can-hold-text|{ast.unparse(sl)[:50]}", not empty, f"{f.unit.rel}:{sl.lineno}",
                    "the two bounds of the slice are different positions" if not empty else
                    f"`{ast.unparse(sl)}` is empty by construction: on every path `{up.id}` was just bound to `{base.id}`.  The text it was meant to keep -- what stands between the "
                    "opening parenthesis and the first element of a parenthesised tuple or generator expression (a blank, a line break, a comment) -- never reaches the node's "
                    "children: write_ast of the node and of everything above it drops those characters", function=f.qualname)
    res.floor("R08.14", "slices between two named positions in the walker", n, 3)
