"""C17 -- remaining class-level refactorings (narrow necessary conditions R17.1-R17.13)."""
from __future__ import annotations

import ast

from ..cfg import CFG
from ..core import AnalysisError, call_name, calls_in, is_self_attr, norm, walk_local, param_names
from . import common
from .c03 import yield_counter_rule
from .c04 import classifier_table_rule
from .c19 import matcher_rule

EXPLANATION = (
    "Four narrow structural necessary conditions, one per mechanism the property anchors name.  R17.1 (=R04.2): the "
    "write/read classifier used by encapsulate-field validates the operator text against a closed table of the "
    "interpreter's assignment operators.  R17.2: in encapsulate-field every emission of setter text is guarded "
    "(CFG edge-dominance) by the tuple-assignment test whose other edge raises RefactoringError.  R17.3: the finder "
    "that introduce-factory hands to rename_in_module is created with only_calls=True.  R17.4 (=R03.4): use-function's "
    "generator refusal counts every generator-making constructor.  R17.5 (=R19.3): the structural matcher behind "
    "use-function/restructure enumerates every field (only expr_context filtered) and rejects on class, child count, "
    "list length, scalar type and value.  R17.6: the unindented global-factory template is returned only under a test of the class "
    "line's textual column.  The emitted getter/setter/factory text and the "
    "body transplant are runtime strings and are not decided."
    " R17.8: the pending setter call is closed at the END of the statement's logical line."
    ' R17.9: the global factory is inserted below the last nested scope of the class.'
)
EXPLANATION += ' R17.12: pending-write state is assigned after the previous write was closed.'
EXPLANATION += ' R17.11: the right-hand side of an augmented write is parenthesised in the setter call.'
EXPLANATION += " R17.16: the setter call for a plain write is opened only past a test on the number of targets of the statement whose other side raises RefactoringError (a chained assignment is refused like a tuple assignment)."
EXPLANATION += " R17.13: in the anchored modules and the shared text utilities no source text is cut with str.splitlines() (it breaks at form feed, \x1c-\x1e, \x85, U+2028/9; rope's and the ast's line numbers count \n only)."
EXPLANATION += " R17.14: inside the loop over the files of a refactoring no handler swallows an error (a file is never silently left out of a multi-file change)."
EXPLANATION += " R17.15: program text that is moved is not whitespace-normalised (the result of `\" \".join(text.split())` is only ever compared, never emitted)."
ASSUMPTIONS = ["R17.1 and R17.4 share their rule bodies with C04 and C03"]


def _check_body(ctx, res) -> None:
    idx = ctx.idx
    classifier_table_rule(ctx, res, "R17.1", "rope.base.worder._RealFinder.get_assignment_type")

    # ---- R17.2
    f = idx.need_func("rope.refactor.encapsulate_field._FindChangesForModule.get_changed_module")
    fnode = common.inlined(idx, f)  # the refusal may be a private step (`self._refuse_tuple_assignment(occurrence)`): read in place
    cfg = CFG(fnode)
    def spells_setter(a) -> bool:
        """the appended text contains self.setter -- written in place, held in a local, or returned by a method of the class"""
        from .common import _subst_single_locals
        a = _subst_single_locals(fnode, a)
        if any(is_self_attr(x, "setter") for x in ast.walk(a)):
            return True
        # a local bound in several branches (what a helper with two returns becomes when it is read in place): any of its values
        for nm in [x.id for x in ast.walk(a) if isinstance(x, ast.Name)]:
            vals = [d.value for d in walk_local(fnode) if isinstance(d, ast.Assign) and any(isinstance(t, ast.Name) and t.id == nm for t in d.targets)]
            if len(vals) > 1 and any(is_self_attr(x, "setter") for v in vals for x in ast.walk(v)):
                return True
        for c in ast.walk(a):
            if isinstance(c, ast.Call) and is_self_attr(c.func) and f.cls is not None:
                m = idx.find_method(f.cls.qualname, c.func.attr)
                if m is not None and any(isinstance(r, ast.Return) and r.value is not None and any(is_self_attr(x, "setter") for x in ast.walk(r.value)) for r in walk_local(m.node)):
                    return True
        return False
    emits = [n for n in cfg.nodes if n.kind == "stmt" and any(call_name(c) == "append" and any(spells_setter(a) for a in c.args) for c in calls_in(n.ast))]
    if not emits:
        raise AnalysisError("anchor=encapsulate_field setter emission (result.append(self.setter ...)) not found")
    for i, e in enumerate(emits):
        gs = cfg.guards(e.id)
        tests = [(t, pol) for t, pol in gs if isinstance(t, ast.Call) and "tuple_assignment" in call_name(t)]
        ok = any(not pol for _, pol in tests)
        raises = False
        for n in cfg.nodes:
            if n.kind == "test" and isinstance(n.ast, ast.Call) and "tuple_assignment" in call_name(n.ast):
                for b, lab in cfg.succ[n.id]:
                    tgt = cfg.nodes[b]
                    if lab == "true" and tgt.kind == "stmt" and isinstance(tgt.ast, ast.Raise) and "RefactoringError" in ast.unparse(tgt.ast):
                        raises = True
        res.add("R17.2", f"get_changed_module|setter-emission-{i}", ok and raises, f"{f.unit.rel}:{e.lineno}",
                "setter text is emitted only after the tuple-assignment test answered false (its other edge raises RefactoringError)" if ok and raises else
                "encapsulate-field can emit setter text for an occurrence without first refusing tuple assignments: 'a.x, b = 1, 2' is rewritten into garbage instead of being refused")

    # ---- R17.3
    g = idx.need_func("rope.refactor.introduce_factory.IntroduceFactory._rename_occurrences")
    finders = {}  # local name or "self.<attr>" -> built with only_calls=True?  (the finder may be built once in __init__)
    owner = g.cls
    scope_nodes = [g.node] + ([m.node for m in owner.methods.values() if m is not g] if owner is not None else [])
    for fn in scope_nodes:
        for n in walk_local(fn):
            if isinstance(n, ast.Assign) and isinstance(n.value, ast.Call) and call_name(n.value) == "create_finder" and len(n.targets) == 1:
                kw = {k.arg: k.value for k in n.value.keywords}
                only = isinstance(kw.get("only_calls"), ast.Constant) and kw["only_calls"].value is True
                t = n.targets[0]
                key = t.id if isinstance(t, ast.Name) and fn is g.node else (f"self.{t.attr}" if is_self_attr(t) else None)
                if key is not None:
                    finders[key] = finders.get(key, True) and only
    def fkey(e):
        return e.id if isinstance(e, ast.Name) else (f"self.{e.attr}" if is_self_attr(e) else None)
    used = [c for c in calls_in(g.node) if call_name(c) == "rename_in_module" and c.args and fkey(c.args[0]) is not None]
    if not used:
        raise AnalysisError("anchor=introduce_factory rename_in_module(finder, ...) call not found")
    for c in used:
        ok = finders.get(fkey(c.args[0])) is True
        res.add("R17.3", "_rename_occurrences|finder", ok, f"{g.unit.rel}:{c.lineno}",
                "the occurrence finder handed to rename_in_module is restricted to calls (only_calls=True)" if ok else
                "introduce-factory rewrites every occurrence of the class, not only calls: isinstance(x, A) becomes isinstance(x, A.create)")

    # ---- R17.4
    yield_counter_rule(ctx, res, "R17.4")
    cr = idx.need_func("rope.refactor.usefunction.UseFunction._check_returns")
    from .common import inline_private_calls
    cfg = CFG(inline_private_calls(idx, cr, keep=("_yield_count",)))  # the check may be split into private steps (the counter itself stays a call)
    ok = False
    for n in cfg.nodes:
        if n.kind == "stmt" and isinstance(n.ast, ast.Raise) and "RefactoringError" in ast.unparse(n.ast):
            if any(isinstance(t, ast.Call) and call_name(t) == "_yield_count" and pol for t, pol in cfg.guards(n.id)):
                ok = True
    init = idx.need_func("rope.refactor.usefunction.UseFunction.__init__")
    called = any(is_self_attr(c.func, "_check_returns") for c in calls_in(init.node))
    res.add("R17.4", "UseFunction|refuses-generators", ok and called, cr.where,
            "UseFunction.__init__ refuses functions with a non-zero yield count with RefactoringError" if ok and called else
            "use-function no longer refuses generator functions (yield-count test or its call from __init__ is gone)")

    # ---- R17.5 (=R19.3): use-function and restructure rewrite what the structural matcher reports as instances
    matcher_rule(ctx, res, "R17.5")

    # ---- R17.6 the global factory is emitted as unindented text right after the class: that is only a module-level
    # function if the class statement itself starts in column 0.  rope's scope objects do not see if/try/with blocks, so
    # the test has to be on the TEXTUAL column of the class line (an indentation helper, col_offset or a prefix test).
    gf = idx.need_func("rope.refactor.introduce_factory.IntroduceFactory._get_factory_method")
    gcfg = CFG(gf.node)
    n6 = 0

    def column_valued(t: ast.AST, depth: int = 0) -> bool:
        for x in ast.walk(t):
            if isinstance(x, ast.Call) and "indent" in call_name(x).lower():
                return True
            if isinstance(x, ast.Attribute) and x.attr == "col_offset":
                return True
            if isinstance(x, ast.Call) and call_name(x) in ("startswith", "lstrip", "isspace"):
                return True
            if isinstance(x, ast.Name) and depth < 2:  # a local that holds the column
                for d in walk_local(gf.node):
                    if isinstance(d, ast.Assign) and any(isinstance(tg, ast.Name) and tg.id == x.id for tg in d.targets) and column_valued(d.value, depth + 1):
                        return True
        return False

    gparam = next((p for p in param_names(gf.node) if "global" in p), None)
    for nd in gcfg.nodes:
        if nd.kind != "stmt" or not isinstance(nd.ast, ast.Return) or nd.ast.value is None:
            continue
        gs = gcfg.guards(nd.id)
        # the text for a GLOBAL factory: returned on the flag's true side (or, without a recognisable flag, any `def` literal)
        # and not passed through an indenting helper
        consts = [x.value for x in ast.walk(nd.ast.value) if isinstance(x, ast.Constant) and isinstance(x.value, str)]
        on_global_side = any(pol and isinstance(t, ast.Name) and t.id == gparam for t, pol in gs) if gparam else \
            any(("\ndef " in c or c.startswith("def ")) for c in consts)
        col0 = on_global_side and not any(
            isinstance(x, ast.Call) and call_name(x) in ("indent_lines", "fix_indentation") for x in ast.walk(nd.ast.value))
        if not col0:
            continue
        n6 += 1
        ok = any(column_valued(t) for t, pol in gs)
        if not ok:
            # the refusal written as a guard clause in front: `if global_ and <column> > 0: raise ...` -- a test of the column that every
            # path to the return passes and whose yes-side raises
            # the return stands on the flag's true side: paths that took the false edge of an earlier test of the same (never re-bound) flag are
            # not paths to it
            reb = any(isinstance(x, (ast.Assign, ast.AugAssign)) and any(isinstance(tg, ast.Name) and tg.id == gparam for tg in (x.targets if isinstance(x, ast.Assign) else [x.target]))
                      for x in walk_local(gf.node))
            infeasible = [] if (reb or not gparam) else [(tn2.id, b, lab) for tn2 in gcfg.nodes if tn2.kind == "test" and isinstance(tn2.ast, ast.Name) and tn2.ast.id == gparam
                                                         for b, lab in gcfg.succ[tn2.id] if lab == "false"]
            for r in gcfg.nodes:
                if r.kind != "stmt" or not isinstance(r.ast, ast.Raise):
                    continue
                for tn in gcfg.nodes:
                    if tn.kind != "test" or not column_valued(tn.ast):
                        continue
                    yes = [b for b, lab in gcfg.succ[tn.id] if lab == "true"]
                    if yes and r.id in ({yes[0]} | gcfg.reachable(yes[0])) and nd.id not in gcfg.reachable(yes[0]) \
                            and nd.id not in gcfg.reachable(gcfg.entry.id, avoid_nodes=[tn.id], avoid_edges=infeasible):
                        ok = True
        res.add("R17.6", "_get_factory_method|global-at-column-0", ok, f"{gf.unit.rel}:{nd.lineno}",
                "the unindented factory text is emitted only after a test on the textual column of the class line" if ok else
                "the global factory (unindented `def` text inserted right after the class) is emitted without any test on the textual column of the "
                "class statement: a class defined inside a module-level if/try/with block gets the factory pasted into the middle of that block, so "
                "the statements after it become dead code or the module stops parsing", function=gf.qualname)
    res.floor("R17.6", "column-0 factory templates", n6, 1)

    # ---- R17.9 the factory is inserted below the class: below the end of its LAST nested definition (rope's class scope
    # ends where its own statements end; the nested scopes are in source order)
    gi = idx.need_func("rope.refactor.introduce_factory.IntroduceFactory._get_insertion_offset")
    picks = [x for x in walk_local(gi.node) if isinstance(x, ast.Subscript) and not isinstance(x.slice, ast.Slice)
             and (any(isinstance(c, ast.Call) and call_name(c) == "get_scopes" for c in ast.walk(x.value)) or
                  (isinstance(x.value, ast.Name) and any(isinstance(d, ast.Assign) and any(isinstance(tg, ast.Name) and tg.id == x.value.id for tg in d.targets)
                                                         and any(isinstance(c, ast.Call) and call_name(c) == "get_scopes" for c in ast.walk(d.value))
                                                         for d in walk_local(gi.node))))]
    if not picks:
        raise AnalysisError("anchor=IntroduceFactory._get_insertion_offset: the pick among the class's nested scopes not found")
    for k, x in enumerate(picks, 1):
        sl = x.slice
        val = sl.value if isinstance(sl, ast.Constant) else (-sl.operand.value if isinstance(sl, ast.UnaryOp) and isinstance(sl.op, ast.USub)
                                                             and isinstance(sl.operand, ast.Constant) else None)
        ok = val == -1
        res.add("R17.9", f"_get_insertion_offset|last-nested-scope#{k}", ok, f"{gi.unit.rel}:{x.lineno}",
                "the factory goes below the last definition nested in the class" if ok else
                f"the insertion point is taken from `{ast.unparse(x)}`, not from the LAST nested scope: a global factory is pasted after the class's first "
                "method, the remaining methods (indented like the factory's body) become dead code nested in the factory, and the class loses them",
                function=gi.qualname)

    # ---- R17.7 the generated method-object class must exist before module-level code after the function runs: it is
    # inserted after the TOP-LEVEL DEFINITION that contains the function, so the climb through `.parent` stops below the
    # module (its test names the module or the scope kind); a climb that only stops at `parent is None` ends at the module
    # scope and puts the class at the end of the file.
    ip = idx.need_func("rope.refactor.method_object.MethodObject._get_class_insertion_point")
    climbs = [x for x in walk_local(ip.node) if isinstance(x, ast.While) and any(isinstance(y, ast.Attribute) and y.attr == "parent" for y in ast.walk(x.test))]
    if not climbs:
        res.undecided("R17.7", "_get_class_insertion_point|stops-below-module", ip.where, "no climb through .parent found")
    for w in climbs:
        t = w.test
        names_module = any((isinstance(y, ast.Attribute) and y.attr in ("pymodule", "module")) or
                           (isinstance(y, ast.Call) and call_name(y) in ("get_module", "get_kind")) for y in ast.walk(t))
        only_none = any(isinstance(y, ast.Constant) and y.value is None for y in ast.walk(t)) or isinstance(t, ast.Attribute)
        ok = names_module and not (only_none and not names_module)
        res.add("R17.7", "_get_class_insertion_point|stops-below-module", ok, f"{ip.unit.rel}:{w.lineno}",
                "the climb stops at the top-level definition that contains the function" if ok else
                f"the climb `while {ast.unparse(t)}` only stops when there is no parent left, i.e. at the module scope: the new class is appended at the end "
                "of the file, and module-level code between the function and the end of the file calls the rewritten function before the class exists (NameError on import)",
                function=ip.qualname)

    # ---- R17.8 a write `obj.x = <value>` becomes `obj.set_x(<value>)`: the closing parenthesis belongs at the END of the
    # statement's LOGICAL line (the value may continue over several physical lines)
    gcm = idx.need_func("rope.refactor.encapsulate_field._FindChangesForModule.get_changed_module")
    gcm_node = common.inlined(idx, gcm)  # the opening of the setter call may be a private step (`self._open_setter_call(occurrence)`): read in place
    ends, starts_ = set(), set()
    for x in walk_local(gcm_node):
        if isinstance(x, ast.Assign) and isinstance(x.value, ast.Call) and call_name(x.value) == "logical_line_in" \
                and isinstance(x.targets[0], ast.Tuple) and len(x.targets[0].elts) == 2:
            a, b = x.targets[0].elts
            if isinstance(a, ast.Name):
                starts_.add(a.id)
            if isinstance(b, ast.Name):
                ends.add(b.id)
    n8 = 0
    for x in walk_local(gcm_node):
        if isinstance(x, ast.Assign) and any(is_self_attr(t, "last_set") for t in x.targets) and isinstance(x.value, ast.Call):
            n8 += 1
            arg = x.value.args[0] if x.value.args else None
            ok = call_name(x.value) == "get_line_end" and (
                (isinstance(arg, ast.Name) and arg.id in ends) or
                (isinstance(arg, ast.Subscript) and isinstance(arg.slice, ast.Constant) and arg.slice.value == 1))
            res.add("R17.8", f"get_changed_module|setter-closes-at-logical-end#{n8}", ok, f"{gcm.unit.rel}:{x.lineno}",
                    "the pending setter call is closed at the end of the statement's logical line" if ok else
                    (f"the position where the setter call is closed is computed by `{ast.unparse(x.value)[:60]}`, a scan of the line's text, not `get_line_end(<end of the logical line>)`: "
                     "the end of the logical line is the one position known to lie behind the whole value -- a scan for `;`, `#` or a line break can stop INSIDE a literal it does not "
                     "know to be one (real_code keeps the text of f-strings), so `a.label = f\"{n} entries; checked\"` becomes `a.set_label(f\"{n} entries); checked\"`"
                     if is_self_attr(x.value.func) and call_name(x.value) != "get_line_end" else
                     f"the position where the setter call is closed is `{ast.unparse(x.value)}`, not the end of the logical line: for a write whose value "
                     "continues over several physical lines the `)` lands after the first line and the module no longer parses"), function=gcm.qualname)
    res.floor("R17.8", "places where the pending setter's end is recorded", n8, 1)

    # ---- R17.10 which imports are added is never decided on the module's text lines
    common.import_presence_rule(ctx, res, "R17.10")


def _augmented_write_grouping_rule(ctx, res) -> None:
    """R17.11: `a.x OP= e` means `a.x = a.x OP (e)`.  Encapsulate field spells the write as `a.set_x(a.get_x() OP <text of e>)`:
    for `a.x *= 1 + 2` the text `a.get_x() * 1 + 2` regroups.  Where the class closes the setter call (the statement that
    appends the collected right-hand side + ")"), the right-hand side is wrapped in parentheses on a path that is taken for
    augmented writes (a guard that goes back to the comparison of the assignment type with "=") -- or the prefix emitted
    for an augmented write already opens the parenthesis after the operator."""
    from ..cfg import CFG
    idx = ctx.idx
    cls = idx.need_class("rope.refactor.encapsulate_field._FindChangesForModule")
    # (A) the prefix for augmented writes: a format string with the operator placeholder
    prefix_opens = False
    n_prefix = 0
    for m in cls.methods.values():
        for x in walk_local(m.node):
            if isinstance(x, ast.BinOp) and isinstance(x.op, ast.Mod) and isinstance(x.left, ast.Constant) and isinstance(x.left.value, str) and "%s" in x.left.value \
                    and any(isinstance(y, ast.Subscript) for y in ast.walk(x.right)):
                n_prefix += 1
                if x.left.value.rstrip().endswith("("):
                    prefix_opens = True
            # the same text as an f-string: `f"{setter}({primary}{getter}() {operator} "`
            if isinstance(x, ast.JoinedStr) and len([v for v in x.values if isinstance(v, ast.FormattedValue)]) >= 2 and x.values and isinstance(x.values[-1], ast.Constant) \
                    and any(isinstance(v, ast.Constant) and "(" in str(v.value) for v in x.values):
                n_prefix += 1
                if str(x.values[-1].value).rstrip().endswith("(") and len([v for v in x.values if isinstance(v, ast.Constant) and "(" in str(v.value)]) >= 2:
                    prefix_opens = True
    res.analysed["R17.11:prefix-forms"] = n_prefix
    # the augmented flag: attributes / names assigned from a comparison with "="
    flags = set()
    for m in cls.methods.values():
        for x in walk_local(m.node):
            if isinstance(x, ast.Assign) and isinstance(x.value, ast.Compare) and any(isinstance(c, ast.Constant) and c.value == "=" for c in x.value.comparators):
                for t in x.targets:
                    flags.add(t.attr if is_self_attr(t) else getattr(t, "id", None))
    wrapped = False
    where = None
    for m in cls.methods.values():
        cfg = CFG(m.node)
        for nd in cfg.nodes:
            st = nd.ast
            if nd.kind != "stmt" or not isinstance(st, (ast.Assign, ast.Return)) or not isinstance(st.value, ast.BinOp):
                continue
            consts = [c.value for c in ast.walk(st.value) if isinstance(c, ast.Constant) and isinstance(c.value, str)]
            # `v = "(" + v + ")"`, or -- the wrapping as a helper of its own -- `return "(" + <parameter> + ")"`
            rewraps = any(isinstance(t, ast.Name) and any(isinstance(y, ast.Name) and y.id == t.id for y in ast.walk(st.value)) for t in st.targets) \
                if isinstance(st, ast.Assign) else any(isinstance(y, ast.Name) and y.id in param_names(m.node) for y in ast.walk(st.value))
            if "(" in consts and ")" in consts and rewraps:
                gs = cfg.guards(nd.id)
                if any(pol and any((is_self_attr(y) and y.attr in flags) or (isinstance(y, ast.Name) and y.id in flags) or
                                   (isinstance(y, ast.Compare) and any(isinstance(c, ast.Constant) and c.value == "=" for c in y.comparators)) for y in ast.walk(t))
                       for t, pol in gs):
                    wrapped, where = True, f"{m.unit.rel}:{st.lineno}"
    # (B') the predicate that excuses a right-hand side from the parentheses decides "already one group" from the PARSE of the
    # text, not from its first and last character: `(fee) - (tax)` starts with ( and ends with ) and is no group
    n_pred = 0
    for m in cls.methods.values():
        textual = [c for c in calls_in(m.node) if call_name(c) in ("startswith", "endswith") and c.args and isinstance(c.args[0], ast.Constant) and c.args[0].value in ("(", ")")]
        if not textual:
            continue
        cfg = CFG(m.node)
        parses = [nd.id for nd in cfg.nodes if nd.ast is not None and nd.kind in ("stmt", "test") and any(call_name(c) in ("parse", "literal_eval", "compile") for c in calls_in(nd.ast))]
        for nd in cfg.nodes:
            if nd.kind == "stmt" and isinstance(nd.ast, ast.Return) and isinstance(nd.ast.value, ast.Constant) and nd.ast.value.value is True:
                gs = cfg.guards(nd.id)
                by_text = any(pol and any(c is t or any(c is y for y in ast.walk(t)) for c in textual) for t, pol in gs)
                unparsed = nd.id in cfg.reachable(cfg.entry.id, avoid_nodes=parses)
                if by_text and unparsed:
                    n_pred += 1
                    res.fail("R17.11", f"_FindChangesForModule.{m.name}|one-group-is-decided-by-the-parse#{n_pred}", f"{m.unit.rel}:{nd.lineno}",
                             f"{m.name} answers True for a text that starts with `(` and ends with `)` without parsing it: `(fee) - (tax)` is taken for one parenthesised group, "
                             "is not wrapped, and `acc.balance -= (fee) - (tax)` becomes `acc.set_balance(acc.get_balance() - (fee) - (tax))` -- another value", function=m.qualname)
    ok = prefix_opens or wrapped
    res.add("R17.11", "_FindChangesForModule|augmented-write-keeps-grouping", ok, where or cls.where,
            "the right-hand side of an augmented write is parenthesised in the setter call" if ok else
            "the setter text for `a.x OP= e` is `set_x(get_x() OP ` + the text of e + `)` with no parentheses around e: `a.x *= 1 + 2` becomes "
            "`a.set_x(a.get_x() * 1 + 2)` -- the program still runs and computes 12 instead of 30", function=cls.qualname)


def check(ctx, res) -> None:
    _check_body(ctx, res)
    _augmented_write_grouping_rule(ctx, res)
    _pending_write_state_rule(ctx, res)
    _chained_assignment_rule(ctx, res)
    from .common import line_model_rule as _lm

    _lm(ctx, res, "R17.13", ('rope.refactor.encapsulate_field', 'rope.refactor.introduce_factory', 'rope.refactor.method_object', 'rope.refactor.localtofield', 'rope.refactor.usefunction', 'rope.refactor.restructure'))
    from .common import per_file_no_skip_rule as _pf

    _pf(ctx, res, "R17.14", ('rope.refactor.encapsulate_field', 'rope.refactor.introduce_factory', 'rope.refactor.usefunction', 'rope.refactor.restructure', 'rope.refactor.method_object', 'rope.refactor.localtofield'))
    from .common import no_whitespace_normalisation_rule as _wn

    _wn(ctx, res, "R17.15", ('rope.refactor.encapsulate_field', 'rope.refactor.introduce_factory', 'rope.refactor.method_object', 'rope.refactor.localtofield', 'rope.refactor.usefunction', 'rope.refactor.restructure'))


def _pending_write_state_rule(ctx, res) -> None:
    """R17.12: encapsulate field emits a write in two steps: the opening `set_x(` when the occurrence is met, the closing -- with
    the parenthesised right-hand side -- when the NEXT occurrence (or the end) is reached, by `_manage_writes`, which reads
    what was remembered about the pending write (`last_set`, `set_index`, the augmented flag).  In the loop over the
    occurrences every assignment to an attribute that `_manage_writes` reads therefore stands behind the call of
    `_manage_writes` of that round: set before it, the pending write is closed with the state of the next one."""
    from .common import inline_private_calls
    idx = ctx.idx
    cls = idx.need_class("rope.refactor.encapsulate_field._FindChangesForModule")
    mw = cls.methods.get("_manage_writes")
    f = cls.methods.get("get_changed_module")
    if mw is None and f is not None:
        # by role: the private method the occurrence loop calls that closes the pending write -- it tests an attribute against None
        # and clears it (`if self.last_set is not None ...: ...; self.last_set = None`)
        def closes(m):
            cleared = {t.attr for x in walk_local(m.node) if isinstance(x, ast.Assign) and isinstance(x.value, ast.Constant) and x.value.value is None
                       for t in x.targets if is_self_attr(t)}
            tested = {c.left.attr for c in walk_local(m.node) if isinstance(c, ast.Compare) and is_self_attr(c.left) and len(c.ops) == 1
                      and isinstance(c.ops[0], ast.IsNot) and isinstance(c.comparators[0], ast.Constant) and c.comparators[0].value is None}
            return bool(cleared & tested)
        called = {c.func.attr for c in calls_in(f.node) if is_self_attr(c.func)}
        cands = [m for m in cls.methods.values() if m is not f and m.name in called and closes(m)]
        mw = cands[0] if len(cands) == 1 else None
    if mw is None or f is None:
        raise AnalysisError("anchor=_FindChangesForModule._manage_writes / get_changed_module missing")
    reads = {x.attr for x in ast.walk(mw.node) if is_self_attr(x) and isinstance(x.ctx, ast.Load)}
    node = inline_private_calls(idx, f, keep=(mw.name,))
    cfg = CFG(node)
    calls = [nd.id for nd in cfg.nodes if nd.ast is not None and nd.kind in ("stmt", "test") and any(is_self_attr(c.func, mw.name) for c in calls_in(nd.ast))]
    if not calls:
        raise AnalysisError(f"anchor=get_changed_module: no call of {mw.name}")
    loops = [nd for nd in cfg.nodes if nd.kind == "loop"]
    n = 0
    for nd in cfg.nodes:
        st = nd.ast
        if nd.kind != "stmt" or not isinstance(st, ast.Assign) or not cfg.loop_guards(nd.id):
            continue
        attrs = [t.attr for t in st.targets if is_self_attr(t) and t.attr in reads]
        if not attrs:
            continue
        n += 1
        # within one round: from the loop header, can the assignment be reached without passing the call?
        ok = all(nd.id not in cfg.reachable(l.id, avoid_nodes=calls) or nd.id == l.id for l in loops
                 if nd.id in cfg.reachable(l.id))
        res.add("R17.12", f"get_changed_module|pending-write-state-set-after-closing:{attrs[0]}#{n}", ok, f"{f.unit.rel}:{st.lineno}",
                f"self.{attrs[0]} is set after the pending write was closed" if ok else
                f"`{ast.unparse(st)[:60]}` can run before `{mw.name}` closes the PREVIOUS write, which reads self.{attrs[0]}: `acct.balance -= fee + tax` followed "
                "by a plain `acct.balance = ...` is closed with the flag of the plain write -- `set_balance(get_balance() - fee + tax)`, no parentheses, another value",
                function=f.qualname)
    res.floor("R17.12", "assignments of pending-write state in the occurrence loop", n, 2)


def _chained_assignment_rule(ctx, res) -> None:
    """R17.16: `y = a.x = 7` has two targets and one value.  Encapsulate field spells a plain write as `a.set_x(<rest of the line>)`: the
    other targets either stay in front of the call (`y = a.set_x(7)`: y is None) or are swallowed by it (`a.set_x(y = 7)`,
    `a.set_x( b.set_x(7)`).  Like a tuple assignment, a chained one is refused: the opening of the setter call for a plain write
    (every emission that does not stand under `assignment_type == "="` answered NO) is reached only past a test whose yes-side raises
    RefactoringError and whose answer is computed from the NUMBER OF TARGETS of an assignment statement (`len(<node>.targets)` compared)."""
    idx = ctx.idx
    f = idx.need_func("rope.refactor.encapsulate_field._FindChangesForModule.get_changed_module")
    cls = f.cls
    # predicates of the class that count the targets of an assignment: `len(<x>.targets) > 1` (or >= 2, != 1) decides what they return
    def counts_targets(fn_node) -> bool:
        for c in ast.walk(fn_node):
            if isinstance(c, ast.Compare) and len(c.ops) == 1 and isinstance(c.ops[0], (ast.Gt, ast.GtE, ast.NotEq, ast.Lt, ast.LtE, ast.Eq)):
                for side in (c.left, c.comparators[0]):
                    if isinstance(side, ast.Call) and call_name(side) == "len" and side.args and isinstance(side.args[0], ast.Attribute) \
                            and side.args[0].attr == "targets":
                        return True
        return False

    # (the count itself may sit in a private step of the predicate)
    def answers_only(m) -> bool:  # a step that emits text is no predicate, whatever it asks on the way
        return not any(is_self_attr(x, "setter") or (isinstance(x, ast.Call) and call_name(x) == "append") for x in ast.walk(m.node))

    predicates = {name for name, m in cls.methods.items() if name != f.name and (counts_targets(m.node) or (
        answers_only(m) and any(counts_targets(h.node) and answers_only(h) for h in common.with_private_helpers(idx, m, depth=1)[1:] if h.cls is cls and h.name != f.name)))}
    # the emission may be a private step; the predicates stay calls
    fnode = common.inline_private_calls(idx, f, keep=tuple(predicates))
    cfg = CFG(fnode)

    def spells_setter(a) -> bool:
        from .common import _subst_single_locals
        a = _subst_single_locals(fnode, a)
        return any(is_self_attr(x, "setter") for x in ast.walk(a))

    # where the text of the setter call is decided: the append that spells it, or -- when the appended value is a local bound in
    # several branches (what a helper with two returns becomes when it is read in place) -- each binding that spells it
    emits = []
    for nd in cfg.nodes:
        if nd.kind != "stmt":
            continue
        for c in calls_in(nd.ast):
            if call_name(c) != "append":
                continue
            for a in c.args:
                if spells_setter(a):
                    emits.append(nd)
                    continue
                for nm in {x.id for x in ast.walk(a) if isinstance(x, ast.Name)}:
                    binds = [b for b in cfg.nodes if b.kind == "stmt" and isinstance(b.ast, ast.Assign)
                             and any(isinstance(t, ast.Name) and t.id == nm for t in b.ast.targets)]
                    if len(binds) > 1:
                        emits += [b for b in binds if spells_setter(b.ast.value) and b not in emits]
    if not emits:
        raise AnalysisError("anchor=encapsulate_field setter emission (result.append(self.setter ...)) not found")

    def is_plain_test(t) -> bool:
        return isinstance(t, ast.Compare) and len(t.ops) == 1 and isinstance(t.ops[0], (ast.Eq, ast.NotEq)) \
            and any(isinstance(x, ast.Constant) and x.value == "=" for x in (t.left, t.comparators[0]))

    # a flag that remembers the comparison (`self.is_augmented_set = assignment_type != "="`): flag -> the truth value that means "augmented"
    def flag_key(t):
        return f"self.{t.attr}" if is_self_attr(t) else (t.id if isinstance(t, ast.Name) else None)

    aug_flags = {}
    for a in ast.walk(fnode):
        if isinstance(a, ast.Assign) and is_plain_test(a.value):
            for t in a.targets:
                if flag_key(t):
                    aug_flags[flag_key(t)] = isinstance(a.value.ops[0], ast.NotEq)

    def is_target_count_test(t) -> bool:
        if isinstance(t, ast.Call) and is_self_attr(t.func) and t.func.attr in predicates:
            return True
        return counts_targets(t)

    n = 0
    for i, e in enumerate(emits):
        gs = cfg.guards(e.id)
        augmented = any(is_plain_test(t) and (pol != isinstance(t.ops[0], ast.Eq)) for t, pol in gs) \
            or any(flag_key(t) in aug_flags and pol == aug_flags[flag_key(t)] for t, pol in gs)
        if augmented:
            continue  # `a.x += 1` cannot be chained
        n += 1
        passed = [(t, pol) for t, pol in gs if is_target_count_test(t)]
        ok = False
        for t, pol in passed:
            # the other side of the test raises the refusal
            for nd in cfg.nodes:
                if nd.kind == "test" and nd.ast is t:
                    for b, lab in cfg.succ[nd.id]:
                        if lab == ("false" if pol else "true"):
                            tgt = cfg.nodes[b]
                            if tgt.kind == "stmt" and isinstance(tgt.ast, ast.Raise) and "RefactoringError" in ast.unparse(tgt.ast):
                                ok = True
        res.add("R17.16", f"get_changed_module|plain-write-emission-{i}|chained-assignment-refused", ok, f"{f.unit.rel}:{e.lineno}",
                "the setter call for a plain write is opened only after a test on the number of targets of the statement whose other side raises RefactoringError" if ok else
                "encapsulate field opens `set_x(` for a plain write without asking whether the statement has other targets: `y = a.x = 7` becomes "
                "`y = a.set_x(7)` (y is None afterwards), `a.x = y = 7` becomes `a.set_x(y = 7)` (TypeError), `a.x = b.x = 7` an unbalanced parenthesis; "
                "a tuple assignment is refused, a chained one is not", function=f.qualname)
    res.floor("R17.16", "plain-write emissions", n, 1)
    # (b) the statement that is examined is the WHOLE logical line of the write: where a predicate compares `<lo> <= node.lineno <= <hi>`,
    # lo and hi are the two ends of `logical_line_in(...)` -- computed in the predicate, or handed to it by the caller.  The physical line
    # of the field is not the start of the statement when the first target spans lines (`table[\n row, col\n] = item.value = ...`)
    inl = fnode  # (the predicates are kept as calls there)

    def line_ends(fn_node):
        """name -> 0 | 1 for names bound by unpacking the result of logical_line_in"""
        out = {}
        for a in walk_local(fn_node):
            if isinstance(a, ast.Assign) and isinstance(a.value, ast.Call) and call_name(a.value) == "logical_line_in" and isinstance(a.targets[0], ast.Tuple):
                for i, e in enumerate(a.targets[0].elts[:2]):
                    if isinstance(e, ast.Name):
                        out[e.id] = i
        return out

    k = 0
    for pname in sorted(predicates):
        pm = cls.methods[pname]
        own = line_ends(pm.node)
        params = param_names(pm.node)
        # (the search for the statement may be a private step of the predicate: its bounds are what the predicate hands in)
        steps = [h for h in common.with_private_helpers(idx, pm, depth=1)[1:] if h.cls is cls]
        step_bounds = {}
        for h in steps:
            hp = param_names(h.node)
            for x in calls_in(pm.node):
                if is_self_attr(x.func) and x.func.attr == h.name:
                    for j, a in enumerate(x.args):
                        if j + 1 < len(hp) and isinstance(a, ast.Name) and a.id in own:
                            step_bounds[(h.name, hp[j + 1])] = own[a.id]
        for owner, c in [(pm, c) for c in ast.walk(pm.node)] + [(h, c) for h in steps for c in ast.walk(h.node)]:
            if not (isinstance(c, ast.Compare) and len(c.ops) == 2 and all(isinstance(o, (ast.LtE, ast.Lt)) for o in c.ops)
                    and isinstance(c.comparators[0], ast.Attribute) and c.comparators[0].attr == "lineno"):
                continue
            lo, hi = c.left, c.comparators[1]
            for bound, want, what in ((lo, 0, "lower"), (hi, 1, "upper")):
                k += 1
                got = None
                if owner is not pm:
                    got = step_bounds.get((owner.name, bound.id)) if isinstance(bound, ast.Name) else None
                elif isinstance(bound, ast.Name) and bound.id in own:
                    got = own[bound.id]
                elif isinstance(bound, ast.Name) and bound.id in params:
                    # what the callers hand in
                    pos = params.index(bound.id) - 1  # without self
                    vals = set()
                    for body in [inl] + [m.node for mn, m in sorted(cls.methods.items()) if mn not in (pname, f.name)]:
                        ends_ = line_ends(body)
                        for x in ast.walk(body):
                            if isinstance(x, ast.Call) and is_self_attr(x.func) and x.func.attr == pname:
                                vals.add(ends_.get(x.args[pos].id) if pos < len(x.args) and isinstance(x.args[pos], ast.Name) else None)
                    got = vals.pop() if len(vals) == 1 else None
                ok = got == want
                res.add("R17.16", f"{pname}|{what}-bound-is-the-{'start' if want == 0 else 'end'}-of-the-logical-line", ok, f"{pm.unit.rel}:{c.lineno}",
                        f"the {what} bound of the examined lines is the {'start' if want == 0 else 'end'} of the write's logical line" if ok else
                        f"{pname}: the {what} bound `{ast.unparse(bound)}` of the lines examined for a chained assignment is not the "
                        f"{'start' if want == 0 else 'end'} of the write's logical line (`logical_line_in(...)[{want}]`): with the field's own physical line as the lower bound, "
                        "`table[\n    row, col\n] = item.value = item.value - 4` -- the statement starts two lines above the field -- is not recognised as chained and becomes "
                        "`] = item.set_value(...)`: `table[row, col]` receives None", function=pm.qualname)
    res.floor("R17.16", "bounds of the examined lines", k, 2)
    # (c) EVERY assignment statement of the logical line is asked (`count = 0; last = box.value = 7`): a search over the tree that hands
    # back the first assignment in the range decides for the statement in front of the chained one
    for pname in sorted(predicates):
        pm = cls.methods[pname]
        for h in common.with_private_helpers(idx, pm, depth=1):
            hcfg = None
            for lp in walk_local(h.node):
                if not (isinstance(lp, ast.For) and isinstance(lp.target, ast.Name) and any(isinstance(x, ast.Call) and call_name(x) == "walk" for x in ast.walk(lp.iter))):
                    continue
                for r in ast.walk(lp):
                    if isinstance(r, ast.Return) and isinstance(r.value, ast.Name) and r.value.id == lp.target.id:
                        hcfg = hcfg or CFG(h.node)
                        nd = hcfg.node_of_stmt(r)
                        counted = nd is not None and any(counts_targets(t) for t, _ in hcfg.guards(nd.id))
                        res.add("R17.16", f"{h.name}|every-assignment-of-the-line-is-asked", counted, f"{h.unit.rel}:{r.lineno}",
                                "the statement handed back was chosen by its number of targets" if counted else
                                f"{h.name} hands back the FIRST assignment statement in the examined lines, and the number of targets is asked of that one alone: in "
                                "`count = 0; last = box.value = 7` the plain `count = 0` answers for the line, the chained write is not refused and becomes "
                                "`last = box.set_value(7)` -- `last` is None afterwards", function=h.qualname)
