"""Helpers shared by rule modules: role-based anchor discovery."""
from __future__ import annotations

import ast
from typing import Dict, List, Optional, Set, Tuple

from ..core import AnalysisError, ClassInfo, FuncInfo, Index, call_name, dotted, is_self_attr, walk_local

CHANGE_BASE = "rope.base.change.Change"


def change_classes(idx: Index) -> List[ClassInfo]:
    idx.need_class(CHANGE_BASE)
    return [idx.classes[q] for q in idx.subclasses(CHANGE_BASE) if q.startswith("rope.base.change.")]


def composite_change(idx: Index) -> ClassInfo:
    """The Change subclass that defines do and undo and iterates a list
    attribute of sub-changes in both."""
    for c in change_classes(idx):
        do, undo = c.methods.get("do"), c.methods.get("undo")
        if not (do and undo):
            continue
        loops = [n for n in walk_local(do.node) if isinstance(n, ast.For)]
        if any(any(is_self_attr(x) for x in ast.walk(l.iter)) for l in loops):
            return c
    raise AnalysisError("anchor=role:composite-change (class with do/undo iterating a list of sub-changes) not found")


def job_wrapper(idx: Index) -> Tuple[FuncInfo, ast.FunctionDef, List[FuncInfo]]:
    """The decorator applied to do/undo of the primitive changes: returns
    (decorator function, inner wrapper def, wrapped methods)."""
    counts: Dict[str, List[FuncInfo]] = {}
    for c in change_classes(idx):
        for m in ("do", "undo"):
            f = c.methods.get(m)
            if f:
                for d in f.decorator_names():
                    q = idx.resolve_dotted(c.unit.modname, d)
                    counts.setdefault(q, []).append(f)
    if not counts:
        raise AnalysisError("anchor=role:job-wrapper (decorator on do/undo of Change subclasses) not found")
    q = max(counts, key=lambda k: len(counts[k]))
    deco = idx.need_func(q)
    inner = [n for n in deco.node.body if isinstance(n, ast.FunctionDef)]
    if len(inner) != 1:
        raise AnalysisError(f"anchor=role:job-wrapper inner function of {q} not unique")
    return deco, inner[0], counts[q]


def list_attrs_of_init(cls: ClassInfo) -> Set[str]:
    """self.X = [] in __init__."""
    out = set()
    init = cls.methods.get("__init__")
    if init:
        for n in walk_local(init.node):
            if isinstance(n, ast.Assign) and isinstance(n.value, ast.List) and not n.value.elts:
                for t in n.targets:
                    if is_self_attr(t):
                        out.add(t.attr)
    return out


def property_aliases(cls: ClassInfo) -> Dict[str, str]:
    """name = property(lambda self: self.X)  or  @property def name(self): return self.X"""
    out = {}
    for name, v in cls.class_attrs.items():
        if isinstance(v, ast.Call) and call_name(v) == "property" and v.args and isinstance(v.args[0], ast.Lambda):
            b = v.args[0].body
            if is_self_attr(b):
                out[name] = b.attr
    for name, f in cls.methods.items():
        if "property" in f.decorator_names() and len(f.node.body) == 1 and isinstance(f.node.body[0], ast.Return):
            b = f.node.body[0].value
            if b is not None and is_self_attr(b):
                out[name] = b.attr
    return out


MUTATORS = {"append", "pop", "remove", "insert", "clear", "extend", "reverse", "sort", "appendleft", "popleft",
            "update", "add", "discard", "setdefault", "popitem"}


def mutated_exprs(stmt: ast.AST) -> List[ast.expr]:
    """Expressions (receivers) mutated in place by this statement/expression."""
    out = []
    for n in [stmt, *walk_local(stmt)]:
        if isinstance(n, ast.Call) and isinstance(n.func, ast.Attribute) and n.func.attr in MUTATORS:
            out.append(n.func.value)
        elif isinstance(n, ast.Delete):
            for t in n.targets:
                if isinstance(t, ast.Subscript):
                    out.append(t.value)
        elif isinstance(n, (ast.Assign, ast.AugAssign, ast.AnnAssign)):
            ts = n.targets if isinstance(n, ast.Assign) else [n.target]
            for t in ts:
                if isinstance(t, ast.Subscript):
                    out.append(t.value)
                elif isinstance(n, ast.AugAssign):
                    out.append(t)
    return out


def explicit_raises(fn: ast.AST) -> List[ast.Raise]:
    return [n for n in walk_local(fn) if isinstance(n, ast.Raise)]
